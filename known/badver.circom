pragma circom 3.0.0;
template T(n) {
 signal input in;
 signal output out;
 out <== in * n;
}
