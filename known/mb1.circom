pragma circom 2.0.0;
// ééééééééééééééééééééééééééééééééééééééééééééééééééééééé
template T() {
    signal input in;
    signal output out;
    out <-- in; /* unterminated é *