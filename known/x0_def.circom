function f(x) {
    var x_0 = 7;
    if (x > 1) {
        var x = 3;
        x_0 = x_0 + x;
    }
    return x_0 + x;
}
