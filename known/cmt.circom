pragma circom 2.0.0;
/** doc comment **/
template T() {
    signal input in;
    signal output out;
    out <-- in;
}
