template T() {
    signal input in;
    signal output out;
    out <-- ~in;
    out === in;
}
