template T() {
    signal input in;
    signal output out;
    var a[2];
    a[0] = g(in);
    a[1] = 1;
    out <-- a[0];
    out === in;
}
