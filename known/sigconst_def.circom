template T(n) {
    signal input in;
    signal output out;
    if (n == 0) { out <-- 1; } else { out <-- in; }
    if (out == 1) { log(1); }
}
