pragma circom 2.0.0;
include "d1.circom";
component main = T();
