pragma circom 2.0.0;
template T() { signal input a; signal input b; signal output o; o <== a + b; var unused = 3; }
