pragma circom 2.0.0;
include "inc_a.circom";
template T() { signal input a; signal input b; signal output o; o <== a + b; }
