template T(n) {
 signal input in;
 signal output out;
 out <== in * n;
}
