pragma circom 2.0.0;
function f(a) {
    var r = 0;
    while (r < a) {
        var r = r + 1;
    }
    return r;
}
