pragma circom 2.0.0;
template T(n, n) {
    signal input in;
    signal output out;
    out <== in * n;
}
