pragma circom 2.1.0;
function g(x) { var r = 0; var t = x * 2; for (var i = 0; i < x; i++) { r += i; } return r; }
template Sub(k) { signal input a; signal input b; signal output s; signal output t; s <-- a + b; t <== a * k; s === a + b; }
template One() { signal input a; signal output o; o <-- a / 3; }
template Top(n) {
    signal input x; signal input y; signal output u; signal output v; signal output w[2];
    signal m;
    (u, v) <== Sub(n)(x, y);
    for (var i = 0; i < 2; i++) { w[i] <== One()(x); }
    component lt = LessThan(8); lt.in[0] <== x; lt.in[1] <== y;
    component nb = Num2Bits(n); nb.in <== x;
    m <-- x \ y;
    if (n > 3) { var q = ~n; log(q); }
    var z = g(n);
}
