pragma circom 2.0.0;
template D(n) { signal input a; signal output o; var x[2] = [0, 1];
o <-- x[x[x[x[x[x[x[x[x[x[x[x[0]]]]]]]]]]]] + a;
}
