pragma circom 2.0.0;
template T(n) {
    signal input in;
    signal output out;
    if (n == 0) { out <-- 1; } else { out <-- 2; }
}
