pragma circom 2.0.0;
function T(a, b) {
    0x0 = 0x0;
    return a;
}
