pragma circom 2.0.0;
template One() { signal input a; signal output o; o <== a; }
template Top() {
    signal input x;
    var v[2];
    v[One()(x)] = 1;
}
