pragma circom 2.0.0;
function f(a) { return 0x; }
