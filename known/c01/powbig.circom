pragma circom 2.0.0;
function f(a) { var x = 2 ** 3000000000; return x + a; }
