pragma circom 2.0.0;
function f(a) { var x = 1 << 100000000000; return x + a; }
