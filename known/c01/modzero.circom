pragma circom 2.0.0;
function f(a) { var x = 5 % 0; return x; }
