pragma circom 2.0.0;
template B() { signal input in; signal output out; out <== in; }
component main = B();
