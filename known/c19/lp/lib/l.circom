pragma circom 2.0.0;
template L() { signal input in; signal output out; out <== in; }
