pragma circom 2.0.0;
include "l.circom";
include "lib/l.circom";
template A() { signal input in; signal output out; component l = L(); l.in <== in; out <== l.out; }
component main = A();
