pragma circom 2.0.0;
function f(a) { var x; return x + a; }
