function f(c) {
    var x;
    if (c) { x = 5; }
    if (x == 5) { return 1; }
    return 0;
}
