pragma circom 2.1.0;
template One() { signal input a; signal output o; o <== a; }
template Top() {
    signal input y;
    signal z <== One()(a <-- y);
}
