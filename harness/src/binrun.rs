//! Run the real release binary under resource limits and parse what it prints.

use serde_json::Value;
use std::os::unix::process::{CommandExt, ExitStatusExt};
use std::path::{Path, PathBuf};
use std::process::{Command, Stdio};

#[derive(Clone, Debug, Default)]
pub struct RunOpts {
    pub files: Vec<PathBuf>,
    pub libs: Vec<PathBuf>,
    pub level: Option<String>,
    pub curve: Option<String>,
    pub allow: Vec<String>,
    pub verbose: bool,
    pub sarif: Option<PathBuf>,
    /// instead of removing an existing SARIF file before the run, fill it with a long stale text
    /// (the run must replace it completely; an untouched file counts as `not written`)
    pub stale_sarif: bool,
    pub cpu_secs: u64,
    pub rust_log: Option<String>,
    pub cwd: Option<PathBuf>,
}

impl RunOpts {
    pub fn files<P: AsRef<Path>>(files: &[P]) -> RunOpts {
        RunOpts {
            files: files.iter().map(|p| p.as_ref().to_path_buf()).collect(),
            cpu_secs: 60,
            ..Default::default()
        }
    }
    pub fn verbose(mut self) -> Self {
        self.verbose = true;
        self
    }
    pub fn level(mut self, l: &str) -> Self {
        self.level = Some(l.to_string());
        self
    }
    pub fn curve(mut self, c: &str) -> Self {
        self.curve = Some(c.to_string());
        self
    }
    pub fn args(&self) -> Vec<String> {
        let mut a: Vec<String> = Vec::new();
        if let Some(l) = &self.level {
            a.push("--level".into());
            a.push(l.clone());
        }
        if let Some(c) = &self.curve {
            a.push("--curve".into());
            a.push(c.clone());
        }
        for id in &self.allow {
            a.push("--allow".into());
            a.push(id.clone());
        }
        if self.verbose {
            a.push("--verbose".into());
        }
        if let Some(s) = &self.sarif {
            a.push("--sarif-file".into());
            a.push(s.display().to_string());
        }
        for l in &self.libs {
            a.push("-L".into());
            a.push(l.display().to_string());
        }
        for f in &self.files {
            a.push(f.display().to_string());
        }
        a
    }
}

#[derive(Clone, Debug)]
pub struct RunOut {
    pub status: Option<i32>,
    pub signal: Option<i32>,
    pub stdout: String,
    pub stderr: String,
    pub stdout_utf8: bool,
    pub sarif_text: Option<String>,
}

/// Number of subprocess runs of this process and the wall time of the slowest one (reported in the
/// evidence next to the CPU limits, so that the margin of the limits can be read off every run).
static RUNS: std::sync::atomic::AtomicU64 = std::sync::atomic::AtomicU64::new(0);
static SLOWEST_RUN_MS: std::sync::atomic::AtomicU64 = std::sync::atomic::AtomicU64::new(0);

pub fn run_stats() -> (u64, u64) {
    (RUNS.load(std::sync::atomic::Ordering::Relaxed), SLOWEST_RUN_MS.load(std::sync::atomic::Ordering::Relaxed))
}

pub fn run(bin: &Path, opts: &RunOpts) -> Result<RunOut, String> {
    let mut cmd = Command::new(bin);
    cmd.args(opts.args());
    cmd.env_clear();
    cmd.env("PATH", "/usr/bin:/bin");
    if let Some(l) = &opts.rust_log {
        cmd.env("RUST_LOG", l);
    }
    if let Some(d) = &opts.cwd {
        cmd.current_dir(d);
    }
    cmd.stdin(Stdio::null()).stdout(Stdio::piped()).stderr(Stdio::piped());
    let cpu = opts.cpu_secs.max(1);
    unsafe {
        cmd.pre_exec(move || {
            let l = libc::rlimit { rlim_cur: cpu, rlim_max: cpu + 1 };
            libc::setrlimit(libc::RLIMIT_CPU, &l);
            let mem = libc::rlimit { rlim_cur: 4 << 30, rlim_max: 4 << 30 };
            libc::setrlimit(libc::RLIMIT_AS, &mem);
            let core = libc::rlimit { rlim_cur: 0, rlim_max: 0 };
            libc::setrlimit(libc::RLIMIT_CORE, &core);
            Ok(())
        });
    }
    let stale: String = "{ \"stale\": \"".to_string() + &"x".repeat(200_000) + "\" }\n";
    if let Some(s) = &opts.sarif {
        let _ = std::fs::remove_file(s);
        if opts.stale_sarif {
            let _ = std::fs::write(s, &stale);
        }
    }
    crate::engine::watchdog_note_binary();
    let t0 = std::time::Instant::now();
    let out = cmd.output().map_err(|e| format!("cannot spawn {}: {e}", bin.display()))?;
    RUNS.fetch_add(1, std::sync::atomic::Ordering::Relaxed);
    SLOWEST_RUN_MS.fetch_max(t0.elapsed().as_millis() as u64, std::sync::atomic::Ordering::Relaxed);
    let stdout_utf8 = std::str::from_utf8(&out.stdout).is_ok();
    let sarif_text = opts.sarif.as_ref().and_then(|p| std::fs::read_to_string(p).ok()).filter(|t| !(opts.stale_sarif && *t == stale));
    Ok(RunOut {
        status: out.status.code(),
        signal: out.status.signal(),
        stdout: String::from_utf8_lossy(&out.stdout).to_string(),
        stderr: String::from_utf8_lossy(&out.stderr).to_string(),
        stdout_utf8,
        sarif_text,
    })
}

#[derive(Clone, Debug, PartialEq, Eq, PartialOrd, Ord, Hash)]
pub struct Diag {
    pub severity: String, // error | warning | note
    pub id: Option<String>,
    pub message: String,
    /// Location of the first (primary) label as printed: file, line, column.
    pub loc: Option<(String, usize, usize)>,
}

#[derive(Clone, Debug, Default)]
pub struct Parsed {
    /// `circomspect: …` lines except the summary.
    pub log: Vec<String>,
    pub diags: Vec<Diag>,
    /// The final summary message (`No issues found.` / `N issues found.`), if it is the last line.
    pub summary: Option<String>,
}

fn parse_header(line: &str) -> Option<Diag> {
    for sev in ["error", "warning", "note"] {
        if let Some(rest) = line.strip_prefix(sev) {
            if let Some(msg) = rest.strip_prefix(": ") {
                return Some(Diag { severity: sev.into(), id: None, message: msg.to_string(), loc: None });
            }
            if let Some(r) = rest.strip_prefix('[') {
                if let Some(end) = r.find("]: ") {
                    let id = &r[..end];
                    if !id.is_empty() && id.chars().all(|c| c.is_ascii_alphanumeric()) {
                        return Some(Diag {
                            severity: sev.into(),
                            id: Some(id.to_string()),
                            message: r[end + 3..].to_string(),
                            loc: None,
                        });
                    }
                }
            }
        }
    }
    None
}

fn parse_loc(line: &str) -> Option<(String, usize, usize)> {
    let t = line.trim_start();
    let rest = t.strip_prefix("┌─ ")?;
    let mut it = rest.rsplitn(3, ':');
    let col = it.next()?.trim().parse().ok()?;
    let line_no = it.next()?.parse().ok()?;
    let file = it.next()?.to_string();
    Some((file, line_no, col))
}

pub fn parse_stdout(stdout: &str) -> Parsed {
    let mut p = Parsed::default();
    let lines: Vec<&str> = stdout.lines().collect();
    let mut i = 0;
    while i < lines.len() {
        let line = lines[i];
        if let Some(msg) = line.strip_prefix("circomspect: ") {
            p.log.push(msg.to_string());
        } else if let Some(mut d) = parse_header(line) {
            // the location line, if any, follows the (possibly multi-line) message
            let mut j = i + 1;
            while j < lines.len() && j <= i + 12 {
                let l = lines[j];
                if let Some(loc) = parse_loc(l) {
                    d.loc = Some(loc);
                    break;
                }
                if l.is_empty() || l.starts_with("circomspect: ") || parse_header(l).is_some() || l.trim_start().starts_with("= ") {
                    break;
                }
                // continuation line of the message
                d.message.push('\n');
                d.message.push_str(l);
                j += 1;
            }
            p.diags.push(d);
        }
        i += 1;
    }
    if let Some(last) = lines.last() {
        if let Some(msg) = last.strip_prefix("circomspect: ") {
            if is_summary(msg) {
                p.summary = Some(msg.to_string());
                p.log.pop();
            }
        }
    }
    p
}

pub fn is_summary(msg: &str) -> bool {
    if msg == "No issues found." || msg == "1 issue found." {
        return true;
    }
    if let Some(n) = msg.strip_suffix(" issues found.") {
        return !n.is_empty() && n.chars().all(|c| c.is_ascii_digit());
    }
    false
}

pub fn summary_count(msg: &str) -> Option<usize> {
    if msg == "No issues found." {
        Some(0)
    } else if msg == "1 issue found." {
        Some(1)
    } else {
        msg.strip_suffix(" issues found.").and_then(|n| n.parse().ok())
    }
}

/// One SARIF result flattened.
#[derive(Clone, Debug, PartialEq, Eq, PartialOrd, Ord, Hash)]
pub struct SarifResult {
    pub rule_id: String,
    pub level: String,
    pub message: String,
    /// (uri, startLine, startColumn, endLine, endColumn)
    pub locations: Vec<(String, u64, u64, u64, u64)>,
    pub related: Vec<(String, u64, u64, u64, u64)>,
}

fn sarif_loc(l: &Value) -> (String, u64, u64, u64, u64) {
    let pl = &l["physicalLocation"];
    let r = &pl["region"];
    (
        pl["artifactLocation"]["uri"].as_str().unwrap_or("").to_string(),
        r["startLine"].as_u64().unwrap_or(0),
        r["startColumn"].as_u64().unwrap_or(0),
        r["endLine"].as_u64().unwrap_or(0),
        r["endColumn"].as_u64().unwrap_or(0),
    )
}

pub struct SarifDoc {
    pub results: Vec<SarifResult>,
    pub rule_ids: Vec<String>,
    /// every region with its optional offset/length fields: (uri, startLine, startColumn, endLine,
    /// endColumn, charOffset, charLength, byteOffset, byteLength)
    pub regions: Vec<(String, u64, u64, u64, u64, Option<u64>, Option<u64>, Option<u64>, Option<u64>)>,
}

pub fn parse_sarif(text: &str) -> Result<SarifDoc, String> {
    let v: Value = serde_json::from_str(text).map_err(|e| format!("SARIF does not parse: {e}"))?;
    let runs = v["runs"].as_array().ok_or("SARIF: no runs")?;
    let mut results = Vec::new();
    let mut rule_ids = Vec::new();
    let mut regions = Vec::new();
    for run in runs {
        for r in run["tool"]["driver"]["rules"].as_array().cloned().unwrap_or_default() {
            rule_ids.push(r["id"].as_str().unwrap_or("").to_string());
        }
        for r in run["results"].as_array().cloned().unwrap_or_default() {
            for key in ["locations", "relatedLocations"] {
                for l in r[key].as_array().cloned().unwrap_or_default() {
                    let (uri, a, b, c, d) = sarif_loc(&l);
                    let reg = &l["physicalLocation"]["region"];
                    regions.push((uri, a, b, c, d, reg["charOffset"].as_u64(), reg["charLength"].as_u64(), reg["byteOffset"].as_u64(), reg["byteLength"].as_u64()));
                }
            }
            results.push(SarifResult {
                rule_id: r["ruleId"].as_str().unwrap_or("").to_string(),
                level: r["level"].as_str().unwrap_or("").to_string(),
                message: r["message"]["text"].as_str().unwrap_or("").to_string(),
                locations: r["locations"].as_array().map(|a| a.iter().map(sarif_loc).collect()).unwrap_or_default(),
                related: r["relatedLocations"]
                    .as_array()
                    .map(|a| a.iter().map(sarif_loc).collect())
                    .unwrap_or_default(),
            });
        }
    }
    Ok(SarifDoc { results, rule_ids, regions })
}

/// 1-based (line, column-in-chars) of a byte offset in `src`, the way
/// codespan's `SimpleFiles` computes it (column counted in characters).
pub fn line_col(src: &str, offset: usize) -> (usize, usize) {
    let offset = offset.min(src.len());
    let before = &src.as_bytes()[..offset];
    let line = before.iter().filter(|b| **b == b'\n').count() + 1;
    let line_start = before.iter().rposition(|b| *b == b'\n').map(|i| i + 1).unwrap_or(0);
    let col = String::from_utf8_lossy(&src.as_bytes()[line_start..offset]).chars().count() + 1;
    (line, col)
}
