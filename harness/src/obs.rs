//! In-process observers over circomspect's public library API.

use crate::engine::catch;
use program_structure::ast::Definition;
use program_structure::cfg::{Cfg, IntoCfg};
use program_structure::constants::Curve;
use program_structure::report::Report;

pub fn curve_by_name(name: &str) -> Curve {
    match name {
        "BLS12_381" => Curve::Bls12_381,
        "GOLDILOCKS" => Curve::Goldilocks,
        _ => Curve::Bn254,
    }
}

pub enum LiftFail {
    /// parse_definition returned None
    Parse,
    /// into_cfg returned an error report
    Lift(Box<Report>),
    Panic(String),
}

impl LiftFail {
    pub fn describe(&self) -> String {
        match self {
            LiftFail::Parse => "the generated definition does not parse".into(),
            LiftFail::Lift(r) => format!("lifting failed: [{}] {}", r.id(), r.message()),
            LiftFail::Panic(p) => format!("panic: {p}"),
        }
    }
}

pub struct Lifted {
    pub cfg: Cfg,
    pub reports: Vec<Report>,
}

pub fn parse_def(src: &str) -> Result<Definition, LiftFail> {
    match catch(|| parser::parse_definition(src)) {
        Ok(Some(d)) => Ok(d),
        Ok(None) => Err(LiftFail::Parse),
        Err(p) => Err(LiftFail::Panic(p)),
    }
}

/// Parse a single definition and lift it to a (pre-SSA) CFG.  The definition is
/// registered in a `TemplateLibrary` (file id 0) so that all metadata carries a file id
/// and reports get their labels, exactly as in the real pipeline.
pub fn lift_def(src: &str, curve: &Curve) -> Result<Lifted, LiftFail> {
    use program_structure::file_definition::FileLibrary;
    use program_structure::template_library::TemplateLibrary;
    let def = parse_def(src)?;
    let mut reports = Vec::new();
    let r = catch(|| {
        let mut files = FileLibrary::new();
        let file_id = files.add_file("a.circom".to_string(), src.to_string(), true);
        let mut contents = std::collections::HashMap::new();
        contents.insert(file_id, vec![def]);
        let lib = TemplateLibrary::new(contents, files);
        if let Some(t) = lib.templates.values().next() {
            t.into_cfg(curve, &mut reports)
        } else {
            let f = lib.functions.values().next().expect("one definition");
            f.into_cfg(curve, &mut reports)
        }
    });
    match r {
        Ok(Ok(cfg)) => Ok(Lifted { cfg, reports }),
        Ok(Err(e)) => Err(LiftFail::Lift(Box::new(e.into()))),
        Err(p) => Err(LiftFail::Panic(p)),
    }
}

pub enum SsaFail {
    Error(Box<Report>),
    Panic(String),
}

pub fn to_ssa(cfg: Cfg) -> Result<Cfg, SsaFail> {
    match catch(|| cfg.into_ssa()) {
        Ok(Ok(cfg)) => Ok(cfg),
        Ok(Err(e)) => Err(SsaFail::Error(Box::new(e.into()))),
        Err(p) => Err(SsaFail::Panic(p)),
    }
}
