//! Reference field semantics, written from the Circom language documentation
//! (operators page) and circomspect's doc/analysis_passes.md — not from
//! `circom_algebra`.  Two independent instantiations: native `u128` for primes
//! below 2^32 and `BigUint` for the real primes.

use num_bigint_dig::BigUint;
use num_traits::{One, ToPrimitive, Zero};

#[derive(Clone, Copy, PartialEq, Eq, Debug, Hash, PartialOrd, Ord)]
pub enum Op {
    Add,
    Sub,
    Mul,
    Div,
    IntDiv,
    Mod,
    Pow,
    ShiftL,
    ShiftR,
    BitAnd,
    BitOr,
    BitXor,
    Lt,
    Le,
    Gt,
    Ge,
    Eq,
    Ne,
    BoolAnd,
    BoolOr,
}

pub const ALL_OPS: [Op; 20] = [
    Op::Add,
    Op::Sub,
    Op::Mul,
    Op::Div,
    Op::IntDiv,
    Op::Mod,
    Op::Pow,
    Op::ShiftL,
    Op::ShiftR,
    Op::BitAnd,
    Op::BitOr,
    Op::BitXor,
    Op::Lt,
    Op::Le,
    Op::Gt,
    Op::Ge,
    Op::Eq,
    Op::Ne,
    Op::BoolAnd,
    Op::BoolOr,
];

#[derive(Clone, Copy, PartialEq, Eq, Debug, Hash, PartialOrd, Ord)]
pub enum UnOp {
    Neg,
    Not,
    Complement,
}

pub const ALL_UNOPS: [UnOp; 3] = [UnOp::Neg, UnOp::Not, UnOp::Complement];

impl Op {
    pub fn symbol(self) -> &'static str {
        match self {
            Op::Add => "+",
            Op::Sub => "-",
            Op::Mul => "*",
            Op::Div => "/",
            Op::IntDiv => "\\",
            Op::Mod => "%",
            Op::Pow => "**",
            Op::ShiftL => "<<",
            Op::ShiftR => ">>",
            Op::BitAnd => "&",
            Op::BitOr => "|",
            Op::BitXor => "^",
            Op::Lt => "<",
            Op::Le => "<=",
            Op::Gt => ">",
            Op::Ge => ">=",
            Op::Eq => "==",
            Op::Ne => "!=",
            Op::BoolAnd => "&&",
            Op::BoolOr => "||",
        }
    }
}

impl UnOp {
    pub fn symbol(self) -> &'static str {
        match self {
            UnOp::Neg => "-",
            UnOp::Not => "!",
            UnOp::Complement => "~",
        }
    }
}

/// Why a reference evaluation has no value.
#[derive(Clone, Copy, PartialEq, Eq, Debug)]
pub enum Undefined {
    /// Division, integer division or remainder by zero.
    ZeroDivisor,
}

// ---------------------------------------------------------------------------
// u128 instantiation (p < 2^32).
// ---------------------------------------------------------------------------

pub mod small {
    use super::{Op, UnOp, Undefined};

    fn bits(p: u128) -> u32 {
        128 - p.leading_zeros()
    }

    fn powmod(mut b: u128, mut e: u128, p: u128) -> u128 {
        let mut r: u128 = 1 % p;
        b %= p;
        while e > 0 {
            if e & 1 == 1 {
                r = r * b % p;
            }
            b = b * b % p;
            e >>= 1;
        }
        r
    }

    /// Signed representative as (is_negative, magnitude).
    fn val(x: u128, p: u128) -> i128 {
        if x >= p / 2 + 1 && x < p {
            x as i128 - p as i128
        } else {
            x as i128
        }
    }

    fn shr(x: u128, k: u128) -> u128 {
        if k >= 128 {
            0
        } else {
            x >> k
        }
    }

    fn shl(x: u128, k: u128, p: u128) -> u128 {
        let b = bits(p);
        if k >= b as u128 {
            // x * 2^k has its low k >= b bits clear, so the mask leaves nothing.
            0
        } else {
            let mask = (1u128 << b) - 1;
            ((x << k) & mask) % p
        }
    }

    pub fn binary(op: Op, a: u128, b: u128, p: u128) -> Result<u128, Undefined> {
        debug_assert!(a < p && b < p && p < (1 << 32));
        let t = |c: bool| if c { 1 % p } else { 0 };
        Ok(match op {
            Op::Add => (a + b) % p,
            Op::Sub => (a + p - b) % p,
            Op::Mul => a * b % p,
            Op::Div => {
                if b == 0 {
                    return Err(Undefined::ZeroDivisor);
                }
                // Fermat inverse: p is prime.
                a * powmod(b, p - 2, p) % p
            }
            Op::IntDiv => {
                if b == 0 {
                    return Err(Undefined::ZeroDivisor);
                }
                a / b
            }
            Op::Mod => {
                if b == 0 {
                    return Err(Undefined::ZeroDivisor);
                }
                a % b
            }
            Op::Pow => powmod(a, b, p),
            Op::ShiftR => {
                if b <= p / 2 {
                    shr(a, b)
                } else {
                    shl(a, p - b, p)
                }
            }
            Op::ShiftL => {
                if b <= p / 2 {
                    shl(a, b, p)
                } else {
                    shr(a, p - b)
                }
            }
            Op::BitAnd => (a & b) % p,
            Op::BitOr => (a | b) % p,
            Op::BitXor => (a ^ b) % p,
            Op::Lt => t(val(a, p) < val(b, p)),
            Op::Le => t(val(a, p) <= val(b, p)),
            Op::Gt => t(val(a, p) > val(b, p)),
            Op::Ge => t(val(a, p) >= val(b, p)),
            Op::Eq => t(a == b),
            Op::Ne => t(a != b),
            Op::BoolAnd => t(a != 0 && b != 0),
            Op::BoolOr => t(a != 0 || b != 0),
        })
    }

    /// 2^256 - 1 mod p, computed without big integers.
    fn all_ones_256(p: u128) -> u128 {
        (powmod(2, 256, p) + p - 1 % p) % p
    }

    pub fn unary(op: UnOp, a: u128, p: u128) -> u128 {
        match op {
            UnOp::Neg => (p - a) % p,
            UnOp::Not => {
                if a == 0 {
                    1 % p
                } else {
                    0
                }
            }
            // (2^256 - 1 - a) mod p
            UnOp::Complement => (all_ones_256(p) + p - a % p) % p,
        }
    }
}

// ---------------------------------------------------------------------------
// BigUint instantiation.
// ---------------------------------------------------------------------------

pub fn bn254() -> BigUint {
    BigUint::parse_bytes(
        b"21888242871839275222246405745257275088548364400416034343698204186575808495617",
        10,
    )
    .unwrap()
}
pub fn bls12_381() -> BigUint {
    BigUint::parse_bytes(
        b"52435875175126190479447740508185965837690552500527637822603658699938581184513",
        10,
    )
    .unwrap()
}
pub fn goldilocks() -> BigUint {
    BigUint::parse_bytes(b"18446744069414584321", 10).unwrap()
}

pub fn curve_primes() -> Vec<(&'static str, BigUint)> {
    vec![("BN254", bn254()), ("BLS12_381", bls12_381()), ("GOLDILOCKS", goldilocks())]
}

fn big_pow(b: &BigUint, e: &BigUint, p: &BigUint) -> BigUint {
    // Square and multiply on the canonical exponent (own loop, not modpow).
    let mut r = BigUint::one() % p;
    let mut base = b % p;
    let nbits = e.bits();
    let bytes = e.to_bytes_le();
    for i in 0..nbits {
        if (bytes[i / 8] >> (i % 8)) & 1 == 1 {
            r = (&r * &base) % p;
        }
        base = (&base * &base) % p;
    }
    r
}

/// Signed comparison key: (negative?, canonical) — negatives order below
/// non-negatives, and within a sign class canonical order is value order.
fn big_val_key(x: &BigUint, p: &BigUint) -> (u8, BigUint) {
    let half_plus_one = (p >> 1usize) + BigUint::one();
    if x >= &half_plus_one && x < p {
        (0, x.clone())
    } else {
        (1, x.clone())
    }
}

fn big_shr(x: &BigUint, k: &BigUint) -> BigUint {
    match k.to_usize() {
        Some(k) if k <= x.bits() => x >> k,
        _ => BigUint::zero(),
    }
}

fn big_shl(x: &BigUint, k: &BigUint, p: &BigUint) -> BigUint {
    let b = p.bits();
    match k.to_usize() {
        Some(k) if k < b => {
            let mask = (BigUint::one() << b) - BigUint::one();
            ((x << k) & mask) % p
        }
        _ => BigUint::zero(),
    }
}

pub fn big_binary(op: Op, a: &BigUint, b: &BigUint, p: &BigUint) -> Result<BigUint, Undefined> {
    let t = |c: bool| if c { BigUint::one() % p } else { BigUint::zero() };
    let half = p >> 1usize;
    Ok(match op {
        Op::Add => (a + b) % p,
        Op::Sub => ((a + p) - b) % p,
        Op::Mul => (a * b) % p,
        Op::Div => {
            if b.is_zero() {
                return Err(Undefined::ZeroDivisor);
            }
            let inv = big_pow(b, &(p - BigUint::from(2u32)), p);
            (a * inv) % p
        }
        Op::IntDiv => {
            if b.is_zero() {
                return Err(Undefined::ZeroDivisor);
            }
            a / b
        }
        Op::Mod => {
            if b.is_zero() {
                return Err(Undefined::ZeroDivisor);
            }
            a % b
        }
        Op::Pow => big_pow(a, b, p),
        Op::ShiftR => {
            if b <= &half {
                big_shr(a, b)
            } else {
                big_shl(a, &(p - b), p)
            }
        }
        Op::ShiftL => {
            if b <= &half {
                big_shl(a, b, p)
            } else {
                big_shr(a, &(p - b))
            }
        }
        Op::BitAnd => (a & b) % p,
        Op::BitOr => (a | b) % p,
        Op::BitXor => (a ^ b) % p,
        Op::Lt => t(big_val_key(a, p) < big_val_key(b, p)),
        Op::Le => t(big_val_key(a, p) <= big_val_key(b, p)),
        Op::Gt => t(big_val_key(a, p) > big_val_key(b, p)),
        Op::Ge => t(big_val_key(a, p) >= big_val_key(b, p)),
        Op::Eq => t(a == b),
        Op::Ne => t(a != b),
        Op::BoolAnd => t(!a.is_zero() && !b.is_zero()),
        Op::BoolOr => t(!a.is_zero() || !b.is_zero()),
    })
}

pub fn big_unary(op: UnOp, a: &BigUint, p: &BigUint) -> BigUint {
    match op {
        UnOp::Neg => (p - a) % p,
        UnOp::Not => {
            if a.is_zero() {
                BigUint::one() % p
            } else {
                BigUint::zero()
            }
        }
        UnOp::Complement => {
            let ones = (BigUint::one() << 256usize) - BigUint::one();
            // a is canonical (< p < 2^256) for every supported prime.
            (ones - a) % p
        }
    }
}

/// Cross-check the two instantiations on small primes (start-up self test).
pub fn self_check() -> Result<u64, String> {
    let mut n = 0u64;
    for &p in &[3u128, 5, 7, 11, 13, 31, 61] {
        let bp = BigUint::from(p as u64);
        for a in 0..p {
            for uop in ALL_UNOPS {
                let s = small::unary(uop, a, p);
                let b = big_unary(uop, &BigUint::from(a as u64), &bp);
                if BigUint::from(s as u64) != b {
                    return Err(format!("reference mismatch {uop:?} {a} mod {p}: {s} vs {b}"));
                }
                n += 1;
            }
            for b in 0..p {
                for op in ALL_OPS {
                    let s = small::binary(op, a, b, p);
                    let g = big_binary(op, &BigUint::from(a as u64), &BigUint::from(b as u64), &bp);
                    let same = match (&s, &g) {
                        (Ok(s), Ok(g)) => &BigUint::from(*s as u64) == g,
                        (Err(x), Err(y)) => x == y,
                        _ => false,
                    };
                    if !same {
                        return Err(format!(
                            "reference mismatch {op:?} {a} {b} mod {p}: {s:?} vs {g:?}"
                        ));
                    }
                    n += 1;
                }
            }
        }
    }
    Ok(n)
}
