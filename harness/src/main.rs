//! vcheck — property checks for circomspect (property-based testing / fuzzing family).
//!
//! usage: vcheck <ID> [--tier quick|thorough] [--replay FILE] [--strict]

use cv::{engine, obs, props};

use cv::engine::*;
use std::path::PathBuf;

fn main() {
    let args: Vec<String> = std::env::args().skip(1).collect();
    if args.is_empty() {
        eprintln!("usage: vcheck <ID> [--tier quick|thorough] [--replay FILE]");
        std::process::exit(2);
    }
    let id = args[0].clone();
    install_panic_hook();

    if id == "GEN" {
        // debug: vcheck GEN <kind> <n> — print generated programs
        let kind = args.get(1).map(|s| s.as_str()).unwrap_or("full");
        let n: u64 = args.get(2).and_then(|s| s.parse().ok()).unwrap_or(3);
        for k in 0..n {
            let mut tape = Vec::new();
            let mut h = engine::fnv(format!("gen{k}").as_bytes());
            for _ in 0..600 {
                h = h.wrapping_mul(6364136223846793005).wrapping_add(1442695040888963407);
                tape.push((h >> 33) as u8);
            }
            println!("// ---- {kind} #{k}");
            println!("{}", props::gen_debug(kind, &tape));
        }
        return;
    }
    if id == "SSA" {
        // debug: vcheck SSA <file with one definition> — print the CFG before and after SSA
        let src = std::fs::read_to_string(&args[1]).expect("read");
        match obs::lift_def(&src, &program_structure::constants::Curve::Bn254) {
            Ok(l) => {
                println!("--- CFG\n{:?}", l.cfg);
                for r in &l.reports {
                    println!("report {} {}", r.id(), r.message());
                }
                match obs::to_ssa(l.cfg) {
                    Ok(ssa) => {
                        println!("--- SSA\n{ssa:?}");
                        for b in ssa.iter() {
                            for st in b.statements() {
                                props::semcase::walk_ir_exprs(st, &mut |e| {
                                    println!("  deg {:?} val {:?} :: {:?}", e.meta().degree_knowledge().degree(), e.meta().value_knowledge().get_reduces_to(), e);
                                });
                            }
                        }
                    }
                    Err(obs::SsaFail::Error(r)) => println!("SSA error: {}", r.message()),
                    Err(obs::SsaFail::Panic(p)) => println!("SSA panic: {p}"),
                }
            }
            Err(e) => println!("lift failed: {}", e.describe()),
        }
        return;
    }
    // Internal sub-commands (subprocess probes).
    if args.len() > 1 && args[1] == "--shift-probe" {
        std::process::exit(props::c16::shift_probe_main(&args[2..]));
    }

    let mut tier = match std::env::var("VERIF_TIER").as_deref() {
        Ok("thorough") => Tier::Thorough,
        _ => Tier::Quick,
    };
    let mut replay: Option<PathBuf> = None;
    let mut strict = false;
    let mut i = 1;
    while i < args.len() {
        match args[i].as_str() {
            "--tier" => {
                i += 1;
                tier = if args.get(i).map(|s| s.as_str()) == Some("thorough") {
                    Tier::Thorough
                } else {
                    Tier::Quick
                };
            }
            "--replay" => {
                i += 1;
                replay = args.get(i).map(PathBuf::from);
            }
            "--strict" => strict = true,
            other => {
                eprintln!("unknown argument {other}");
                std::process::exit(2);
            }
        }
        i += 1;
    }
    let seed = std::env::var("VERIF_SEED").ok().and_then(|s| s.trim().parse::<u64>().ok()).unwrap_or(0);
    let threads = std::env::var("VERIF_THREADS")
        .ok()
        .and_then(|s| s.parse::<usize>().ok())
        .unwrap_or_else(|| std::thread::available_parallelism().map(|n| n.get()).unwrap_or(8).min(16));
    let repo_bin = PathBuf::from(
        std::env::var("VERIF_REPO_BIN").unwrap_or_else(|_| "/verif/target/repo/release/circomspect".into()),
    );
    let scratch = PathBuf::from(format!("/verif/target/scratch/{}", std::process::id()));
    let ctx = Ctx { id: id.clone(), tier, seed, threads, repo_bin, scratch, strict };
    let _ = std::fs::create_dir_all(&ctx.scratch);
    // cases that only call library code in-process take milliseconds; a case that starts the binary
    // runs under that binary's CPU limits (up to 120 s + 480 s on a re-run in the thorough tier)
    let env_s = |k: &str, d: u64| std::env::var(k).ok().and_then(|s| s.parse::<u64>().ok()).unwrap_or(d);
    let in_process_limit = env_s("VERIF_CASE_LIMIT_S", 150);
    let binary_limit = env_s("VERIF_BINARY_CASE_LIMIT_S", 900).max(in_process_limit);
    engine::start_watchdog(
        &ctx.id,
        std::time::Duration::from_secs(in_process_limit),
        std::time::Duration::from_secs(binary_limit),
        ctx.seed,
        ctx.tier,
    );
    // Budgets (see engine.rs): the quick tier stops starting new cases after 600 s (its runs take
    // one to two minutes on the unchanged tree) and spends at most 180 s in shrink candidates; the
    // thorough tier has no deadline and an hour of shrinking.  Replays are never budgeted.
    if replay.is_none() {
        let env_u64 = |k: &str, d: u64| std::env::var(k).ok().and_then(|s| s.parse::<u64>().ok()).unwrap_or(d);
        let (deadline, shrink) = match tier {
            Tier::Quick => (env_u64("VERIF_SOFT_DEADLINE_S", 600), env_u64("VERIF_SHRINK_BUDGET_S", 180)),
            Tier::Thorough => (env_u64("VERIF_SOFT_DEADLINE_S", 0), env_u64("VERIF_SHRINK_BUDGET_S", 3600)),
        };
        engine::set_budgets(deadline, shrink);
    }

    let code = if let Some(path) = replay {
        props::replay(&ctx, &path)
    } else {
        props::run(&ctx)
    };
    let _ = std::fs::remove_dir_all(&ctx.scratch);
    std::process::exit(code);
}
