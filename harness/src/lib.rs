//! Library part of the harness (shared with the cargo-fuzz targets in /verif/fuzz).
pub mod binrun;
pub mod engine;
pub mod field;
pub mod gen;
pub mod interp;
pub mod irmatch;
pub mod obs;
pub mod props;
