//! Reference interpreter for the `sem` subset, executing the *generator's* AST
//! (never circomspect's) under Circom's documented semantics.

use crate::field::{self, Op, UnOp};
use crate::gen::ast::*;
use num_bigint_dig::BigUint;
use num_traits::{One, ToPrimitive, Zero};
use std::collections::{BTreeMap, HashMap};

#[derive(Clone, Debug, PartialEq)]
pub enum Value {
    Scalar(BigUint),
    Array(Vec<BigUint>),
    /// component handle (opaque)
    Component,
}

#[derive(Clone, Debug, PartialEq, Eq)]
pub enum Stop {
    DivisionByZero,
    IndexOutOfRange,
    Fuel,
    /// construct outside the interpreted subset
    Unsupported(String),
    TypeError(String),
}

/// Observable effects (C09).
#[derive(Clone, Debug, PartialEq)]
pub enum Effect {
    /// assignment to an input/output signal element: (name, index, value, statement id)
    SignalAssign(String, Option<usize>, BigUint, Id),
    /// constraint mentioning a signal: (statement id, lhs, rhs)
    Constraint(Id, Vec<BigUint>, Vec<BigUint>),
    Assert(Id, BigUint),
    Return(Vec<BigUint>),
    Dimension(Id, BigUint),
    Branch(Id, bool),
    Log(Id, Vec<BigUint>),
}

#[derive(Clone, Debug)]
struct Slot {
    name: String,
    value: Value,
    kind: SlotKind,
    /// declaration symbol id (0 for parameters)
    decl: Id,
}

#[derive(Clone, Debug, PartialEq, Eq)]
pub enum SlotKind {
    Var,
    Param(usize),
    Signal(SigKind),
    Component,
}

/// Replace the value stored by an assignment (C09 perturbation).
#[derive(Clone, Debug, Default)]
pub struct Perturb {
    /// statement id (Assign/Compound/IncDec) or DeclSym sub_id -> replacement value chooser
    pub stmt: Option<Id>,
    /// restrict to assignments whose target is this variable (initialisers of one declaration share a span)
    pub var: Option<String>,
    pub param: Option<usize>,
    pub replacement: BigUint,
}

pub struct Inputs {
    pub prime: BigUint,
    pub params: Vec<BigUint>,
    /// initial values of signals (inputs: the witness; others: arbitrary pre-values), by name
    pub signals: HashMap<String, Vec<BigUint>>,
    /// values of component output ports: (component name, port) -> value
    pub ports: HashMap<(String, String), BigUint>,
    pub fuel: usize,
    pub perturb: Perturb,
    /// signals keep their witness value when assigned (C07: every signal is an independent indeterminate)
    pub signals_fixed: bool,
}

#[derive(Default, Clone, Debug)]
pub struct Trace {
    /// expression node id -> scalar values at each dynamic evaluation
    pub expr_vals: HashMap<Id, Vec<BigUint>>,
    /// statement id (or DeclSym sub_id) -> scalar value stored at each dynamic execution
    pub stmt_vals: HashMap<Id, Vec<BigUint>>,
    /// compound statements: value of the target before the update
    pub pre_vals: HashMap<Id, Vec<BigUint>>,
    pub effects: Vec<Effect>,
    pub stopped: Option<Stop>,
    pub executed_stmts: BTreeMap<Id, usize>,
    pub steps: usize,
}

enum Flow {
    Next,
    Return(Value),
}

pub struct Interp<'a> {
    pub helpers: &'a HashMap<String, &'a Def>,
    /// names of templates that may be instantiated (opaque components)
    pub templates: Vec<String>,
    pub inp: &'a Inputs,
    scopes: Vec<Vec<Slot>>,
    pub trace: Trace,
    fuel: usize,
    depth: usize,
    in_function: bool,
}

impl<'a> Interp<'a> {
    pub fn new(helpers: &'a HashMap<String, &'a Def>, inp: &'a Inputs) -> Interp<'a> {
        Interp { helpers, templates: Vec::new(), inp, scopes: vec![], trace: Trace::default(), fuel: inp.fuel, depth: 0, in_function: false }
    }

    fn p(&self) -> &BigUint {
        &self.inp.prime
    }

    fn tick(&mut self) -> Result<(), Stop> {
        self.trace.steps += 1;
        if self.fuel == 0 {
            return Err(Stop::Fuel);
        }
        self.fuel -= 1;
        Ok(())
    }

    fn lookup(&mut self, name: &str) -> Result<&mut Slot, Stop> {
        for s in self.scopes.iter_mut().rev() {
            for v in s.iter_mut().rev() {
                if v.name == name {
                    return Ok(v);
                }
            }
        }
        Err(Stop::Unsupported(format!("undeclared name {name}")))
    }

    fn declare(&mut self, name: &str, value: Value, kind: SlotKind, decl: Id) {
        self.scopes.last_mut().unwrap().push(Slot { name: name.to_string(), value, kind, decl });
    }

    fn truth(v: &BigUint) -> bool {
        !v.is_zero()
    }

    fn scalar(v: Value) -> Result<BigUint, Stop> {
        match v {
            Value::Scalar(s) => Ok(s),
            Value::Array(_) => Err(Stop::TypeError("array used as scalar".into())),
            Value::Component => Err(Stop::TypeError("component used as scalar".into())),
        }
    }

    fn index(&mut self, e: &Expr, len: usize) -> Result<usize, Stop> {
        let v = Self::scalar(self.eval(e)?)?;
        match v.to_usize() {
            Some(i) if i < len => Ok(i),
            _ => Err(Stop::IndexOutOfRange),
        }
    }

    pub fn eval(&mut self, e: &Expr) -> Result<Value, Stop> {
        self.tick()?;
        let v = self.eval_inner(e)?;
        if let Value::Scalar(s) = &v {
            self.trace.expr_vals.entry(e.id()).or_default().push(s.clone());
        }
        Ok(v)
    }

    fn eval_inner(&mut self, e: &Expr) -> Result<Value, Stop> {
        match e {
            Expr::Num { value, .. } => Ok(Value::Scalar(value % self.p())),
            Expr::Var { name, access, .. } => {
                let slot = self.lookup(name)?.clone();
                match (&slot.value, access.as_slice()) {
                    (v, []) => Ok(v.clone()),
                    (Value::Array(a), [Access::Index(ix)]) => {
                        let a = a.clone();
                        let i = self.index(ix, a.len())?;
                        Ok(Value::Scalar(a[i].clone()))
                    }
                    (Value::Component, [Access::Field(port)]) => {
                        match self.inp.ports.get(&(name.clone(), port.clone())) {
                            Some(v) => Ok(Value::Scalar(v.clone())),
                            None => Err(Stop::Unsupported(format!("port {name}.{port} has no value"))),
                        }
                    }
                    _ => Err(Stop::Unsupported("access form".into())),
                }
            }
            Expr::Infix { op, l, r, .. } => {
                let a = Self::scalar(self.eval(l)?)?;
                let b = Self::scalar(self.eval(r)?)?;
                field::big_binary(*op, &a, &b, self.p()).map(Value::Scalar).map_err(|_| Stop::DivisionByZero)
            }
            Expr::Prefix { op, e, .. } => {
                let a = Self::scalar(self.eval(e)?)?;
                Ok(Value::Scalar(field::big_unary(*op, &a, self.p())))
            }
            Expr::Ternary { c, a, b, .. } => {
                let cv = Self::scalar(self.eval(c)?)?;
                if Self::truth(&cv) {
                    self.eval(a)
                } else {
                    self.eval(b)
                }
            }
            Expr::ArrayLit { elems, .. } => {
                let mut v = Vec::new();
                for x in elems {
                    v.push(Self::scalar(self.eval(x)?)?);
                }
                Ok(Value::Array(v))
            }
            Expr::Call { name, args, .. } => {
                let mut vals = Vec::new();
                for a in args {
                    vals.push(self.eval(a)?);
                }
                match self.helpers.get(name) {
                    Some(def) if def.kind == DefKind::Function => self.call(def, vals),
                    Some(_) => Ok(Value::Component),
                    None if self.templates.iter().any(|t| t == name) => Ok(Value::Component),
                    None => Err(Stop::Unsupported(format!("call of unknown {name}"))),
                }
            }
            Expr::Parallel { e, .. } => self.eval(e),
            Expr::Tuple { .. } | Expr::Anon { .. } | Expr::Underscore { .. } => Err(Stop::Unsupported("sugar".into())),
        }
    }

    fn call(&mut self, def: &Def, args: Vec<Value>) -> Result<Value, Stop> {
        if self.depth > 20 {
            return Err(Stop::Fuel);
        }
        // a callee sees only its own parameters
        let saved = std::mem::take(&mut self.scopes);
        let saved_fn = self.in_function;
        self.in_function = true;
        self.depth += 1;
        self.scopes.push(vec![]);
        for (i, (p, v)) in def.params.iter().zip(args.into_iter()).enumerate() {
            self.declare(p, v, SlotKind::Param(i), 0);
        }
        // effects inside callees are not part of the caller's trace
        let effects_len = self.trace.effects.len();
        let r = self.exec(&def.body);
        self.trace.effects.truncate(effects_len);
        self.depth -= 1;
        self.scopes = saved;
        self.in_function = saved_fn;
        match r? {
            Flow::Return(v) => Ok(v),
            Flow::Next => Err(Stop::Unsupported("function without return".into())),
        }
    }

    /// Store `v` into `name[access]`, returning the scalar stored (if scalar).
    fn store(&mut self, name: &str, access: &[Access], v: Value, stmt: Id) -> Result<(), Stop> {
        let idx = match access {
            [] => None,
            [Access::Index(ix)] => {
                let len = match &self.lookup(name)?.value {
                    Value::Array(a) => a.len(),
                    _ => return Err(Stop::TypeError("index into scalar".into())),
                };
                Some(self.index(ix, len)?)
            }
            [Access::Field(_)] => {
                // component input: no state
                return Ok(());
            }
            _ => return Err(Stop::Unsupported("access form".into())),
        };
        let fixed = self.inp.signals_fixed;
        let slot = self.lookup(name)?;
        let kind = slot.kind.clone();
        if fixed && matches!(kind, SlotKind::Signal(_)) {
            return Ok(());
        }
        match (idx, &mut slot.value, v) {
            (None, dst, v) => {
                if let SlotKind::Signal(k) = &kind {
                    if *k != SigKind::Intermediate {
                        match &v {
                            Value::Scalar(s) => self_effect(&mut self.trace, name, None, s.clone(), stmt),
                            Value::Array(a) => {
                                for (i, s) in a.iter().enumerate() {
                                    self_effect(&mut self.trace, name, Some(i), s.clone(), stmt)
                                }
                            }
                            _ => {}
                        }
                        let slot = self.lookup(name)?;
                        slot.value = v;
                        return Ok(());
                    }
                }
                *dst = v;
            }
            (Some(i), Value::Array(a), Value::Scalar(s)) => {
                a[i] = s.clone();
                if let SlotKind::Signal(k) = &kind {
                    if *k != SigKind::Intermediate {
                        self_effect(&mut self.trace, name, Some(i), s, stmt);
                    }
                }
            }
            _ => return Err(Stop::TypeError("store shape".into())),
        }
        Ok(())
    }

    fn perturbed(&self, stmt: Id, var: &str, v: Value) -> Value {
        if self.inp.perturb.stmt == Some(stmt) && self.depth == 0 {
            if let Some(n) = &self.inp.perturb.var {
                if n != var {
                    return v;
                }
            }
            match v {
                Value::Scalar(_) => return Value::Scalar(self.inp.perturb.replacement.clone()),
                Value::Array(a) => return Value::Array(a.iter().map(|_| self.inp.perturb.replacement.clone()).collect()),
                other => return other,
            }
        }
        v
    }

    fn mentions_signal(&mut self, e: &Expr) -> bool {
        let mut names = Vec::new();
        e.walk(&mut |x| {
            if let Expr::Var { name, .. } = x {
                names.push(name.clone());
            }
        });
        names.iter().any(|n| matches!(self.lookup(n).map(|s| s.kind.clone()), Ok(SlotKind::Signal(_))))
    }

    fn flat(v: &Value) -> Vec<BigUint> {
        match v {
            Value::Scalar(s) => vec![s.clone()],
            Value::Array(a) => a.clone(),
            Value::Component => vec![],
        }
    }

    fn exec(&mut self, s: &Stmt) -> Result<Flow, Stop> {
        self.tick()?;
        *self.trace.executed_stmts.entry(s.id()).or_insert(0) += 1;
        match s {
            Stmt::Decl { kind, syms, init_op: _, .. } => {
                for sym in syms {
                    // dimensions first, then the declaration, then the initialiser
                    let mut dims = Vec::new();
                    for d in &sym.dims {
                        let v = Self::scalar(self.eval(d)?)?;
                        if self.depth == 0 {
                            self.trace.effects.push(Effect::Dimension(sym.id, v.clone()));
                        }
                        dims.push(v.to_usize().filter(|n| *n <= 64).ok_or(Stop::IndexOutOfRange)?);
                    }
                    if dims.len() > 1 {
                        return Err(Stop::Unsupported("multi-dimensional array".into()));
                    }
                    let (value, skind) = match kind {
                        DeclKind::Var => (
                            match dims.first() {
                                Some(n) => Value::Array(vec![BigUint::zero(); *n]),
                                None => Value::Scalar(BigUint::zero()),
                            },
                            SlotKind::Var,
                        ),
                        DeclKind::Signal(k, _) => {
                            let pre = self.inp.signals.get(&sym.name).cloned().unwrap_or_default();
                            let v = match dims.first() {
                                Some(n) => Value::Array((0..*n).map(|i| pre.get(i).cloned().unwrap_or_else(BigUint::zero)).collect()),
                                None => Value::Scalar(pre.first().cloned().unwrap_or_else(BigUint::zero)),
                            };
                            (v, SlotKind::Signal(k.clone()))
                        }
                        DeclKind::Component => (Value::Component, SlotKind::Component),
                    };
                    self.declare(&sym.name, value, skind, sym.id);
                    if let Some(init) = &sym.init {
                        let v = self.eval(init)?;
                        let v = self.perturbed(sym.sub_id, &sym.name, v);
                        if let Value::Scalar(sv) = &v {
                            self.trace.stmt_vals.entry(sym.sub_id).or_default().push(sv.clone());
                        }
                        if !matches!(kind, DeclKind::Component) {
                            self.store(&sym.name, &[], v, sym.sub_id)?;
                        }
                    }
                }
                Ok(Flow::Next)
            }
            Stmt::TupleDecl { .. } | Stmt::ExprStmt { .. } => Err(Stop::Unsupported("sugar".into())),
            Stmt::Assign { id, lhs, op, rhs, .. } => {
                let Expr::Var { name, access, .. } = lhs else { return Err(Stop::Unsupported("assignment target".into())) };
                let v = self.eval(rhs)?;
                let v = self.perturbed(*id, name, v);
                if let Value::Scalar(sv) = &v {
                    self.trace.stmt_vals.entry(*id).or_default().push(sv.clone());
                }
                if *op == AssignOp::Constrain && self.depth == 0 {
                    // `<==` is also a constraint mentioning the signal
                    let lv = self.eval(lhs).map(|x| Self::flat(&x)).unwrap_or_default();
                    let _ = lv;
                }
                self.store(name, access, v.clone(), *id)?;
                if *op == AssignOp::Constrain && self.depth == 0 {
                    self.trace.effects.push(Effect::Constraint(*id, Self::flat(&v), Self::flat(&v)));
                }
                Ok(Flow::Next)
            }
            Stmt::Compound { id, name, access, op, rhs } => {
                let target = Expr::Var { id: 0, name: name.clone(), access: access.clone() };
                let old = Self::scalar(self.eval_inner(&target)?)?;
                self.trace.pre_vals.entry(*id).or_default().push(old.clone());
                let r = Self::scalar(self.eval(rhs)?)?;
                let new = field::big_binary(*op, &old, &r, self.p()).map_err(|_| Stop::DivisionByZero)?;
                self.trace.expr_vals.entry(*id).or_default().push(new.clone());
                let v = self.perturbed(*id, name, Value::Scalar(new));
                if let Value::Scalar(sv) = &v {
                    self.trace.stmt_vals.entry(*id).or_default().push(sv.clone());
                }
                self.store(name, access, v, *id)?;
                Ok(Flow::Next)
            }
            Stmt::IncDec { id, name, access, inc } => {
                let target = Expr::Var { id: 0, name: name.clone(), access: access.clone() };
                let old = Self::scalar(self.eval_inner(&target)?)?;
                self.trace.pre_vals.entry(*id).or_default().push(old.clone());
                let op = if *inc { Op::Add } else { Op::Sub };
                let new = field::big_binary(op, &old, &BigUint::one(), self.p()).map_err(|_| Stop::DivisionByZero)?;
                self.trace.expr_vals.entry(*id).or_default().push(new.clone());
                let v = self.perturbed(*id, name, Value::Scalar(new));
                if let Value::Scalar(sv) = &v {
                    self.trace.stmt_vals.entry(*id).or_default().push(sv.clone());
                }
                self.store(name, access, v, *id)?;
                Ok(Flow::Next)
            }
            Stmt::If { id, cond, then, els } => {
                let c = Self::scalar(self.eval(cond)?)?;
                let d = Self::truth(&c);
                if self.depth == 0 {
                    self.trace.effects.push(Effect::Branch(*id, d));
                }
                if d {
                    self.exec_scoped(then)
                } else if let Some(e) = els {
                    self.exec_scoped(e)
                } else {
                    Ok(Flow::Next)
                }
            }
            Stmt::While { id, cond, body } => loop {
                let c = Self::scalar(self.eval(cond)?)?;
                let d = Self::truth(&c);
                if self.depth == 0 {
                    self.trace.effects.push(Effect::Branch(*id, d));
                }
                if !d {
                    return Ok(Flow::Next);
                }
                if let Flow::Return(v) = self.exec_scoped(body)? {
                    return Ok(Flow::Return(v));
                }
                self.tick()?;
            },
            Stmt::For { id, init, cond, step, body } => {
                self.scopes.push(vec![]);
                let r = (|| -> Result<Flow, Stop> {
                    if let Flow::Return(v) = self.exec(init)? {
                        return Ok(Flow::Return(v));
                    }
                    loop {
                        let c = Self::scalar(self.eval(cond)?)?;
                        let d = Self::truth(&c);
                        if self.depth == 0 {
                            self.trace.effects.push(Effect::Branch(*id, d));
                        }
                        if !d {
                            return Ok(Flow::Next);
                        }
                        self.scopes.push(vec![]);
                        let r = self.exec_scoped(body);
                        let r = match r {
                            Ok(Flow::Next) => self.exec(step),
                            other => other,
                        };
                        self.scopes.pop();
                        if let Flow::Return(v) = r? {
                            return Ok(Flow::Return(v));
                        }
                    }
                })();
                self.scopes.pop();
                r
            }
            Stmt::Return { e, .. } => {
                let v = self.eval(e)?;
                if self.depth == 0 {
                    self.trace.effects.push(Effect::Return(Self::flat(&v)));
                }
                Ok(Flow::Return(v))
            }
            Stmt::ConstraintEq { id, l, r } => {
                let lv = self.eval(l)?;
                let rv = self.eval(r)?;
                if self.depth == 0 && (self.mentions_signal(l) || self.mentions_signal(r)) {
                    self.trace.effects.push(Effect::Constraint(*id, Self::flat(&lv), Self::flat(&rv)));
                }
                Ok(Flow::Next)
            }
            Stmt::Assert { id, e } => {
                let v = Self::scalar(self.eval(e)?)?;
                if self.depth == 0 {
                    self.trace.effects.push(Effect::Assert(*id, v));
                }
                Ok(Flow::Next)
            }
            Stmt::Log { id, args } => {
                let mut vals = Vec::new();
                for a in args {
                    if let LogArg::Expr(e) = a {
                        vals.extend(Self::flat(&self.eval(e)?));
                    }
                }
                // logging is not an effect the property lists; recorded for completeness only
                let _ = (id, vals);
                Ok(Flow::Next)
            }
            Stmt::Block { stmts, .. } => {
                self.scopes.push(vec![]);
                let mut out = Ok(Flow::Next);
                for st in stmts {
                    match self.exec(st) {
                        Ok(Flow::Next) => {}
                        other => {
                            out = other;
                            break;
                        }
                    }
                }
                self.scopes.pop();
                out
            }
        }
    }

    /// Execute a branch/loop body (an unbraced statement has no scope of its own, a block pushes one itself).
    fn exec_scoped(&mut self, s: &Stmt) -> Result<Flow, Stop> {
        self.exec(s)
    }

    /// Run a definition with the inputs; the trace is left in `self.trace`.
    pub fn run(&mut self, def: &Def) {
        self.scopes = vec![vec![]];
        self.in_function = def.kind == DefKind::Function;
        for (i, p) in def.params.iter().enumerate() {
            let mut v = self.inp.params.get(i).cloned().unwrap_or_else(BigUint::zero) % self.p();
            if self.inp.perturb.param == Some(i) {
                v = self.inp.perturb.replacement.clone();
            }
            self.declare(p, Value::Scalar(v), SlotKind::Param(i), 0);
        }
        match self.exec(&def.body) {
            Ok(_) => {}
            Err(stop) => self.trace.stopped = Some(stop),
        }
    }
}

fn self_effect(trace: &mut Trace, name: &str, idx: Option<usize>, v: BigUint, stmt: Id) {
    trace.effects.push(Effect::SignalAssign(name.to_string(), idx, v, stmt));
}

/// Convenience: run `def` and return its trace.
pub fn run_def(def: &Def, helpers: &HashMap<String, &Def>, templates: &[String], inp: &Inputs) -> Trace {
    let mut it = Interp::new(helpers, inp);
    it.templates = templates.to_vec();
    it.run(def);
    it.trace
}
