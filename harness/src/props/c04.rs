//! C04 — every displayed location is valid and points at the construct it talks about.

use super::c03::{crashed, reference, run_bin, shown_of_report};
use super::c05::{blank_comments, comment_mask};
use crate::binrun::{self, RunOpts};
use crate::engine::*;
use crate::field::Op;
use crate::gen::ast::*;
use crate::gen::proj::{gen_project, GenFile, GenProject, ProjOpts};
use program_structure::report::Report;
use serde_json::json;
use std::collections::{BTreeMap, BTreeSet, HashMap};
use std::path::{Path, PathBuf};
use std::time::Instant;

type Span = (usize, usize);

/// Kinds of generator nodes a label can point at.
#[derive(Clone, Debug, PartialEq, Eq, PartialOrd, Ord, Hash)]
pub enum Kind {
    Decl,
    SignalAssign,  // `<--` statement (or declaration initialised with `<--`)
    OtherAssign,   // `=`, `<==`, compound, ++/--
    If,
    Loop,
    Return,
    ConstraintEq,
    Assert,
    Log,
    Block,
    ExprStmt,
    Params,
    Def,
    Include,
    Main,
    Condition,      // expression used as the condition of if/while/for
    Comparison,     // infix with a relational operator
    Arithmetic,     // other infix / prefix operator expression
    Call,
    Var,
    OtherExpr,
}

pub struct NodeIndex {
    pub by_span: HashMap<Span, BTreeSet<Kind>>,
    /// names mentioned under a span (for the "names the subject" check)
    pub blank: String,
}

fn trim_end(blank: &str, (s, mut e): Span) -> Span {
    let b = blank.as_bytes();
    e = e.min(b.len());
    while e > s && (b[e - 1] as char).is_ascii_whitespace() {
        e -= 1;
    }
    (s, e)
}

pub fn index_file(f: &GenFile) -> NodeIndex {
    let blank = blank_bytes(&f.r.src);
    let mut by_span: HashMap<Span, BTreeSet<Kind>> = HashMap::new();
    let mut add = |id: Id, k: Kind| {
        if let Some(sp) = f.r.span(id) {
            by_span.entry(trim_end(&blank, sp)).or_default().insert(k);
        }
    };
    fn expr(e: &Expr, add: &mut dyn FnMut(Id, Kind)) {
        e.walk(&mut |x| {
            let k = match x {
                Expr::Infix { op, .. } => {
                    if matches!(op, Op::Lt | Op::Le | Op::Gt | Op::Ge | Op::Eq | Op::Ne) {
                        Kind::Comparison
                    } else {
                        Kind::Arithmetic
                    }
                }
                Expr::Prefix { .. } => Kind::Arithmetic,
                Expr::Call { .. } | Expr::Anon { .. } => Kind::Call,
                Expr::Var { .. } => Kind::Var,
                _ => Kind::OtherExpr,
            };
            add(x.id(), k);
        });
    }
    for inc in &f.ast.includes {
        add(inc.id, Kind::Include);
    }
    if let Some(m) = &f.ast.main {
        add(m.id, Kind::Main);
        expr(&m.init, &mut add);
    }
    for d in &f.ast.defs {
        add(d.id, Kind::Def);
        add(d.params_id, Kind::Params);
        d.body.walk(&mut |s| {
            let k = match s {
                Stmt::Decl { init_op, syms, .. } => {
                    if *init_op == AssignOp::Signal && syms.iter().any(|s| s.init.is_some()) {
                        // a declaration with `<--` initialiser is both
                        add(s.id(), Kind::SignalAssign);
                    }
                    Kind::Decl
                }
                Stmt::TupleDecl { .. } => Kind::Decl,
                Stmt::Assign { op, .. } => {
                    if *op == AssignOp::Signal {
                        Kind::SignalAssign
                    } else {
                        Kind::OtherAssign
                    }
                }
                Stmt::Compound { .. } | Stmt::IncDec { .. } => Kind::OtherAssign,
                Stmt::If { .. } => Kind::If,
                Stmt::While { .. } | Stmt::For { .. } => Kind::Loop,
                Stmt::Return { .. } => Kind::Return,
                Stmt::ConstraintEq { .. } => Kind::ConstraintEq,
                Stmt::Assert { .. } => Kind::Assert,
                Stmt::Log { .. } => Kind::Log,
                Stmt::Block { .. } => Kind::Block,
                Stmt::ExprStmt { .. } => Kind::ExprStmt,
            };
            add(s.id(), k);
            match s {
                Stmt::If { cond, .. } | Stmt::While { cond, .. } | Stmt::For { cond, .. } => add(cond.id(), Kind::Condition),
                // a tuple assignment is the element-wise assignments: each target element stands for its own assignment
                Stmt::Assign { lhs: Expr::Tuple { elems, .. }, op, .. } => {
                    for e in elems {
                        if let Expr::Var { id, .. } = e {
                            add(*id, if *op == AssignOp::Signal { Kind::SignalAssign } else { Kind::OtherAssign });
                        }
                    }
                }
                _ => {}
            }
            for e in s.exprs() {
                expr(e, &mut add);
            }
        });
    }
    NodeIndex { by_span, blank }
}

/// Source with every comment byte blanked (byte for byte, newlines kept).
fn blank_bytes(src: &str) -> String {
    match comment_mask(src.as_bytes()) {
        Ok(mask) => {
            let b: Vec<u8> = src.bytes().enumerate().map(|(i, c)| if mask[i] && c != b'\n' { b' ' } else { c }).collect();
            String::from_utf8_lossy(&b).to_string()
        }
        Err(_) => src.to_string(),
    }
}

/// Admissible node kinds for the primary label of each report id (transcribed
/// from the report constructors; ids not listed accept any generator node).
fn admissible(id: &str) -> Option<Vec<Kind>> {
    use Kind::*;
    Some(match id {
        "CS0005" | "CS0013" => vec![SignalAssign],
        "CS0009" => vec![Condition],
        "CS0001" => vec![Decl],
        "CS0002" | "CS0012" => vec![Params],
        "CS0003" => vec![Comparison],
        "CS0004" => vec![Arithmetic, OtherAssign],
        "CS0007" => vec![Params],
        "CS0006" => vec![Decl, OtherAssign, SignalAssign],
        "CS0008" => vec![Decl, OtherAssign, SignalAssign, Params],
        "CA01" | "CS0017" => vec![Decl],
        "CS0010" | "CS0014" | "CS0016" | "CS0018" => vec![Call, Decl, OtherAssign],
        "CS0015" => vec![Arithmetic, Var, OtherExpr, Call, Comparison],
        _ => return None,
    })
}

/// The name quoted first in the message, for ids whose subject must occur under the label.
fn subject(id: &str, r: &Report) -> Option<String> {
    match id {
        "CS0001" | "CS0006" | "CS0008" | "CA01" | "CS0017" | "CS0007" => {
            r.message().split('`').nth(1).map(|s| s.split(['[', '.']).next().unwrap_or(s).to_string())
        }
        "CS0005" | "CS0013" => r
            .primary()
            .first()
            .and_then(|l| l.message.split('`').nth(1).map(|s| s.split(['[', '.']).next().unwrap_or(s).to_string())),
        _ => None,
    }
}

/// `<name>_<digits>_<digits>`: the shape of the variables introduced for anonymous components.
fn is_synthetic(name: &str) -> bool {
    let parts: Vec<&str> = name.rsplitn(3, '_').collect();
    parts.len() == 3 && !parts[2].is_empty() && parts[0].chars().all(|c| c.is_ascii_digit()) && parts[1].chars().all(|c| c.is_ascii_digit()) && !parts[0].is_empty() && !parts[1].is_empty()
}

pub struct ProjIndex {
    /// by file name as registered in the file library
    pub files: BTreeMap<String, (String, NodeIndex)>,
}

fn check_report(r: &Report, files: &program_structure::file_definition::FileLibrary, ix: Option<&ProjIndex>, rec: &Rec) -> Verdict {
    let id = r.id();
    let all = r.primary().iter().map(|l| (true, l)).chain(r.secondary().iter().map(|l| (false, l)));
    for (primary, l) in all {
        let Ok(file) = files.to_storage().get(l.file_id) else {
            return Err(Bad::new(format!("[{id}] label names file id {} which is not in the file library", l.file_id)).sig("C04:unknown-file"));
        };
        let src = file.source();
        let (s, e) = (l.range.start, l.range.end);
        if s > e {
            return Err(Bad::new(format!("[{id}] {}: label range {s}..{e} has start > end", file.name())).sig("C04:start-after-end"));
        }
        if e > src.len() {
            return Err(Bad::new(format!("[{id}] {}: label range {s}..{e} exceeds the file length {}", file.name(), src.len())).sig("C04:out-of-range"));
        }
        if !src.is_char_boundary(s) || !src.is_char_boundary(e) {
            return Err(Bad::new(format!("[{id}] {}: label range {s}..{e} does not fall on character boundaries", file.name())).sig("C04:char-boundary"));
        }
        rec.class("labels_checked");
        let Some(ix) = ix else { continue };
        let Some((_, nodes)) = ix.files.get(file.name()) else { continue };
        let before = &src[..s];
        if !before.is_ascii() || comment_mask(before.as_bytes()).map(|m| m.iter().any(|b| *b)).unwrap_or(false) {
            rec.class("labels_after_multibyte_or_comment");
        }
        let span = trim_end(&nodes.blank, (s, e));
        let mut synthetic = false;
        // parse errors and the like point at tokens, not at generator nodes
        if id.starts_with('P') {
            continue;
        }
        match nodes.by_span.get(&span) {
            None => {
                return Err(Bad::new(format!(
                    "[{id}] {} label {s}..{e} (`{}`) is not the extent of any statement, expression, declaration, parameter list or definition of the program",
                    if primary { "primary" } else { "secondary" },
                    src.get(s..e).unwrap_or("?")
                ))
                .sig(format!("C04:not-a-construct:{id}")));
            }
            Some(kinds) => {
                if primary {
                    // findings about the variable the desugarer introduces for an anonymous component
                    // (`<Template>_<line>_<offset>`, a name the source does not contain) are about the call
                    synthetic = subject(&id, r).map(|n| is_synthetic(&n) && !nodes.blank.contains(n.as_str())).unwrap_or(false);
                    if let Some(mut adm) = admissible(&id) {
                        if synthetic {
                            rec.class("labels_for_anonymous_component_variables");
                            adm = vec![Kind::Call];
                        }
                        rec.class(&format!("construct_checked:{id}"));
                        if !kinds.iter().any(|k| adm.contains(k)) {
                            return Err(Bad::new(format!(
                                "[{id}] `{}`: the primary label {s}..{e} covers `{}` which is a {:?}, expected one of {:?}",
                                r.message(),
                                src.get(s..e).unwrap_or("?"),
                                kinds,
                                adm
                            ))
                            .sig(format!("C04:wrong-construct:{id}")));
                        }
                    }
                    if let Some(name) = subject(&id, r).filter(|n| !synthetic) {
                        let _ = &name;
                        let text = src.get(span.0..span.1).unwrap_or("");
                        let occurs = text.split(|c: char| !(c.is_ascii_alphanumeric() || c == '_' || c == '$')).any(|w| w == name);
                        if !occurs {
                            return Err(Bad::new(format!(
                                "[{id}] `{}`: the labelled text `{text}` does not mention `{name}`",
                                r.message()
                            ))
                            .sig(format!("C04:subject-not-under-label:{id}")));
                        }
                    }
                }
            }
        }
    }
    Ok(())
}

fn scratch(ctx: &Ctx, tag: &str) -> PathBuf {
    let d = ctx.scratch.join(format!("{tag}-{:?}", std::thread::current().id()).replace(['(', ')'], ""));
    let _ = std::fs::remove_dir_all(&d);
    let _ = std::fs::create_dir_all(&d);
    d
}

fn multiset<T: Ord>(v: impl IntoIterator<Item = T>) -> BTreeMap<T, usize> {
    let mut m = BTreeMap::new();
    for x in v {
        *m.entry(x).or_insert(0) += 1;
    }
    m
}

/// Positions shown by the binary (stdout line:col, SARIF regions) vs recomputed from the original bytes.
fn check_binary_positions(ctx: &Ctx, named: &[PathBuf], dir: &Path, reports: &[Report], files: &program_structure::file_definition::FileLibrary, rec: &Rec) -> Verdict {
    let sarif_path = dir.join("out.sarif");
    let mut o = RunOpts::files(named).verbose().level("info");
    o.sarif = Some(sarif_path.clone());
    let b = run_bin(ctx, &o)?;
    if crashed(&b.out) {
        rec.class("crashed_skipped");
        return Ok(());
    }
    rec.class("binary_runs");
    let want = multiset(reports.iter().map(|r| shown_of_report(r, files)));
    if b.shown != want {
        let missing: Vec<_> = want.iter().filter(|(k, n)| b.shown.get(*k).copied().unwrap_or(0) < **n).map(|(k, _)| k.clone()).collect();
        let extra: Vec<_> = b.shown.iter().filter(|(k, n)| want.get(*k).copied().unwrap_or(0) < **n).map(|(k, _)| k.clone()).collect();
        return Err(Bad::new(format!(
            "line:col printed by the binary differs from the position recomputed from the original file bytes: printed {extra:?}, recomputed {missing:?}"
        ))
        .sig("C04:printed-position"));
    }
    if !b.parsed.diags.is_empty() {
        let Some(text) = &b.out.sarif_text else {
            return Err(Bad::new("findings were displayed but no SARIF file was written (a label could not be converted)").sig("C04:sarif-missing"));
        };
        let doc = binrun::parse_sarif(text).map_err(|e| Bad::new(e).sig("C04:sarif-parse"))?;
        type Reg = (String, u64, u64, u64, u64);
        let region = |l: &program_structure::report::ReportLabel| -> Option<Reg> {
            let f = files.to_storage().get(l.file_id).ok()?;
            let (sl, sc) = binrun::line_col(f.source(), l.range.start);
            let (el, ec) = binrun::line_col(f.source(), l.range.end);
            Some((format!("file://{}", f.name()), sl as u64, sc as u64, el as u64, ec as u64))
        };
        // the order of the labels inside one finding carries no meaning
        let sorted = |mut v: Vec<Reg>| {
            v.sort();
            v
        };
        let want = multiset(reports.iter().map(|r| {
            (r.id(), sorted(r.primary().iter().filter_map(region).collect::<Vec<_>>()), sorted(r.secondary().iter().filter_map(region).collect::<Vec<_>>()))
        }));
        // optional offset/length fields of a region must describe the same text as its lines and columns
        for (uri, sl, sc, el, ec, char_off, char_len, byte_off, byte_len) in &doc.regions {
            if char_off.is_none() && char_len.is_none() && byte_off.is_none() && byte_len.is_none() {
                continue;
            }
            let path = uri.trim_start_matches("file://");
            let Ok(text) = std::fs::read_to_string(path) else { continue };
            let offset_of = |line: u64, col: u64| -> Option<usize> {
                let mut off = 0usize;
                for (k, l) in text.split_inclusive('\n').enumerate() {
                    if k as u64 + 1 == line {
                        let within: usize = l.chars().take(col.saturating_sub(1) as usize).map(|c| c.len_utf8()).sum();
                        return Some(off + within);
                    }
                    off += l.len();
                }
                if line as usize == text.split_inclusive('\n').count() + 1 && col == 1 { Some(text.len()) } else { None }
            };
            let (Some(bs), Some(be)) = (offset_of(*sl, *sc), offset_of(*el, *ec)) else { continue };
            let want_char_off = text[..bs].chars().count() as u64;
            let want_char_len = text[bs..be.max(bs)].chars().count() as u64;
            let wrong = char_off.map(|v| v != want_char_off).unwrap_or(false)
                || char_len.map(|v| v != want_char_len).unwrap_or(false)
                || byte_off.map(|v| v != bs as u64).unwrap_or(false)
                || byte_len.map(|v| v != (be.max(bs) - bs) as u64).unwrap_or(false);
            if wrong {
                return Err(Bad::new(format!(
                    "a SARIF region of {path} ({sl}:{sc}-{el}:{ec}) carries charOffset/charLength/byteOffset/byteLength = {char_off:?}/{char_len:?}/{byte_off:?}/{byte_len:?}, but its lines and columns select characters {want_char_off}+{want_char_len} (bytes {bs}+{})",
                    be.max(bs) - bs
                ))
                .sig("C04:sarif-offset-fields"));
            }
        }
        let got = multiset(doc.results.iter().map(|r| (r.rule_id.clone(), sorted(r.locations.clone()), sorted(r.related.clone()))));
        if want != got {
            let only_sarif: Vec<_> = got.iter().filter(|(k, n)| want.get(*k).copied().unwrap_or(0) < **n).map(|(k, _)| k.clone()).collect();
            let only_ref: Vec<_> = want.iter().filter(|(k, n)| got.get(*k).copied().unwrap_or(0) < **n).map(|(k, _)| k.clone()).collect();
            return Err(Bad::new(format!("SARIF regions differ from the regions recomputed from the original bytes:\n sarif only: {only_sarif:?}\n recomputed only: {only_ref:?}")).sig("C04:sarif-region"));
        }
    }
    Ok(())
}

fn project_case(ctx: &Ctx, tape: &[u8], rec: &Rec, with_binary: bool) -> Verdict {
    let mut t = Tape::new(tape);
    let p = gen_project(&mut t, ProjOpts { comments: true, bom_chance: 20, sugar_chance: 80, ..ProjOpts::default() });
    let dir = scratch(ctx, "c04");
    let r = project_case_in(ctx, &p, rec, &dir, with_binary).map_err(|b| if b.rendered.is_empty() { b.rendered(p.describe()) } else { b });
    let _ = std::fs::remove_dir_all(&dir);
    r
}

fn project_case_in(ctx: &Ctx, p: &GenProject, rec: &Rec, dir: &Path, with_binary: bool) -> Verdict {
    let named = p.write(dir).map_err(|e| Bad::new(format!("INFRA write: {e}")))?;
    let reference = match reference(&named, &[], &program_structure::constants::Curve::Bn254) {
        Ok(r) => r,
        Err(_) => {
            rec.class("reference_panicked_skipped");
            return Ok(());
        }
    };
    // index generator nodes by the file names the library uses (canonical paths)
    let mut files = BTreeMap::new();
    for f in &p.files {
        if let Ok(c) = std::fs::canonicalize(dir.join(&f.rel)) {
            files.insert(c.display().to_string(), (f.r.src.clone(), index_file(f)));
        }
    }
    let ix = ProjIndex { files };
    rec.class("projects");
    if p.failing_defs > 0 {
        rec.class("projects_with_definition_failing_ssa_after_cfg_warning");
    }
    if p.failing_templates.iter().any(|n| p.files.iter().any(|f| f.r.src.contains(&format!("= {n}(")))) {
        rec.class("projects_with_failing_template_instantiated");
    }
    if p.bom_files > 0 {
        rec.class("projects_with_byte_order_mark");
    }
    if p.sugared_defs > 0 {
        rec.class("projects_with_tuple_or_anonymous_component_statements");
    }
    if p.recursive_templates > 0 {
        rec.class("projects_with_template_instantiating_itself");
    }
    let mut after = 0;
    for r in &reference.reports {
        check_report(r, &reference.files, Some(&ix), rec)?;
        after += 1;
    }
    if after > 0 && p.files.iter().any(|f| !f.r.src.is_ascii()) {
        rec.nontrivial(p.hash());
    }
    rec.sample(|| json!({"project": p.describe().chars().take(1200).collect::<String>(), "reports": reference.reports.len()}));
    // (d) the stripper keeps byte offsets
    for f in &p.files {
        if let Ok(pp) = parser::preprocess(&f.r.src, 0) {
            if pp.len() != f.r.src.len() {
                return Err(Bad::new(format!("preprocess changes the byte length of {} ({} -> {})", f.rel, f.r.src.len(), pp.len())).sig("C04:preprocess-length"));
            }
        }
    }
    if with_binary {
        check_binary_positions(ctx, &named, dir, &reference.reports, &reference.files, rec)?;
    }
    Ok(())
}

/// A definition of one named file copied to the end of another named file: the duplicate-definition
/// error is the one diagnostic that talks about two files, so each of its labels must name the
/// right file and cover one of the two definitions.
fn duplicate_case(ctx: &Ctx, tape: &[u8], rec: &Rec) -> Verdict {
    let mut t = Tape::new(tape);
    let mut p = gen_project(&mut t, ProjOpts { max_files: 3, comments: true, main_component: false, clean: true, ..ProjOpts::default() });
    if p.files.len() < 2 {
        rec.class("duplicate_projects_single_file_skipped");
        return Ok(());
    }
    let i = t.below(p.files.len());
    let j = (i + 1 + t.below(p.files.len() - 1)) % p.files.len();
    let k = t.below(p.files[i].ast.defs.len());
    let def_id = p.files[i].ast.defs[k].id;
    let Some((a, b)) = p.files[i].r.span(def_id) else { return Ok(()) };
    let name = p.files[i].ast.defs[k].name.clone();
    let text = p.files[i].r.src[a..b].to_string();
    let sep = if t.chance(128) { "\n// é 日本\n" } else { "\n" };
    let at = p.files[j].r.src.len() + sep.len();
    // half of the time the copied definition is the very end of the file (no final newline)
    let tail = if t.chance(128) { "\n" } else { "" };
    p.files[j].r.src = format!("{}{sep}{text}{tail}", p.files[j].r.src);
    p.named = (0..p.files.len()).collect();
    if t.chance(128) {
        p.named.reverse();
    }
    let dir = scratch(ctx, "c04d");
    let res = (|| -> Verdict {
        let named = p.write(&dir).map_err(|e| Bad::new(format!("INFRA write: {e}")))?;
        let reference = match reference(&named, &[], &program_structure::constants::Curve::Bn254) {
            Ok(r) => r,
            Err(_) => {
                rec.class("reference_panicked_skipped");
                return Ok(());
            }
        };
        rec.class("duplicate_projects");
        let canon = |rel: &str| std::fs::canonicalize(dir.join(rel)).map(|c| c.display().to_string()).unwrap_or_default();
        let blank_i = blank_bytes(&p.files[i].r.src);
        let blank_j = blank_bytes(&p.files[j].r.src);
        let allowed = [(canon(&p.files[i].rel), trim_end(&blank_i, (a, b))), (canon(&p.files[j].rel), trim_end(&blank_j, (at, at + text.len())))];
        let mut seen = false;
        for r in &reference.reports {
            check_report(r, &reference.files, None, rec)?;
            if r.message().contains("Duplicated") || r.id() == "T2008" {
                seen = true;
                rec.nontrivial(fnv(p.describe().as_bytes()));
                for l in r.primary().iter().chain(r.secondary().iter()) {
                    let Ok(file) = reference.files.to_storage().get(l.file_id) else { continue };
                    let blank = if *file.name() == allowed[0].0 { &blank_i } else { &blank_j };
                    let span = trim_end(blank, (l.range.start, l.range.end));
                    if !allowed.iter().any(|(f, sp)| *f == *file.name() && *sp == span) {
                        return Err(Bad::new(format!(
                            "[{}] `{}`: a label covers {}:{}..{} (`{}`), which is neither of the two definitions of `{name}` ({}:{:?} and {}:{:?})",
                            r.id(),
                            r.message(),
                            file.name(),
                            l.range.start,
                            l.range.end,
                            file.source().get(l.range.start..l.range.end.min(file.source().len())).unwrap_or("?").chars().take(60).collect::<String>(),
                            allowed[0].0,
                            allowed[0].1,
                            allowed[1].0,
                            allowed[1].1
                        ))
                        .sig("C04:duplicate-definition-label"));
                    }
                }
            }
        }
        if seen {
            rec.class("duplicate_definition_errors_checked");
        }
        // positions displayed by the binary and written to SARIF (the definition that is kept is the
        // first one in file order since fix eb34e01 / 199e91d, so the reference agrees with the binary)
        check_binary_positions(ctx, &named, &dir, &reference.reports, &reference.files, rec)
    })()
    .map_err(|b| if b.rendered.is_empty() { b.rendered(p.describe()) } else { b });
    let _ = std::fs::remove_dir_all(&dir);
    res
}

/// Inputs that end in lexical / syntax errors or unterminated comments, with non-ASCII text before.
fn error_case(ctx: &Ctx, tape: &[u8], rec: &Rec) -> Verdict {
    let mut t = Tape::new(tape);
    let mut p = gen_project(&mut t, ProjOpts { max_files: 1, comments: true, ..ProjOpts::default() });
    let f = &mut p.files[0];
    let cut_tok = t.below(f.r.toks.len().max(1));
    let cut = f.r.toks.get(cut_tok).map(|x| x.0).unwrap_or(0);
    let fault = ["@", "#", "/* é unterminated", ")", "]", "}", "'", "0x", "é", "\u{1F600}"][t.below(10)];
    let mut src = f.r.src[..cut].to_string();
    let lead = if t.chance(128) {
        src.insert_str(0, "// é 日本 ∀\n");
        "// é 日本 ∀\n".len()
    } else {
        0
    };
    src.push_str(fault);
    src.push(' ');
    src.push_str(&f.r.src[cut..].replace("*/", "* /"));
    let dir = scratch(ctx, "c04e");
    let path = dir.join("e.circom");
    std::fs::write(&path, &src).map_err(|e| Bad::new(format!("INFRA write: {e}")))?;
    let named = vec![path];
    let res = (|| -> Verdict {
        let reference = match reference(&named, &[], &program_structure::constants::Curve::Bn254) {
            Ok(r) => r,
            Err(_) => {
                rec.class("reference_panicked_skipped");
                return Ok(());
            }
        };
        rec.class("error_inputs");
        if reference.reports.iter().any(|r| r.id() == "P1000") {
            rec.class("error_inputs_with_parse_error");
            rec.nontrivial(fnv(src.as_bytes()));
        }
        for r in &reference.reports {
            check_report(r, &reference.files, None, rec)?;
            // a parse error must point at or after the injected fault, never into the (valid) text before it
            if r.id() == "P1000" {
                if let Some(l) = r.primary().first() {
                    let fault_at = cut + lead;
                    if fault == "/* é unterminated" && l.range.start != fault_at {
                        return Err(Bad::new(format!(
                            "the unterminated comment opened at byte {fault_at} is reported at {}..{} (`{}`)",
                            l.range.start,
                            l.range.end,
                            src.get(l.range.start..l.range.end.min(src.len())).unwrap_or("?")
                        ))
                        .sig("C04:unterminated-comment-location"));
                    }
                }
            }
        }
        check_binary_positions(ctx, &named, &dir, &reference.reports, &reference.files, rec)
    })()
    .map_err(|b| if b.rendered.is_empty() { b.rendered(src.clone()) } else { b });
    let _ = std::fs::remove_dir_all(&dir);
    res
}

fn replay_known(ctx: &Ctx, k: &Known) -> Verdict {
    let named = vec![PathBuf::from(&k.repro)];
    let reference = reference(&named, &[], &program_structure::constants::Curve::Bn254).map_err(|p| Bad::new(format!("panic: {p}")))?;
    let stats = Stats::new();
    let rec = Rec::new(&stats, false);
    let src = std::fs::read_to_string(&k.repro).unwrap_or_default();
    for r in &reference.reports {
        check_report(r, &reference.files, None, &rec).map_err(|b| b.sig(k.signature.clone()))?;
        if r.message().contains("Unterminated comment") {
            let at = src.rfind("/*").unwrap_or(0);
            if r.primary().first().map(|l| l.range.start) != Some(at) {
                return Err(Bad::new(format!("{}: the unterminated comment opens at byte {at} but is reported at {:?}", k.repro, r.primary().first().map(|l| l.range.clone()))).sig(k.signature.clone()));
            }
        }
    }
    let dir = scratch(ctx, "c04k");
    let r = check_binary_positions(ctx, &named, &dir, &reference.reports, &reference.files, &rec);
    let _ = std::fs::remove_dir_all(&dir);
    r
}

pub fn replay(ctx: &Ctx, check: &str, tape: &[u8]) -> Verdict {
    let stats = Stats::new();
    let rec = Rec::new(&stats, false);
    match check {
        "labels" => project_case(ctx, tape, &rec, false),
        "labels_binary" => project_case(ctx, tape, &rec, true),
        "error_inputs" => error_case(ctx, tape, &rec),
        "duplicate_definitions" => duplicate_case(ctx, tape, &rec),
        _ => Err(Bad::new(format!("unknown check {check}"))),
    }
}

pub fn run(ctx: &Ctx) -> i32 {
    let start = Instant::now();
    let stats = Stats::new();
    let mut outcome = Outcome::new();
    let known = load_known("C04");
    for k in &known {
        let r = replay_known(ctx, k);
        outcome.known_replay(k, r);
    }
    let fails = run_tapes_opts(ctx, "labels", ctx.tier.pick(2_000, 50_000), 3000, 300, &stats, |tape, rec| project_case(ctx, tape, rec, false));
    outcome.absorb(&known, fails);
    let fails = run_tapes_opts(ctx, "labels_binary", ctx.tier.pick(400, 8_000), 3000, 200, &stats, |tape, rec| project_case(ctx, tape, rec, true));
    outcome.absorb(&known, fails);
    let fails = run_tapes_opts(ctx, "error_inputs", ctx.tier.pick(1_000, 20_000), 3000, 300, &stats, |tape, rec| error_case(ctx, tape, rec));
    outcome.absorb(&known, fails);
    let fails = run_tapes_opts(ctx, "duplicate_definitions", ctx.tier.pick(400, 8_000), 3000, 200, &stats, |tape, rec| duplicate_case(ctx, tape, rec));
    outcome.absorb(&known, fails);
    let _ = blank_comments;
    finish(
        ctx,
        &stats,
        &outcome,
        EvidenceSpec {
            level: "exploration",
            rule: "generated projects (as C03) with comments of every shape, multi-byte characters, CRLF and tabs before and inside constructs; the reports of the whole pipeline are collected in-process (parse stage + into_cfg/into_ssa + all passes for the named files). For every label: the file id exists in the file library, start <= end <= file length, both ends on char boundaries of the original bytes; the label extent (trailing blanks/comments trimmed) equals the extent of a generator node (statement, expression, declaration, parameter list, definition, include) and, per report id, a node of an admissible kind (e.g. CS0005/CS0013 -> the `<--` statement, CS0009 -> a branch condition, CS0001 -> a declaration, CS0002/7/12 -> the parameter list, CS0003 -> a comparison, CS0004 -> an operator expression) whose text mentions the subject named in the message; through the binary: file:line:col printed for each finding and all SARIF regions equal line/column recomputed from the original bytes; preprocess keeps the byte length. A second generator injects a lexical/syntax fault or an unterminated comment (optionally after a non-ASCII line) and checks the error labels the same way (the unterminated-comment label must start at the opener). Non-trivial = project with at least one report and non-ASCII text in a file; distinct by project hash.",
            assumptions: vec!["the id -> admissible-construct table is transcribed from the report constructors and was validated on the unchanged tree".into()],
            extra: json!({}),
        },
        start,
    )
}
