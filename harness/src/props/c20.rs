//! C20 — cutting propagation short never makes a claim wrong.

use super::c06::{check_consumers, check_values, traces_for};
use super::c07::{check_cs0013, check_degrees, data_param_flags, gen_c07_case, run_line, taint_info};
use super::semcase::*;
use crate::engine::*;
use crate::obs;
use program_structure::cfg::verif_hooks;
use program_structure::cfg::Cfg;
use serde_json::json;
use std::time::Instant;

fn lift_with(c: &SemCase, value_budget: Option<usize>, degree_budget: Option<usize>) -> Result<(Cfg, (usize, usize)), Bad> {
    let curve = obs::curve_by_name(c.prime_name);
    let l = match obs::lift_def(&c.r.src, &curve) {
        Ok(l) => l,
        Err(obs::LiftFail::Panic(p)) => return Err(Bad::new(format!("lifting panicked: {p}")).sig("SEM:lift-panic").rendered(c.r.src.clone())),
        Err(e) => return Err(Bad::new(format!("generated definition rejected: {}", e.describe())).sig("SEM:rejected").rendered(c.r.src.clone())),
    };
    verif_hooks::set_value_budget(value_budget);
    verif_hooks::set_degree_budget(degree_budget);
    let r = obs::to_ssa(l.cfg);
    let passes = verif_hooks::passes_run();
    verif_hooks::set_value_budget(None);
    verif_hooks::set_degree_budget(None);
    match r {
        Ok(s) => Ok((s, passes)),
        Err(obs::SsaFail::Error(r)) => Err(Bad::new(format!("SSA conversion rejected the generated definition: {}", r.message())).sig("SEM:ssa-rejected").rendered(c.r.src.clone())),
        Err(obs::SsaFail::Panic(p)) => Err(Bad::new(format!(
            "into_ssa panicked with value budget {value_budget:?} / degree budget {degree_budget:?}: {p}"
        ))
        .sig("C20:panic-when-cut")
        .rendered(c.r.src.clone())),
    }
}

fn budgets(fix: usize, t: &mut Tape) -> Vec<usize> {
    let mut v: Vec<usize> = (0..=fix.min(16)).collect();
    if fix > 16 {
        for _ in 0..8 {
            v.push(17 + t.below(fix - 16));
        }
    }
    v.sort();
    v.dedup();
    v
}

fn value_case(tape: &[u8], rec: &Rec) -> Verdict {
    let mut t = Tape::new(tape);
    let late = t.chance(128);
    let c = gen_sem_case(&mut t, SemOpts { late_facts: late, ..SemOpts::default() });
    if late {
        rec.class("value_programs_biased_to_late_facts");
    }
    let ix = build_index(&c);
    let traces = traces_for(&c, &mut t, 8);
    let (_, (fix, _)) = lift_with(&c, None, None)?;
    rec.class("value_programs");
    rec.class_n("value_passes_to_fixpoint", fix as u64);
    for k in budgets(fix, &mut t) {
        let (ssa, (ran, _)) = lift_with(&c, Some(k), None)?;
        if ran > k {
            return Err(Bad::new(format!("INFRA: budget {k} but {ran} value passes ran")));
        }
        rec.class("value_cuts");
        let label = format!("[value propagation cut after {k} of {fix} passes] ");
        let st = check_values(&c, &ix, &traces, &ssa, &label).map_err(|b| Bad { signature: format!("C20:{}", b.signature), ..b })?;
        check_consumers(&c, &ix, &traces, &ssa, &label, rec).map_err(|b| Bad { signature: format!("C20:{}", b.signature), ..b })?;
        rec.class_n("value_claims_at_cuts", st.claims);
        if k < fix && st.claims_checked > 0 {
            rec.nontrivial(fnv(format!("v/{k}/{}", c.r.src).as_bytes()));
        }
    }
    rec.sample(|| json!({"kind": "value", "prime": c.prime_name, "definition": c.r.src, "passes_to_fixpoint": fix}));
    Ok(())
}

fn degree_case(tape: &[u8], rec: &Rec) -> Verdict {
    let mut t = Tape::new(tape);
    let late = t.chance(128);
    let c = if late {
        gen_sem_case(&mut t, SemOpts { components: true, data_params: true, late_facts: true, ..Default::default() })
    } else {
        gen_c07_case(&mut t)
    };
    if late {
        rec.class("degree_programs_biased_to_late_facts");
    }
    let flags = data_param_flags(&c);
    let (control_depends, skip) = taint_info(&c, &flags);
    if control_depends {
        rec.class("discarded_control_flow_may_depend_on_indeterminates");
        return Ok(());
    }
    let ix = build_index(&c);
    let lines: Vec<_> = (0..2).filter_map(|_| run_line(&c, &mut t, &flags)).collect();
    let (_, (_, fix)) = lift_with(&c, None, None)?;
    rec.class("degree_programs");
    rec.class_n("degree_passes_to_fixpoint", fix as u64);
    for k in budgets(fix, &mut t) {
        let (ssa, (_, ran)) = lift_with(&c, None, Some(k))?;
        if ran > k {
            return Err(Bad::new(format!("INFRA: budget {k} but {ran} degree passes ran")));
        }
        rec.class("degree_cuts");
        let label = format!("[degree propagation cut after {k} of {fix} passes] ");
        for line in &lines {
            let st = check_degrees(&c, &ix, line, &ssa, &label, &skip).map_err(|b| Bad { signature: format!("C20:{}", b.signature), ..b })?;
            check_cs0013(&c, line, &ssa, &label, rec).map_err(|b| Bad { signature: format!("C20:{}", b.signature), ..b })?;
            rec.class_n("degree_claims_at_cuts", st.claims);
            if k < fix && st.nontrivial > 0 {
                rec.nontrivial(fnv(format!("d/{k}/{}", c.r.src).as_bytes()));
            }
        }
    }
    rec.sample(|| json!({"kind": "degree", "prime": c.prime_name, "definition": c.r.src, "passes_to_fixpoint": fix}));
    Ok(())
}

/// The real time box: a definition whose value propagation needs more than the 10 s box
/// (a chain of ~2000 dependent assignments), run through the real release binary. The run must
/// end normally (exit 0/1 with its summary line), and the debug log must show that a time box
/// was actually hit — otherwise the case is counted as not having reached the cut.
fn timebox_case(ctx: &Ctx, tape: &[u8], rec: &Rec) -> Verdict {
    use crate::binrun::{self, RunOpts};
    let mut t = Tape::new(tape);
    let n = 1800 + t.below(900);
    let template = t.chance(170);
    let form = t.below(3);
    let mut body = String::new();
    for i in 0..n {
        match form {
            0 => body.push_str(&format!("    x = x * 3 + {};\n", i % 7 + 1)),
            1 => body.push_str(&format!("    x = x + y;\n    y = y * 2 + {};\n", i % 5)),
            _ => body.push_str(&format!("    x = (x + {}) * (y + 1);\n", i % 3)),
        }
    }
    let src = if template {
        format!("pragma circom 2.0.0;\ntemplate Big() {{\n    signal input in;\n    signal output out;\n    var x = 1;\n    var y = 2;\n{body}    out <== in * x + y;\n}}\n")
    } else {
        format!("pragma circom 2.0.0;\nfunction big(a) {{\n    var x = 1;\n    var y = 2;\n{body}    return x + y + a;\n}}\n")
    };
    let dir = ctx.scratch.join(format!("c20t-{:?}", std::thread::current().id()).replace(['(', ')'], ""));
    let _ = std::fs::create_dir_all(&dir);
    let path = dir.join("big.circom");
    std::fs::write(&path, &src).map_err(|e| Bad::new(format!("INFRA write: {e}")))?;
    let mut opts = RunOpts::files(&[&path]).verbose().level("info");
    opts.cpu_secs = 300;
    opts.rust_log = Some("circomspect_program_structure=debug".into());
    let out = binrun::run(&ctx.repo_bin, &opts).map_err(|e| Bad::new(format!("INFRA {e}")))?;
    let _ = std::fs::remove_dir_all(&dir);
    rec.class("time_box_runs");
    let hit = out.stderr.contains("within allotted time") || out.stdout.contains("within allotted time");
    if hit {
        rec.class("time_box_runs_in_which_a_box_was_hit");
        rec.nontrivial(fnv(src.as_bytes()));
    }
    rec.sample(|| json!({"kind": "time box", "statements": n, "form": form, "template": template, "time_box_hit": hit, "exit": out.status}));
    if let Err((why, sig)) = super::c01::judge(&out, opts.cpu_secs) {
        if sig == "C01:resource-limit" {
            // slower than 300 CPU-seconds: inconclusive, not a verdict on the property
            rec.class("time_box_runs_over_cpu_budget_inconclusive");
            return Ok(());
        }
        let panic_line = out.stderr.lines().find(|l| l.contains("panicked at")).unwrap_or("").to_string();
        return Err(Bad::new(format!(
            "a definition with {n} chained assignments (time box hit: {hit}): the tool does not complete normally: {why} {panic_line}"
        ))
        .sig(format!("C20:abnormal-end-at-time-box:{sig}"))
        .rendered(format!("{} statements of form {form} in a {}\n{}", n, if template { "template" } else { "function" }, &src[..src.len().min(600)])));
    }
    Ok(())
}

pub fn replay(ctx: &Ctx, check: &str, tape: &[u8]) -> Verdict {
    let stats = Stats::new();
    let rec = Rec::new(&stats, false);
    match check {
        "value_cuts" => value_case(tape, &rec),
        "degree_cuts" => degree_case(tape, &rec),
        "time_box" => timebox_case(ctx, tape, &rec),
        _ => Err(Bad::new(format!("unknown check {check}"))),
    }
}

pub fn run(ctx: &Ctx) -> i32 {
    let start = Instant::now();
    let stats = Stats::new();
    let mut outcome = Outcome::new();
    let known = load_known("C20");
    let fails = run_tapes_opts(ctx, "value_cuts", ctx.tier.pick(3_000, 60_000), 4000, 300, &stats, value_case);
    outcome.absorb(&known, fails);
    let fails = run_tapes_opts(ctx, "degree_cuts", ctx.tier.pick(12_000, 120_000), 4000, 300, &stats, degree_case);
    outcome.absorb(&known, fails);
    let fails = run_tapes_opts(ctx, "time_box", ctx.tier.pick(16, 128), 16, 2, &stats, |tape, rec| timebox_case(ctx, tape, rec));
    outcome.absorb(&known, fails);
    finish(
        ctx,
        &stats,
        &outcome,
        EvidenceSpec {
            level: "fault_enumeration",
            rule: "the verif hook caps the number of propagation passes per thread (it sits next to the elapsed-time bail-out in both loops). For every generated `sem` definition the number F of passes to the fixpoint is measured, then into_ssa is repeated with the value budget k for every k = 0..min(F,16) (plus 8 sampled k above 16) and, on the C07 generator, with the degree budget k likewise. A third sub-check runs the real release binary on definitions with 1800-2700 chained assignments, for which value propagation needs more than its real 10 s time box (confirmed per run from the debug log), and requires normal termination. At every cut: the conversion and all analysis passes must complete without panic, every constant attached so far must satisfy the C06 oracle (8 reference valuations; CS0009 and Num2Bits-size consumers included) and every degree bound attached so far the C07 oracle (2 lines; CS0013 included). Non-trivial = a cut strictly before the fixpoint at which at least one claim was checked against a reference run; distinct by (budget kind, k, source).",
            assumptions: vec![
                "the time box is modelled as a bound on the number of completed passes: the elapsed-time check sits at the end of a pass, so propagation can only stop between passes".into(),
                "oracles and their assumptions as in C06 / C07".into(),
            ],
            extra: json!({}),
        },
        start,
    )
}
