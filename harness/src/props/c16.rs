//! C16 — field arithmetic matches Circom's semantics for all operands, never panics.

use crate::engine::*;
use crate::field::{self, Op, UnOp, Undefined, ALL_OPS, ALL_UNOPS};
use circom_algebra::modular_arithmetic as ma;
use circom_algebra::num_bigint::BigInt;
use num_bigint_dig::BigUint;
use num_traits::{One, ToPrimitive, Zero};
use serde_json::json;
use std::time::Instant;

const SMALL_PRIMES_QUICK: [u128; 11] = [3, 5, 7, 11, 13, 17, 31, 61, 127, 251, 257];

fn to_int(x: &BigUint) -> BigInt {
    BigInt::from_biguint(num_bigint_dig::Sign::Plus, x.clone())
}

/// What the implementation did.
#[derive(Debug, Clone, PartialEq)]
pub enum Got {
    Val(BigInt),
    Err,
    Panic(String),
}

fn res(r: Result<BigInt, ma::ArithmeticError>) -> Got {
    match r {
        Ok(v) => Got::Val(v),
        Err(_) => Got::Err,
    }
}

pub fn impl_binary(op: Op, a: &BigInt, b: &BigInt, p: &BigInt) -> Got {
    let r = catch(|| match op {
        Op::Add => Got::Val(ma::add(a, b, p)),
        Op::Sub => Got::Val(ma::sub(a, b, p)),
        Op::Mul => Got::Val(ma::mul(a, b, p)),
        Op::Div => res(ma::div(a, b, p)),
        Op::IntDiv => res(ma::idiv(a, b, p)),
        Op::Mod => res(ma::mod_op(a, b, p)),
        Op::Pow => Got::Val(ma::pow(a, b, p)),
        Op::ShiftL => res(ma::shift_l(a, b, p)),
        Op::ShiftR => res(ma::shift_r(a, b, p)),
        Op::BitAnd => Got::Val(ma::bit_and(a, b, p)),
        Op::BitOr => Got::Val(ma::bit_or(a, b, p)),
        Op::BitXor => Got::Val(ma::bit_xor(a, b, p)),
        Op::Lt => Got::Val(ma::lesser(a, b, p)),
        Op::Le => Got::Val(ma::lesser_eq(a, b, p)),
        Op::Gt => Got::Val(ma::greater(a, b, p)),
        Op::Ge => Got::Val(ma::greater_eq(a, b, p)),
        Op::Eq => Got::Val(ma::eq(a, b, p)),
        Op::Ne => Got::Val(ma::not_eq(a, b, p)),
        Op::BoolAnd => Got::Val(ma::bool_and(a, b, p)),
        Op::BoolOr => Got::Val(ma::bool_or(a, b, p)),
    });
    match r {
        Ok(g) => g,
        Err(p) => Got::Panic(p),
    }
}

pub fn impl_unary(op: UnOp, a: &BigInt, p: &BigInt) -> Got {
    let r = catch(|| match op {
        UnOp::Neg => Got::Val(ma::prefix_sub(a, p)),
        UnOp::Not => Got::Val(ma::not(a, p)),
        UnOp::Complement => Got::Val(ma::complement_256(a, p)),
    });
    match r {
        Ok(g) => g,
        Err(p) => Got::Panic(p),
    }
}

/// Judge one binary evaluation against the reference.
fn judge_binary(op: Op, a: &BigUint, b: &BigUint, p: &BigUint, got: &Got) -> Verdict {
    let want = field::big_binary(op, a, b, p);
    let bits = p.bits();
    let describe = || format!("{a} {} {b} (mod {p})", op.symbol());
    match (got, &want) {
        (Got::Panic(m), _) => Err(Bad::new(format!("panic evaluating {}: {m}", describe()))
            .sig(format!("C16:panic:{op:?}:{}", if b.is_zero() { "zero" } else { "nonzero" }))),
        (Got::Val(v), Ok(w)) => {
            if v == &to_int(w) {
                Ok(())
            } else {
                Err(Bad::new(format!("{} = {v}, reference {w}", describe())).sig(format!("C16:value:{op:?}")))
            }
        }
        (Got::Val(v), Err(Undefined::ZeroDivisor)) => Err(Bad::new(format!(
            "{} returned {v} although the divisor is zero (an error is required)",
            describe()
        ))
        .sig(format!("C16:noerr:{op:?}"))),
        (Got::Err, Err(_)) => Ok(()),
        (Got::Err, Ok(w)) => {
            // An error is acceptable only for over-large shift counts: counts
            // beyond the bit size of p (in either direction of the wrap).
            let over_large = match op {
                Op::ShiftL | Op::ShiftR => {
                    let half = p >> 1usize;
                    let k = if b <= &half { b.clone() } else { p - b };
                    k > BigUint::from(bits)
                }
                _ => false,
            };
            if over_large {
                Ok(())
            } else {
                Err(Bad::new(format!("{} returned an error, reference {w}", describe()))
                    .sig(format!("C16:err:{op:?}")))
            }
        }
    }
}

fn judge_unary(op: UnOp, a: &BigUint, p: &BigUint, got: &Got) -> Verdict {
    let want = field::big_unary(op, a, p);
    match got {
        Got::Panic(m) => Err(Bad::new(format!("panic evaluating {}{a} (mod {p}): {m}", op.symbol()))
            .sig(format!("C16:panic:{op:?}"))),
        Got::Err => Err(Bad::new(format!("error evaluating {}{a} (mod {p})", op.symbol()))),
        Got::Val(v) => {
            if v == &to_int(&want) {
                Ok(())
            } else {
                Err(Bad::new(format!("{}{a} (mod {p}) = {v}, reference {want}", op.symbol()))
                    .sig(format!("C16:value:{op:?}:{}", if a.is_zero() { "zero" } else { "nonzero" })))
            }
        }
    }
}

/// Exhaustive check of one small prime against the u128 reference.
fn exhaustive_small(p: u128, stats: &Stats) -> Verdict {
    let bp = BigInt::from(p as u64);
    let bpu = BigUint::from(p as u64);
    let mut first: Option<Bad> = None;
    let mut n = 0u64;
    for a in 0..p {
        let ba = BigInt::from(a as u64);
        for uop in ALL_UNOPS {
            let got = impl_unary(uop, &ba, &bp);
            let want = field::small::unary(uop, a, p);
            n += 1;
            let ok = matches!(&got, Got::Val(v) if v == &BigInt::from(want as u64));
            if !ok && first.is_none() {
                first = judge_unary(uop, &BigUint::from(a as u64), &bpu, &got).err().or_else(|| {
                    Some(Bad::new(format!(
                        "u128 and BigUint references disagree on {uop:?} {a} mod {p}"
                    )))
                });
            }
        }
        for b in 0..p {
            let bb = BigInt::from(b as u64);
            for op in ALL_OPS {
                let got = impl_binary(op, &ba, &bb, &bp);
                let want = field::small::binary(op, a, b, p);
                n += 1;
                let ok = match (&got, &want) {
                    (Got::Val(v), Ok(w)) => v == &BigInt::from(*w as u64),
                    (Got::Err, Err(_)) => true,
                    // Over-large shifts may be errors: defer to the full judge.
                    _ => judge_binary(op, &BigUint::from(a as u64), &BigUint::from(b as u64), &bpu, &got)
                        .is_ok(),
                };
                if !ok {
                    if a > p / 2 || b > p / 2 {
                        stats.nontrivial(fnv(format!("{p}/{op:?}/{a}/{b}").as_bytes()));
                    }
                    if first.is_none() {
                        first = judge_binary(
                            op,
                            &BigUint::from(a as u64),
                            &BigUint::from(b as u64),
                            &bpu,
                            &got,
                        )
                        .err()
                        .or_else(|| {
                            Some(Bad::new(format!(
                                "u128 and BigUint references disagree on {op:?} {a} {b} mod {p}"
                            )))
                        });
                    }
                } else if a > p / 2 || b > p / 2 {
                    stats.nontrivial(fnv(format!("{p}/{op:?}/{a}/{b}").as_bytes()));
                }
            }
        }
    }
    stats.eval(n);
    stats.class_n("small_prime_exhaustive_evaluations", n);
    match first {
        None => Ok(()),
        Some(b) => Err(b),
    }
}

/// Boundary values for a real prime.
fn boundary_values(p: &BigUint) -> Vec<BigUint> {
    let one = BigUint::one();
    let half = p >> 1usize;
    let mut v = vec![
        BigUint::zero(),
        one.clone(),
        BigUint::from(2u32),
        BigUint::from(3u32),
        &half - &one,
        half.clone(),
        &half + &one,
        &half + BigUint::from(2u32),
        p - BigUint::from(2u32),
        p - &one,
    ];
    for k in [8usize, 31, 32, 33, 63, 64, 65, 127, 128, 252, 253, 254, 255, 256] {
        let x = BigUint::one() << k;
        for y in [&x - &one, x.clone(), &x + &one] {
            if &y < p {
                v.push(y);
            }
        }
    }
    v.sort();
    v.dedup();
    v
}

/// Shift counts of interest (all kept <= 2^20 in-process, plus the wrap side).
fn shift_counts(p: &BigUint) -> Vec<BigUint> {
    let bits = p.bits();
    let half = p >> 1usize;
    let mut v: Vec<BigUint> = (0..=bits + 2).map(BigUint::from).collect();
    v.push(BigUint::from(1u32 << 16));
    v.push(BigUint::from(1u32 << 20));
    v.push(&half + BigUint::one());
    v.push(&half + BigUint::from(2u32));
    for k in 1..=bits + 2 {
        v.push(p - BigUint::from(k));
    }
    v.push(p - BigUint::from(1u32 << 16));
    v.retain(|x| x < p);
    v.sort();
    v.dedup();
    v
}

fn decode_elem(t: &mut Tape, p: &BigUint, boundary: &[BigUint]) -> BigUint {
    match t.below(4) {
        0 => boundary[t.below(boundary.len())].clone(),
        1 => {
            // boundary +- small delta
            let b = &boundary[t.below(boundary.len())];
            let d = BigUint::from(t.below(5) as u32);
            if t.chance(128) {
                (b + d) % p
            } else {
                ((b + p) - d) % p
            }
        }
        2 => BigUint::from(t.u64() >> (t.below(64) as u32)) % p,
        _ => {
            let mut bytes = [0u8; 33];
            for b in bytes.iter_mut() {
                *b = t.byte();
            }
            BigUint::from_bytes_le(&bytes) % p
        }
    }
}

/// Set by the pow probes of `run` when `a ** k` with a large exponent does not return in a subprocess.
static POW_UNBOUNDED: std::sync::atomic::AtomicBool = std::sync::atomic::AtomicBool::new(false);

pub fn real_prime_case(tape: &[u8], rec: &Rec) -> Verdict {
    let mut t = Tape::new(tape);
    let primes = field::curve_primes();
    let (pname, p) = &primes[t.below(3)];
    let boundary = boundary_values(p);
    let bp = to_int(p);
    let a = decode_elem(&mut t, p, &boundary);
    let half = p >> 1usize;
    if t.chance(40) {
        let uop = ALL_UNOPS[t.below(3)];
        let got = impl_unary(uop, &to_int(&a), &bp);
        rec.class(&format!("real:{uop:?}"));
        if a > half {
            rec.nontrivial(fnv(format!("{pname}/{uop:?}/{a}").as_bytes()));
        }
        rec.sample(|| json!({"prime": pname, "op": uop.symbol(), "a": a.to_string(), "got": show(&got)}));
        return judge_unary(uop, &a, p, &got);
    }
    let op = ALL_OPS[t.below(ALL_OPS.len())];
    let b = match op {
        Op::ShiftL | Op::ShiftR if t.chance(200) => {
            let sc = shift_counts(p);
            sc[t.below(sc.len())].clone()
        }
        Op::Pow if t.chance(128) => BigUint::from(t.below(600) as u32),
        _ => decode_elem(&mut t, p, &boundary),
    };
    // In-process shift counts are capped: counts in (2^22, p/2] (either
    // direction) are exercised by the bounded subprocess probe instead.
    if matches!(op, Op::ShiftL | Op::ShiftR) {
        let k = if b <= half { b.clone() } else { p - &b };
        if k > BigUint::from(1u32 << 22) {
            rec.class("real:shift_deferred_to_probe");
            return Ok(());
        }
    }
    if op == Op::Pow && POW_UNBOUNDED.load(std::sync::atomic::Ordering::Relaxed) && b > BigUint::from(1u32 << 16) {
        // the subprocess probes of this run found that large exponents do not return (reported as
        // a violation): evaluating them in-process would only block the rest of the run
        rec.class("real:pow_skipped_after_unbounded_probe");
        return Ok(());
    }
    let got = impl_binary(op, &to_int(&a), &to_int(&b), &bp);
    rec.class(&format!("real:{op:?}"));
    let wraps = match field::big_binary(op, &a, &b, p) {
        Ok(_) => match op {
            Op::Add => (&a + &b) >= *p,
            Op::Mul => (&a * &b) >= *p,
            Op::Sub => a < b,
            _ => false,
        },
        Err(_) => true,
    };
    if a > half || b > half || wraps {
        rec.nontrivial(fnv(format!("{pname}/{op:?}/{a}/{b}").as_bytes()));
    }
    rec.sample(|| {
        json!({"prime": pname, "op": op.symbol(), "a": a.to_string(), "b": b.to_string(), "got": show(&got)})
    });
    judge_binary(op, &a, &b, p, &got)
}

/// Entry for the subprocess shift probe: `vcheck C16 --shift-probe <prime idx> <l|r> <a> <k>`.
pub fn shift_probe_main(args: &[String]) -> i32 {
    let primes = field::curve_primes();
    let p = &primes[args[0].parse::<usize>().unwrap()].1;
    let a = BigUint::parse_bytes(args[2].as_bytes(), 10).unwrap();
    let k = BigUint::parse_bytes(args[3].as_bytes(), 10).unwrap();
    let op = match args[1].as_str() {
        "l" => Op::ShiftL,
        "r" => Op::ShiftR,
        _ => Op::Pow,
    };
    let got = impl_binary(op, &to_int(&a), &to_int(&k), &to_int(p));
    match judge_binary(op, &a, &k, p, &got) {
        Ok(()) => {
            println!("PROBE-OK {got:?}");
            0
        }
        Err(b) => {
            println!("PROBE-BAD {}", b.reason);
            3
        }
    }
}

/// Run one shift probe in a subprocess with CPU and address-space limits.
fn shift_probe(ctx: &Ctx, pidx: usize, dir: &str, a: &BigUint, k: &BigUint) -> Verdict {
    use std::os::unix::process::CommandExt;
    use std::process::{Command, Stdio};
    let exe = std::env::current_exe().map_err(|e| Bad::new(format!("INFRA current_exe: {e}")))?;
    let mut cmd = Command::new(exe);
    cmd.args(["C16", "--shift-probe", &pidx.to_string(), dir, &a.to_string(), &k.to_string()])
        .stdout(Stdio::piped())
        .stderr(Stdio::null());
    unsafe {
        cmd.pre_exec(|| {
            let cpu = libc::rlimit { rlim_cur: 20, rlim_max: 20 };
            libc::setrlimit(libc::RLIMIT_CPU, &cpu);
            let mem = libc::rlimit { rlim_cur: 2 << 30, rlim_max: 2 << 30 };
            libc::setrlimit(libc::RLIMIT_AS, &mem);
            let core = libc::rlimit { rlim_cur: 0, rlim_max: 0 };
            libc::setrlimit(libc::RLIMIT_CORE, &core);
            Ok(())
        });
    }
    let out = cmd.output().map_err(|e| Bad::new(format!("INFRA spawn probe: {e}")))?;
    let _ = ctx;
    let stdout = String::from_utf8_lossy(&out.stdout).to_string();
    if out.status.success() && stdout.contains("PROBE-OK") {
        Ok(())
    } else if stdout.contains("PROBE-BAD") {
        Err(Bad::new(format!("probe {a} {dir} {k}: {}", stdout.trim()))
            .sig(if dir == "p" { "C16:pow-probe-value" } else { "C16:shift-probe-value" }))
    } else {
        Err(Bad::new(format!(
            "{a} {} {k} under prime #{pidx} did not return within 20 CPU-seconds / 2 GiB (status {:?})",
            match dir {
                "l" => "<<",
                "r" => ">>",
                _ => "**",
            },
            out.status
        ))
        .sig(if dir == "p" { "C16:pow-unbounded" } else { "C16:shift-unbounded" }))
    }
}

pub fn replay_known(ctx: &Ctx, k: &Known) -> Verdict {
    // repro format: "<prime> <op-symbol> <a> [<b>]" (decimal), evaluated in-process,
    // or "probe <pidx> <l|r> <a> <k>".
    let parts: Vec<&str> = k.repro.split_whitespace().collect();
    if parts.first() == Some(&"probe") {
        let a = BigUint::parse_bytes(parts[3].as_bytes(), 10).unwrap();
        let kk = BigUint::parse_bytes(parts[4].as_bytes(), 10).unwrap();
        return shift_probe(ctx, parts[1].parse().unwrap(), parts[2], &a, &kk);
    }
    let p = BigUint::parse_bytes(parts[0].as_bytes(), 10).unwrap();
    let a = BigUint::parse_bytes(parts[2].as_bytes(), 10).unwrap();
    if parts.len() == 3 {
        let uop = *ALL_UNOPS.iter().find(|o| o.symbol() == parts[1]).unwrap();
        let got = impl_unary(uop, &to_int(&a), &to_int(&p));
        judge_unary(uop, &a, &p, &got)
    } else {
        let b = BigUint::parse_bytes(parts[3].as_bytes(), 10).unwrap();
        let op = *ALL_OPS.iter().find(|o| o.symbol() == parts[1]).unwrap();
        let got = impl_binary(op, &to_int(&a), &to_int(&b), &to_int(&p));
        judge_binary(op, &a, &b, &p, &got)
    }
}

pub fn replay(ctx: &Ctx, check: &str, tape: &[u8]) -> Verdict {
    let stats = Stats::new();
    let rec = Rec::new(&stats, false);
    match check {
        "real_primes" | "fuzz_field_ops" => real_prime_case(tape, &rec),
        "small_exhaustive" => {
            let p = String::from_utf8_lossy(tape).trim().parse::<u128>().unwrap_or(3);
            exhaustive_small(p, &stats)
        }
        "shift_probe" => {
            let s = String::from_utf8_lossy(tape).to_string();
            let parts: Vec<&str> = s.split_whitespace().collect();
            let a = BigUint::parse_bytes(parts[2].as_bytes(), 10).unwrap();
            let k = BigUint::parse_bytes(parts[3].as_bytes(), 10).unwrap();
            shift_probe(ctx, parts[0].parse().unwrap(), parts[1], &a, &k)
        }
        _ => Err(Bad::new(format!("unknown check {check}"))),
    }
}

pub fn run(ctx: &Ctx) -> i32 {
    let start = Instant::now();
    let stats = Stats::new();
    let mut outcome = Outcome::new();
    let known = load_known("C16");

    match field::self_check() {
        Ok(n) => stats.class_n("reference_cross_check_evaluations", n),
        Err(e) => {
            eprintln!("INFRA: reference self check failed: {e}");
            return 2;
        }
    }
    for k in &known {
        let r = replay_known(ctx, k);
        outcome.known_replay(k, r);
    }

    // 0. Boundedness of `**` with large exponents (subprocess probes, before anything evaluates
    //    such exponents in-process): the result is compared with the reference as well.
    let mut pow_probes: Vec<(usize, &'static str, BigUint, BigUint)> = Vec::new();
    for (pidx, (_, p)) in field::curve_primes().iter().enumerate() {
        let mut exps: Vec<BigUint> = vec![
            BigUint::from(10_000_000u64),
            BigUint::from(1u64 << 32),
            BigUint::from(3_000_000_000u64),
            BigUint::from(u64::MAX),
            BigUint::from(u64::MAX) + BigUint::one(),
            p - BigUint::one(),
            p - BigUint::from(2u32),
        ];
        if ctx.tier == Tier::Thorough {
            exps.push(BigUint::from(1u64 << 24));
            exps.push(BigUint::from(1u64 << 48));
            exps.push(p >> 1usize);
            exps.push((p >> 1usize) + BigUint::one());
        }
        exps.retain(|e| e < p);
        for e in exps {
            for a in [BigUint::from(2u32), BigUint::from(3u32), p - BigUint::one(), p - BigUint::from(2u32), (p >> 1usize) + BigUint::one()] {
                pow_probes.push((pidx, "p", a, e.clone()));
            }
        }
    }
    stats.eval(pow_probes.len() as u64);
    stats.class_n("pow_probes_subprocess", pow_probes.len() as u64);
    let fails = run_items(ctx, &pow_probes, |_, (pidx, dir, a, k)| {
        stats.nontrivial(fnv(format!("probe/{pidx}/{dir}/{a}/{k}").as_bytes()));
        shift_probe(ctx, *pidx, dir, a, k)
    });
    if fails.iter().any(|(_, b)| b.signature == "C16:pow-unbounded") {
        POW_UNBOUNDED.store(true, std::sync::atomic::Ordering::Relaxed);
    }
    outcome.absorb(
        &known,
        fails
            .into_iter()
            .map(|(i, b)| {
                let (pidx, dir, a, k) = &pow_probes[i];
                Failure {
                    check: "shift_probe".into(),
                    tape: format!("{pidx} {dir} {a} {k}").into_bytes(),
                    reason: b.reason,
                    signature: b.signature,
                    rendered: String::new(),
                }
            })
            .collect(),
    );

    // 1. Exhaustive small fields.
    let primes: Vec<u128> = match ctx.tier {
        Tier::Quick => SMALL_PRIMES_QUICK.to_vec(),
        Tier::Thorough => {
            let mut v = Vec::new();
            let mut n = 2u128;
            while n <= 1021 {
                if (2..n).take_while(|d| d * d <= n).all(|d| n % d != 0) && n > 2 {
                    v.push(n);
                }
                n += 1;
            }
            v
        }
    };
    let fails = run_items(ctx, &primes, |_, p| exhaustive_small(*p, &stats));
    outcome.absorb(
        &known,
        fails
            .into_iter()
            .map(|(i, b)| Failure {
                check: "small_exhaustive".into(),
                tape: primes[i].to_string().into_bytes(),
                reason: b.reason,
                signature: b.signature,
                rendered: format!("prime {}", primes[i]),
            })
            .collect(),
    );
    stats.sample(json!({"exhaustive_small_primes": primes.iter().map(|p| p.to_string()).collect::<Vec<_>>(),
        "per prime": "all (a, b) in [0,p)^2 x 20 binary operators and all a x 3 unary operators"}));

    // 2. Real primes: boundary x random pairs.
    let cases = ctx.tier.pick(2_000_000, 40_000_000);
    let fails = run_tapes(ctx, "real_primes", cases, 96, &stats, real_prime_case);
    outcome.absorb(&known, fails);

    // 3. Boundedness of large shift counts (subprocess probes).
    let mut probes: Vec<(usize, &'static str, BigUint, BigUint)> = Vec::new();
    for (pidx, (_, p)) in field::curve_primes().iter().enumerate() {
        let half = p >> 1usize;
        let mut counts: Vec<BigUint> = vec![
            BigUint::from(1u64 << 25),
            BigUint::from(100_000_000_000u64),
            BigUint::from(u64::MAX >> 1),
            BigUint::from(u64::MAX),
        ];
        if ctx.tier == Tier::Thorough {
            counts.push(BigUint::from(1u64 << 33));
            counts.push(BigUint::from(1u64 << 48));
            counts.push(half.clone());
            counts.push(p - BigUint::from(1u64 << 40));
            counts.push(p - BigUint::from(100_000_000_000u64));
        }
        counts.retain(|c| c < p);
        for c in counts {
            let c_eff = if c <= half { c.clone() } else { p - &c };
            // Counts that do not fit a usize are rejected up front by the
            // implementation; they are cheap and can run in the same probe.
            let _ = c_eff.to_u64();
            for dir in ["l", "r"] {
                probes.push((pidx, dir, BigUint::one(), c.clone()));
                probes.push((pidx, dir, p - BigUint::one(), c.clone()));
            }
        }
    }
    stats.eval(probes.len() as u64);
    stats.class_n("shift_probes_subprocess", probes.len() as u64);
    let fails = run_items(ctx, &probes, |_, (pidx, dir, a, k)| {
        stats.nontrivial(fnv(format!("probe/{pidx}/{dir}/{a}/{k}").as_bytes()));
        shift_probe(ctx, *pidx, dir, a, k)
    });
    outcome.absorb(
        &known,
        fails
            .into_iter()
            .map(|(i, b)| {
                let (pidx, dir, a, k) = &probes[i];
                Failure {
                    check: "shift_probe".into(),
                    tape: format!("{pidx} {dir} {a} {k}").into_bytes(),
                    reason: b.reason,
                    signature: b.signature,
                    rendered: String::new(),
                }
            })
            .collect(),
    );
    stats.exhaustive.store(false, std::sync::atomic::Ordering::Relaxed);
    let fuzz = fuzz_stage(ctx, &stats, &mut outcome, &known, "field_ops", 8, 300_000, 96, &[], &|a| {
        let st = Stats::new();
        real_prime_case(a, &Rec::new(&st, false))
    });

    finish(
        ctx,
        &stats,
        &outcome,
        EvidenceSpec {
            level: "exploration",
            rule: "every public operation of modular_arithmetic is evaluated and compared with a documentation-derived reference: exhaustively over all operand pairs of the listed small primes (u128 reference), on generated (boundary | boundary±delta | random 64-bit | random 264-bit mod p) operand pairs for the three real primes (BigUint reference), and large shift counts in a CPU/memory-limited subprocess. A case is non-trivial when an operand is above p/2 (negative signed representative), the exact result wraps, or the case is undefined (zero divisor); distinct = distinct (prime, op, operands).",
            assumptions: vec![
                "operands are canonical field elements in [0,p)".into(),
                "reference semantics transcribed from the Circom operator documentation; ~ is the 256-bit complement as circomspect documents it".into(),
                "an error result is accepted for shifts whose effective count exceeds the bit size of p; for zero divisors an error is required".into(),
            ],
            extra: json!({"small_primes_exhaustive": primes.iter().map(|p| *p as u64).collect::<Vec<_>>(), "exhaustive_part": "small prime fields are enumerated completely; real primes are sampled", "coverage_guided_stage": fuzz}),
        },
        start,
    )
}

fn show(g: &Got) -> String {
    match g {
        Got::Val(v) => v.to_string(),
        Got::Err => "error".into(),
        Got::Panic(m) => format!("panic: {m}"),
    }
}
