pub mod c01;
pub mod c02;
pub mod c03;
pub mod c04;
pub mod c05;
pub mod c06;
pub mod c07;
pub mod c08;
pub mod c09;
pub mod c10;
pub mod c11;
pub mod c12;
pub mod c13;
pub mod c14;
pub mod c15;
pub mod c17;
pub mod c18;
pub mod c19;
pub mod c20;
pub mod cfcase;
pub mod semcase;
pub mod c16;

use crate::engine::*;
use std::path::Path;

pub fn run(ctx: &Ctx) -> i32 {
    match ctx.id.as_str() {
        "C01" => c01::run(ctx),
        "C02" => c02::run(ctx),
        "C03" => c03::run(ctx),
        "C04" => c04::run(ctx),
        "C05" => c05::run(ctx),
        "C06" => c06::run(ctx),
        "C07" => c07::run(ctx),
        "C08" => c08::run(ctx),
        "C09" => c09::run(ctx),
        "C10" => c10::run(ctx),
        "C11" => c11::run(ctx),
        "C12" => c12::run(ctx),
        "C13" => c13::run(ctx),
        "C14" => c14::run(ctx),
        "C15" => c15::run(ctx),
        "C16" => c16::run(ctx),
        "C17" => c17::run(ctx),
        "C18" => c18::run(ctx),
        "C19" => c19::run(ctx),
        "C20" => c20::run(ctx),
        other => {
            eprintln!("unknown property {other}");
            2
        }
    }
}

/// Replay a file written by a violation (bypasses proptest: the saved tape is decoded directly).
pub fn replay(ctx: &Ctx, path: &Path) -> i32 {
    let text = match std::fs::read_to_string(path) {
        Ok(t) => t,
        Err(e) => {
            eprintln!("cannot read {}: {e}", path.display());
            return 2;
        }
    };
    let v: serde_json::Value = match serde_json::from_str(&text) {
        Ok(v) => v,
        Err(e) => {
            eprintln!("replay file does not parse: {e}");
            return 2;
        }
    };
    let check = v["check"].as_str().unwrap_or("").to_string();
    let check = check.split('@').next().unwrap_or("").to_string();
    let tape = unhex(v["tape_hex"].as_str().unwrap_or(""));
    let r = match ctx.id.as_str() {
        "C01" => c01::replay(ctx, &check, &tape),
        "C02" => c02::replay(ctx, &check, &tape),
        "C03" => c03::replay(ctx, &check, &tape),
        "C04" => c04::replay(ctx, &check, &tape),
        "C05" => c05::replay(ctx, &check, &tape),
        "C06" => c06::replay(ctx, &check, &tape),
        "C07" => c07::replay(ctx, &check, &tape),
        "C08" => c08::replay(ctx, &check, &tape),
        "C09" => c09::replay(ctx, &check, &tape),
        "C10" => c10::replay(ctx, &check, &tape),
        "C11" => c11::replay(ctx, &check, &tape),
        "C12" => c12::replay(ctx, &check, &tape),
        "C13" => c13::replay(ctx, &check, &tape),
        "C14" => c14::replay(ctx, &check, &tape),
        "C15" => c15::replay(ctx, &check, &tape),
        "C16" => c16::replay(ctx, &check, &tape),
        "C17" => c17::replay(ctx, &check, &tape),
        "C18" => c18::replay(ctx, &check, &tape),
        "C19" => c19::replay(ctx, &check, &tape),
        "C20" => c20::replay(ctx, &check, &tape),
        other => {
            eprintln!("unknown property {other}");
            return 2;
        }
    };
    match r {
        Ok(()) => {
            println!("replay passed: property {} holds on {}", ctx.id, path.display());
            0
        }
        Err(b) => {
            println!("VIOLATION property={} replay={}", ctx.id, path.display());
            println!("  reason={}", b.reason.replace('\n', " | "));
            if !b.rendered.is_empty() {
                println!("{}", b.rendered);
            }
            1
        }
    }
}

pub fn gen_debug(kind: &str, tape: &[u8]) -> String {
    use crate::gen;
    let mut t = Tape::new(tape);
    match kind {
        "commented" => gen::text::commented_program(&mut t).with_comments(),
        "cf" => {
            let mut ids = gen::ast::Ids::default();
            let template = t.chance(128);
            let d = gen::prog::gen_def(&mut t, &gen::prog::Profile::cf(template), &mut ids, "F");
            gen::print::render_plain(&gen::print::print_def(&d, false)).src
        }
        _ => {
            let f = gen::full::small_file(&mut t);
            gen::print::render_plain(&gen::print::print_file(&f, false)).src
        }
    }
}
