//! C13 — the CFG contains every source execution, statement by statement.

use super::cfcase::*;
use crate::engine::*;
use crate::gen::walk::{Event, EvNode, Walker};
use crate::irmatch::{describe_event, event_matches};
use program_structure::cfg::Cfg;
use program_structure::ir;
use serde_json::json;
use std::time::Instant;

/// Decision oracle from a bit stream; loops are forced to exit after `loop_budget` iterations in total.
pub struct Decider {
    bits: Vec<u8>,
    pos: usize,
    pub loop_budget: usize,
    pub bias_true: u8,
}

impl Decider {
    pub fn new(bits: Vec<u8>, loop_budget: usize, bias_true: u8) -> Decider {
        Decider { bits, pos: 0, loop_budget, bias_true }
    }
    pub fn decide(&mut self, is_loop: bool) -> bool {
        let b = self.bits.get(self.pos).copied().unwrap_or(0);
        self.pos += 1;
        let d = b < self.bias_true;
        if is_loop {
            if d && self.loop_budget > 0 {
                self.loop_budget -= 1;
                true
            } else {
                false
            }
        } else {
            d
        }
    }
}

pub fn ast_events<'a>(c: &'a CfCase, bits: Vec<u8>, loop_budget: usize, bias: u8) -> (Vec<Event<'a>>, bool) {
    let mut dec = Decider::new(bits, loop_budget, bias);
    let mut w = Walker::new(&c.r, |l| dec.decide(l), 600);
    w.stmt(&c.def.body);
    let overflow = w.overflow;
    (w.events, overflow)
}

/// Walk the CFG following the decisions recorded in the AST events; compare event by event.
pub fn compare_walk(cfg: &Cfg, c: &CfCase, events: &[Event], ssa: bool) -> Verdict {
    compare_walk_with(cfg, c, events, ssa, &mut |_, _, _| Ok(()))
}

/// As `compare_walk`; `hook(block, predecessor, statement)` is called for every statement the
/// graph walk executes (phi statements included), in order.
pub fn compare_walk_with(
    cfg: &Cfg,
    c: &CfCase,
    events: &[Event],
    ssa: bool,
    hook: &mut dyn FnMut(usize, Option<usize>, &ir::Statement) -> Verdict,
) -> Verdict {
    let fail = |sig: &str, msg: String| {
        Err(Bad::new(msg).sig(format!("C13:{sig}")).rendered(format!("{}\n--- CFG ---\n{}", c.r.src, dump_cfg(cfg))))
    };
    // the counter of a `for`: its condition and its step name one variable, whatever the body declares
    // (the step is not part of the body's block)
    let mut step_of: std::collections::HashMap<crate::gen::ast::Id, crate::gen::ast::Id> = std::collections::HashMap::new();
    c.def.body.walk(&mut |s| {
        if let crate::gen::ast::Stmt::For { id, step, .. } = s {
            step_of.insert(step.id(), *id);
        }
    });
    let mut counter_seen: std::collections::HashMap<crate::gen::ast::Id, String> = std::collections::HashMap::new();
    let full = |v: &ir::VariableName| format!("{}{}", v.name(), v.suffix().as_ref().map(|s| format!("_{s}")).unwrap_or_default());
    let mut block = 0usize;
    let mut pred: Option<usize> = None;
    let mut k = 0usize; // next AST event
    let mut steps = 0usize;
    'outer: loop {
        steps += 1;
        if steps > 5000 {
            return fail("walk-too-long", "CFG walk did not make progress".into());
        }
        let Some(b) = cfg.get_basic_block(block) else {
            return fail("bad-block", format!("walk reached non-existing block {block}"));
        };
        let mut branch: Option<(usize, Option<usize>, bool)> = None;
        for st in b.statements() {
            if ssa && matches!(st, ir::Statement::Substitution { rhe: ir::Expression::Phi { .. }, .. }) {
                hook(block, pred, st)?;
                continue;
            }
            if k >= events.len() {
                break 'outer;
            }
            hook(block, pred, st)?;
            let ev = &events[k];
            let m = stmt_meta(st);
            if (m.start(), m.end()) != ev.span || !event_matches(&ev.node, st) {
                return fail(
                    "order",
                    format!(
                        "step {k}: the source executes {} at bytes {}..{} (`{}`), the graph walk meets `{:?}` at {}..{} in block {block}",
                        describe_event(&ev.node),
                        ev.span.0,
                        ev.span.1,
                        c.r.src.get(ev.span.0..ev.span.1).unwrap_or("?"),
                        st,
                        m.start(),
                        m.end()
                    ),
                );
            }
            match &ev.node {
                EvNode::Cond(crate::gen::ast::Stmt::For { id, cond: crate::gen::ast::Expr::Infix { l, .. }, .. }, _) => {
                    if let (crate::gen::ast::Expr::Var { name, .. }, ir::Statement::IfThenElse { cond: ir::Expression::InfixOp { lhe, .. }, .. }) = (&**l, st) {
                        if let ir::Expression::Variable { name: v, .. } = &**lhe {
                            if v.name() == name {
                                counter_seen.insert(*id, full(v));
                            }
                        }
                    }
                }
                EvNode::Assign(s) => {
                    if let (Some(for_id), ir::Statement::Substitution { var, .. }) = (step_of.get(&s.id()), st) {
                        if let Some(seen) = counter_seen.get(for_id) {
                            if *seen != full(var) {
                                return fail(
                                    "for-step-binds-another-variable",
                                    format!(
                                        "step {k}: the step `{}` of a `for` assigns `{}`, the loop's condition reads `{seen}`: the step is not inside the scope of the loop body",
                                        c.r.src.get(ev.span.0..ev.span.1).unwrap_or("?"),
                                        full(var)
                                    ),
                                );
                            }
                        }
                    }
                }
                _ => {}
            }
            k += 1;
            if let ir::Statement::IfThenElse { true_index, false_index, .. } = st {
                branch = Some((*true_index, *false_index, ev.decision.unwrap_or(false)));
            }
            if matches!(ev.node, EvNode::Simple(crate::gen::ast::Stmt::Return { .. })) {
                // the source execution ends here; the graph may go on
                break 'outer;
            }
        }
        if k >= events.len() {
            break;
        }
        // next block
        let next = match branch {
            Some((t, f, decision)) => {
                if decision {
                    Some(t)
                } else {
                    match f {
                        Some(f) => Some(f),
                        None => {
                            // the other successor, if any
                            let others: Vec<usize> = b.successors().iter().copied().filter(|s| *s != t).collect();
                            match others.len() {
                                0 => None,
                                1 => Some(others[0]),
                                _ => {
                                    return fail("ambiguous-false-edge", format!("block {block}: no false target and several other successors {others:?}"))
                                }
                            }
                        }
                    }
                }
            }
            None => {
                let s: Vec<usize> = b.successors().iter().copied().collect();
                match s.len() {
                    0 => None,
                    1 => Some(s[0]),
                    _ => return fail("fallthrough-ambiguous", format!("block {block} has no branch but successors {s:?}")),
                }
            }
        };
        match next {
            Some(nb) => {
                pred = Some(block);
                block = nb
            }
            None => {
                let ev = &events[k];
                return fail(
                    "graph-ends-early",
                    format!(
                        "the graph walk ends after block {block} but the source still executes {} at {}..{}",
                        describe_event(&ev.node),
                        ev.span.0,
                        ev.span.1
                    ),
                );
            }
        }
    }
    Ok(())
}

fn case(tape: &[u8], rec: &Rec) -> Verdict {
    let mut t = Tape::new(tape);
    let c = gen_case(&mut t);
    classify(&c.def, rec);
    let cfg = match lift(&c) {
        Lift::Ok(cfg, _) => cfg,
        Lift::Rejected(why) => {
            return Err(Bad::new(format!("generated definition was rejected: {why}")).sig("C13:rejected").rendered(c.r.src.clone()))
        }
        Lift::Panic(p) => return Err(Bad::new(format!("lifting panicked: {p}")).sig("C13:panic").rendered(c.r.src.clone())),
    };
    rec.class("programs");
    let nseq = 16;
    for s in 0..nseq {
        let bits: Vec<u8> = (0..200).map(|_| t.byte()).collect();
        let bias = [128u8, 200, 60, 255, 0, 128, 230, 30][s % 8];
        let (events, overflow) = ast_events(&c, bits, 6, bias);
        if overflow {
            rec.class("walk_truncated_at_event_cap");
        }
        let back = events.iter().filter(|e| e.is_loop && e.decision == Some(true)).count();
        let falses = events.iter().filter(|e| e.decision == Some(false)).count();
        rec.class("decision_sequences");
        rec.class_n("events_compared", events.len() as u64);
        if back >= 1 && falses >= 1 {
            rec.nontrivial(fnv(format!("{}/{:?}", c.r.src, events.iter().map(|e| e.decision).collect::<Vec<_>>()).as_bytes()));
        }
        if s == 0 {
            rec.sample(|| {
                json!({"definition": c.r.src, "decisions": events.iter().filter_map(|e| e.decision).collect::<Vec<_>>(),
                    "events": events.iter().map(|e| describe_event(&e.node)).collect::<Vec<_>>()})
            });
        }
        compare_walk(&cfg, &c, &events, false)?;
        rec.class("disagreements_checked");
    }
    Ok(())
}

pub fn replay(_ctx: &Ctx, check: &str, tape: &[u8]) -> Verdict {
    let stats = Stats::new();
    let rec = Rec::new(&stats, false);
    match check {
        "ast_vs_cfg_walk" => case(tape, &rec),
        _ => Err(Bad::new(format!("unknown check {check}"))),
    }
}

pub fn run(ctx: &Ctx) -> i32 {
    let start = Instant::now();
    let stats = Stats::new();
    let mut outcome = Outcome::new();
    let known = load_known("C13");
    let fails = run_tapes(ctx, "ast_vs_cfg_walk", ctx.tier.pick(30_000, 400_000), 4000, &stats, case);
    outcome.absorb(&known, fails);
    let programs = stats.class_count("programs");
    let seqs = stats.class_count("decision_sequences");
    finish(
        ctx,
        &stats,
        &outcome,
        EvidenceSpec {
            level: "translation_validation",
            rule: "each generated definition (control-flow profile) is lifted with into_cfg; for 16 decision sequences (random bits with 8 different biases, loops forced to exit after 6 iterations in total) the generator AST is walked as structured code (for = init/cond/body/step, compound assignments and ++/-- as single substitutions, stop at the first return) and the graph is walked from block 0 taking true_index / false_index (or the only other successor) by the same decisions; the two statement sequences must agree step by step on source span, statement kind, assigned variable and the full expression structure. In addition the step of every `for` must assign the very variable (name and uniquifying suffix) that the loop's condition reads, whatever the body declares. Non-trivial = a walk that takes at least one back edge and one false edge; distinct by (source, decision vector).",
            assumptions: vec![
                "the walk compares the pre-SSA graph; names are compared without the uniquifying suffix (C10 checks suffixes), except for the counter of a `for` in its condition and step".into(),
                "AST sequence must be a prefix of the CFG sequence (the graph may continue after a return)".into(),
            ],
            extra: json!({"programs": programs, "decision_sequences": seqs, "evaluations_are": "generated definitions; each is validated under 16 decision sequences"}),
        },
        start,
    )
}
