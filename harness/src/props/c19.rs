//! C19 — includes: each file once, cycles terminate, only named files reported on.

use crate::binrun::{self, RunOpts};
use crate::engine::*;
use serde_json::json;
use std::collections::{BTreeMap, BTreeSet};
use std::path::{Path, PathBuf};
use std::time::Instant;

const DIRS: [&str; 5] = ["", "sub", "sub/deep", "lib", "lib2"];
const EXTRA_DIRS: [&str; 2] = ["lib/deep", "lib2/deep"];

#[derive(Clone, Debug)]
struct FileSpec {
    /// path relative to the project root
    rel: String,
    includes: Vec<String>,
    templates: Vec<String>,
    functions: Vec<String>,
    /// the first template instantiates a template of an included file (when an include resolves)
    uses_included: bool,
    /// 0 = `pragma circom 2.0.0`, 1 = a version newer than the tool supports (an error, after which the
    /// file's includes and definitions still count), 2 = no pragma (a warning)
    pragma: u8,
}

#[derive(Clone, Debug)]
struct Proj {
    files: Vec<FileSpec>,
    /// (link path relative to root, target index)
    symlinks: Vec<(String, usize)>,
    /// indices of files named on the command line and how they are spelled
    named: Vec<(usize, String)>,
    /// -L arguments (relative to root)
    libs: Vec<String>,
    absolute_args: bool,
    /// directories named on the command line: every `.circom` file below them is a named file
    named_dirs: Vec<String>,
}

fn dir_of(rel: &str) -> &str {
    match rel.rfind('/') {
        Some(i) => &rel[..i],
        None => "",
    }
}

/// Relative path from directory `from` to file `to` (both relative to the root).
fn relpath(from: &str, to: &str) -> String {
    let f: Vec<&str> = from.split('/').filter(|s| !s.is_empty()).collect();
    let t: Vec<&str> = to.split('/').filter(|s| !s.is_empty()).collect();
    let mut i = 0;
    while i < f.len() && i + 1 < t.len() && f[i] == t[i] {
        i += 1;
    }
    let mut parts: Vec<String> = Vec::new();
    for _ in i..f.len() {
        parts.push("..".into());
    }
    for p in &t[i..] {
        parts.push(p.to_string());
    }
    parts.join("/")
}

fn gen_proj(t: &mut Tape) -> Proj {
    let n = 2 + t.below(5);
    let mut files: Vec<FileSpec> = Vec::new();
    for i in 0..n {
        let d = DIRS[t.below(DIRS.len())];
        // a third of the files reuse the base name of an earlier file in another directory, so that one
        // include text can mean different files from different places (sibling first, then the libraries)
        // include targets need not be called `*.circom` (only files named on the command line do)
        let ext = match if i == 0 { 9 } else { t.below(10) } {
            0 => ".inc",
            1 => ".txt",
            2 => "",
            _ => ".circom",
        };
        let mut base = format!("f{i}{ext}");
        if i > 0 && t.chance(85) {
            let other: &FileSpec = &files[t.below(i)];
            let b = other.rel.rsplit('/').next().unwrap_or("").to_string();
            let candidate = if d.is_empty() { b.clone() } else { format!("{d}/{b}") };
            if !files.iter().any(|f| f.rel == candidate) {
                base = b;
            }
        }
        let rel = if d.is_empty() { base } else { format!("{d}/{base}") };
        let nt = 1 + t.below(2);
        let templates = (0..nt).map(|j| format!("T{i}x{j}")).collect();
        let functions = if t.chance(80) { vec![format!("g{i}")] } else { vec![] };
        let pragma = match t.below(16) {
            0 | 1 => 1,
            2 => 2,
            _ => 0,
        };
        let uses_included = t.chance(128);
        files.push(FileSpec { rel, includes: vec![], templates, functions, pragma, uses_included });
    }
    let mut symlinks = Vec::new();
    if t.chance(80) {
        let target = t.below(n);
        symlinks.push((format!("link{}.circom", symlinks.len()), target));
    }
    // libraries
    let mut libs = Vec::new();
    if t.chance(170) {
        libs.push("lib".to_string());
    }
    if t.chance(90) {
        libs.push("lib2".to_string());
    }
    if t.chance(60) {
        let j = t.below(n);
        libs.push(files[j].rel.clone());
    }
    if t.chance(40) {
        libs.reverse();
    }
    // includes
    for i in 0..n {
        let k = t.below(4);
        for _ in 0..k {
            let from_dir = dir_of(&files[i].rel).to_string();
            let spelled = match t.below(13) {
                0 => "nope.circom".to_string(),
                12 => {
                    // a dot-relative spelling of the bare name of some file: resolves only if that file
                    // happens to sit there (such spellings never go through the libraries)
                    let j = t.below(n);
                    let bare = files[j].rel.rsplit('/').next().unwrap_or("").to_string();
                    if t.chance(128) {
                        format!("../{bare}")
                    } else {
                        format!("./{bare}")
                    }
                }
                1 if !symlinks.is_empty() => relpath(&from_dir, &symlinks[0].0),
                _ => {
                    let j = t.below(n); // may be i itself (self include)
                    let target = files[j].rel.clone();
                    let tdir = dir_of(&target);
                    let base = relpath(&from_dir, &target);
                    match t.below(6) {
                        0 => format!("./{base}"),
                        1 => {
                            // detour through an existing directory
                            if from_dir.is_empty() {
                                format!("sub/../{base}")
                            } else {
                                format!("../{}/{}", from_dir.rsplit('/').next().unwrap_or(""), base)
                            }
                        }
                        2 | 3 if tdir == "lib" || tdir == "lib2" || libs.contains(&target) => {
                            // bare name, to be found through -L (directory or file); below a library
                            // directory also through a detour that needs canonicalisation
                            let bare = target.rsplit('/').next().unwrap_or("").to_string();
                            if (tdir == "lib" || tdir == "lib2") && t.chance(90) {
                                format!("deep/../{bare}")
                            } else {
                                bare
                            }
                        }
                        _ => base,
                    }
                }
            };
            files[i].includes.push(spelled);
        }
    }
    // A file name that means two different files: `lib/zs.circom` (found through -L lib from a file that
    // has no sibling of that name) and `sub/zs.circom` (the sibling of `sub/zb.circom`, which includes it
    // by the same text). The includer of the library copy is parsed first.
    let mut shadow_includer: Option<usize> = None;
    if libs.iter().any(|l| l == "lib") && t.chance(70) {
        let base = files.len();
        files.push(FileSpec { rel: "lib/zs.circom".into(), includes: vec![], templates: vec![format!("T{base}x0")], functions: vec![], pragma: 0, uses_included: false });
        files.push(FileSpec { rel: "sub/zs.circom".into(), includes: vec![], templates: vec![format!("T{}x0", base + 1)], functions: vec![], pragma: 0, uses_included: false });
        files.push(FileSpec { rel: "sub/zb.circom".into(), includes: vec!["zs.circom".into()], templates: vec![format!("T{}x0", base + 2)], functions: vec![], pragma: 0, uses_included: false });
        let mut inc = vec!["zs.circom".to_string(), "sub/zb.circom".to_string()];
        if t.chance(128) {
            inc.reverse();
        }
        files.push(FileSpec { rel: "za.circom".into(), includes: inc, templates: vec![format!("T{}x0", base + 3)], functions: vec![], pragma: 0, uses_included: false });
        shadow_includer = Some(base + 3);
    }
    // A cycle whose edges all resolve through the library directory: `lib/deep/zc1.circom` and
    // `lib/deep/zc2.circom` include each other as `deep/zc?.circom` (no such path next to them), and a
    // named file in the root reaches them the same way.
    let mut cycle_entry: Option<usize> = None;
    if libs.iter().any(|l| l == "lib") && t.chance(60) {
        let base = files.len();
        let spec = |rel: &str, inc: &str, k: usize| FileSpec {
            rel: rel.into(),
            includes: vec![inc.into()],
            templates: vec![format!("T{k}x0")],
            functions: vec![],
            pragma: 0,
            uses_included: false,
        };
        files.push(spec("lib/deep/zc1.circom", "deep/zc2.circom", base));
        files.push(spec("lib/deep/zc2.circom", "deep/zc1.circom", base + 1));
        files.push(spec("zcm.circom", "deep/zc1.circom", base + 2));
        cycle_entry = Some(base + 2);
    }
    let n = files.len();
    // named files
    let mut named = Vec::new();
    let k = 1 + t.below(2.min(n));
    let mut seen = BTreeSet::new();
    for _ in 0..k {
        let mut j = t.below(n);
        if !files[j].rel.ends_with(".circom") {
            // (a named path with another extension is ignored by the tool; take the next `.circom` file)
            match (0..n).map(|d| (j + d) % n).find(|x| files[*x].rel.ends_with(".circom")) {
                Some(x) => j = x,
                None => continue,
            }
        }
        if seen.insert(j) {
            let spelled = match t.below(4) {
                0 => format!("./{}", files[j].rel),
                1 if !symlinks.is_empty() && symlinks[0].1 == j => symlinks[0].0.clone(),
                _ => files[j].rel.clone(),
            };
            named.push((j, spelled));
        }
    }
    if let Some(a) = shadow_includer {
        if !named.iter().any(|(j, _)| *j == a) {
            named.push((a, files[a].rel.clone()));
        }
    }
    if let Some(a) = cycle_entry {
        if !named.iter().any(|(j, _)| *j == a) {
            named.push((a, files[a].rel.clone()));
        }
    }
    let absolute_args = t.chance(100);
    // a directory as argument (alone or next to files): "." is the whole project
    let mut named_dirs = Vec::new();
    if t.chance(50) {
        let d = ["sub", "sub/deep", "lib", ".", "lib2"][t.below(5)];
        named_dirs.push(d.to_string());
        if t.chance(128) && shadow_includer.is_none() && cycle_entry.is_none() {
            named.clear();
        }
    }
    Proj { files, symlinks, named, libs, absolute_args, named_dirs }
}

fn file_source(f: &FileSpec, index: usize, uses: Option<usize>) -> String {
    let mut s = String::from(match f.pragma {
        1 => "pragma circom 2.1.9;\n",
        2 => "// no pragma\n",
        _ => "pragma circom 2.0.0;\n",
    });
    for inc in &f.includes {
        s.push_str(&format!("include \"{inc}\";\n"));
    }
    for g in &f.functions {
        s.push_str(&format!("function {g}(x) {{\n    return x + 1;\n}}\n"));
    }
    for (k, t) in f.templates.iter().enumerate() {
        // the first template instantiates the sugared template of a file this one includes
        let inst = match uses {
            Some(j) if k == 0 => format!("    component zc = S{j}();\n    zc.a <== a;\n"),
            _ => String::new(),
        };
        s.push_str(&format!(
            "template {t}() {{\n    signal input a;\n    signal output b;\n{inst}    b <-- a;\n    b === a;\n}}\n"
        ));
    }
    // a template written with an anonymous component, for the files that include this one
    s.push_str(&format!(
        "template S{index}() {{\n    signal input a;\n    signal output b;\n    b <== I{index}()(a);\n}}\ntemplate I{index}() {{\n    signal input i;\n    signal output o;\n    o <== i;\n}}\n"
    ));
    s
}

fn materialise(root: &Path, p: &Proj) -> Result<(), Bad> {
    for d in DIRS.iter().chain(EXTRA_DIRS.iter()) {
        std::fs::create_dir_all(root.join(d)).map_err(|e| Bad::new(format!("INFRA mkdir: {e}")))?;
    }
    for (i, f) in p.files.iter().enumerate() {
        std::fs::write(root.join(&f.rel), file_source(f, i, None)).map_err(|e| Bad::new(format!("INFRA write: {e}")))?;
    }
    for (link, target) in &p.symlinks {
        let _ = std::os::unix::fs::symlink(root.join(&p.files[*target].rel), root.join(link));
    }
    // second phase (resolution depends on paths only): the first template of a file instantiates the
    // sugared template of the first file one of its includes resolves to
    let canon: BTreeMap<PathBuf, usize> =
        p.files.iter().enumerate().filter_map(|(i, f)| std::fs::canonicalize(root.join(&f.rel)).ok().map(|c| (c, i))).collect();
    for (i, f) in p.files.iter().enumerate() {
        let Ok(me) = std::fs::canonicalize(root.join(&f.rel)) else { continue };
        let uses = f.includes.iter().filter_map(|inc| resolve_include(root, &me, inc, &p.libs)).filter_map(|c| canon.get(&c).copied()).find(|j| *j != i);
        if uses.is_some() && f.uses_included {
            std::fs::write(root.join(&f.rel), file_source(f, i, uses)).map_err(|e| Bad::new(format!("INFRA write: {e}")))?;
        }
    }
    Ok(())
}

/// Reference include resolution on the materialised project.
fn resolve_include(root: &Path, includer: &Path, inc: &str, libs: &[String]) -> Option<PathBuf> {
    let dir = includer.parent().unwrap_or(root);
    if let Ok(c) = std::fs::canonicalize(dir.join(inc)) {
        return Some(c);
    }
    for l in libs {
        let lp = root.join(l);
        if lp.is_dir() {
            if inc.starts_with('.') {
                continue;
            }
            if let Ok(c) = std::fs::canonicalize(lp.join(inc)) {
                return Some(c);
            }
        } else if lp.extension().map(|e| e == "circom").unwrap_or(false) {
            if !inc.contains('/') {
                if let Ok(c) = std::fs::canonicalize(&lp) {
                    if c.file_name().map(|n| n.to_string_lossy() == inc).unwrap_or(false) {
                        return Some(c);
                    }
                }
            }
        }
    }
    None
}

struct Expected {
    /// canonical paths that must be read exactly once
    reads: BTreeSet<PathBuf>,
    /// canonical paths of named files
    named: BTreeSet<PathBuf>,
    /// definitions of named files
    analysed: BTreeSet<String>,
    /// (includer canonical path, include spelling) that cannot be resolved, for named includers
    unresolved_in_named: Vec<(PathBuf, String)>,
    has_cycle_or_diamond: bool,
}

fn expected(root: &Path, p: &Proj) -> Expected {
    let canon: BTreeMap<PathBuf, usize> = p
        .files
        .iter()
        .enumerate()
        .filter_map(|(i, f)| std::fs::canonicalize(root.join(&f.rel)).ok().map(|c| (c, i)))
        .collect();
    let mut named = BTreeSet::new();
    let mut work: Vec<PathBuf> = Vec::new();
    for (_, spelled) in &p.named {
        if let Ok(c) = std::fs::canonicalize(root.join(spelled)) {
            named.insert(c.clone());
            work.push(c);
        }
    }
    for d in &p.named_dirs {
        let mut dirs = vec![root.join(d)];
        while let Some(dir) = dirs.pop() {
            let Ok(entries) = std::fs::read_dir(&dir) else { continue };
            for e in entries.flatten() {
                let path = e.path();
                if path.is_dir() {
                    dirs.push(path);
                } else if path.extension().map(|x| x == "circom").unwrap_or(false) {
                    if let Ok(c) = std::fs::canonicalize(&path) {
                        named.insert(c.clone());
                        work.push(c);
                    }
                }
            }
        }
    }
    let mut reads = BTreeSet::new();
    let mut unresolved = Vec::new();
    let mut edges = 0usize;
    while let Some(f) = work.pop() {
        if !reads.insert(f.clone()) {
            continue;
        }
        if let Some(&i) = canon.get(&f) {
            for inc in &p.files[i].includes {
                match resolve_include(root, &f, inc, &p.libs) {
                    Some(target) => {
                        edges += 1;
                        work.push(target);
                    }
                    None => {
                        if named.contains(&f) {
                            unresolved.push((f.clone(), inc.clone()));
                        }
                    }
                }
            }
        }
    }
    let mut analysed = BTreeSet::new();
    for f in &named {
        if let Some(&i) = canon.get(f) {
            for t in &p.files[i].templates {
                analysed.insert(format!("analyzing template '{t}'"));
            }
            analysed.insert(format!("analyzing template 'S{i}'"));
            analysed.insert(format!("analyzing template 'I{i}'"));
            for g in &p.files[i].functions {
                analysed.insert(format!("analyzing function '{g}'"));
            }
        }
    }
    let has_cycle_or_diamond = edges + named.len() > reads.len();
    Expected { reads, named, analysed, unresolved_in_named: unresolved, has_cycle_or_diamond }
}

fn check_project(ctx: &Ctx, p: &Proj, rec: &Rec, tag: &str) -> Verdict {
    let root = ctx.scratch.join(format!("{tag}-{:?}", std::thread::current().id()).replace(['(', ')'], ""));
    let _ = std::fs::remove_dir_all(&root);
    let r = check_project_in(ctx, p, rec, &root);
    let _ = std::fs::remove_dir_all(&root);
    r
}

fn check_project_in(ctx: &Ctx, p: &Proj, rec: &Rec, root: &Path) -> Verdict {
    materialise(root, p)?;
    let exp = expected(root, p);
    // arguments are given relative to the project root (the working directory) or absolute
    let arg = |s: &str| if p.absolute_args { root.join(s) } else { PathBuf::from(s) };
    let mut args: Vec<PathBuf> = p.named.iter().map(|(_, s)| arg(s)).collect();
    args.extend(p.named_dirs.iter().map(|d| arg(d)));
    let mut opts = RunOpts::files(&args).verbose().level("info");
    opts.libs = p.libs.iter().map(|l| arg(l)).collect();
    opts.cwd = Some(root.to_path_buf());
    opts.rust_log = Some("circomspect_parser=debug".into());
    opts.cpu_secs = 60;
    let sarif_path = root.join("zz-out.sarif");
    opts.sarif = Some(sarif_path.clone());
    let out = binrun::run(&ctx.repo_bin, &opts).map_err(|e| Bad::new(format!("INFRA {e}")))?;
    let render = || {
        let mut s = format!("named: {:?}\nnamed directories: {:?}\nlibs: {:?}\nsymlinks: {:?}\n", p.named, p.named_dirs, p.libs, p.symlinks);
        for f in &p.files {
            s.push_str(&format!("--- {} (pragma form {}) includes {:?} defines {:?} {:?}\n", f.rel, f.pragma, f.includes, f.templates, f.functions));
        }
        s.push_str(&format!("--- stdout\n{}\n--- stderr (log)\n{}", out.stdout, out.stderr));
        s
    };
    if out.signal.is_some() || !matches!(out.status, Some(0) | Some(1)) || out.stderr.contains("panicked at") {
        return Err(Bad::new(format!("the run did not terminate cleanly: status {:?} signal {:?}", out.status, out.signal))
            .sig("C19:crash")
            .rendered(render()));
    }
    rec.class("projects");
    if exp.has_cycle_or_diamond {
        rec.class("projects_with_cycle_or_diamond");
        rec.nontrivial(fnv(format!("{p:?}").as_bytes()));
    }
    if !p.symlinks.is_empty() {
        rec.class("projects_with_symlink");
    }
    if !p.libs.is_empty() {
        rec.class("projects_with_library_arguments");
    }
    if !p.named_dirs.is_empty() {
        rec.class("projects_with_directory_argument");
    }
    if p.files.iter().any(|f| !f.rel.ends_with(".circom") && std::fs::canonicalize(root.join(&f.rel)).map(|c| exp.reads.contains(&c)).unwrap_or(false)) {
        rec.class("projects_reading_an_included_file_not_called_circom");
    }
    {
        let canon_of = |f: &FileSpec| std::fs::canonicalize(root.join(&f.rel)).ok();
        if p.files.iter().any(|f| f.pragma == 1 && !f.includes.is_empty() && canon_of(f).map(|c| exp.reads.contains(&c)).unwrap_or(false)) {
            rec.class("projects_with_unsupported_pragma_in_a_read_file_that_includes");
        }
    }
    {
        let mut bases: Vec<&str> = p.files.iter().map(|f| f.rel.rsplit('/').next().unwrap_or("")).collect();
        bases.sort();
        let n = bases.len();
        bases.dedup();
        if bases.len() < n {
            rec.class("projects_with_one_file_name_in_several_directories");
        }
        if p.files.iter().any(|f| f.rel == "za.circom") {
            rec.class("projects_with_library_file_shadowed_by_a_sibling");
        }
        if p.files.iter().any(|f| f.rel == "zcm.circom") {
            rec.class("projects_with_a_cycle_through_the_library_directory");
        }
    }
    if p.files.iter().any(|f| f.includes.iter().any(|i| !i.contains('/') || i.contains("/../"))) && !p.libs.is_empty() {
        rec.class("projects_with_bare_or_dotdot_include_and_libraries");
    }
    if !exp.unresolved_in_named.is_empty() {
        rec.class("projects_with_unresolvable_include_in_named_file");
    }
    rec.sample(|| json!({"named": p.named, "libs": p.libs, "files": p.files.iter().map(|f| json!({"path": f.rel, "includes": f.includes})).collect::<Vec<_>>() }));

    // 1. each reachable file is read exactly once
    let mut reads: BTreeMap<PathBuf, usize> = BTreeMap::new();
    for line in out.stderr.lines() {
        if let Some(pos) = line.find("reading file `") {
            let rest = &line[pos + "reading file `".len()..];
            if let Some(end) = rest.rfind('`') {
                let path = root.join(&rest[..end]);
                let c = std::fs::canonicalize(&path).unwrap_or(path);
                *reads.entry(c).or_insert(0) += 1;
            }
        }
    }
    for (path, n) in &reads {
        if *n != 1 {
            return Err(Bad::new(format!("file {} was read {n} times", path.display())).sig("C19:read-twice").rendered(render()));
        }
    }
    let got: BTreeSet<PathBuf> = reads.keys().cloned().collect();
    if got != exp.reads {
        return Err(Bad::new(format!(
            "files read differ from the files reachable through includes: read {:?}, expected {:?}",
            got.iter().map(|p| p.strip_prefix(root).unwrap_or(p).display().to_string()).collect::<Vec<_>>(),
            exp.reads.iter().map(|p| p.strip_prefix(root).unwrap_or(p).display().to_string()).collect::<Vec<_>>()
        ))
        .sig("C19:wrong-file-set")
        .rendered(render()));
    }
    // 2. exactly the definitions of named files are analysed, once each
    let parsed = binrun::parse_stdout(&out.stdout);
    let analysed: Vec<&String> = parsed.log.iter().filter(|l| l.starts_with("analyzing ")).collect();
    let analysed_set: BTreeSet<String> = analysed.iter().map(|s| s.to_string()).collect();
    if analysed.len() != analysed_set.len() {
        return Err(Bad::new(format!("a definition is analysed more than once: {analysed:?}")).sig("C19:analysed-twice").rendered(render()));
    }
    if analysed_set != exp.analysed {
        return Err(Bad::new(format!("definitions analysed {analysed_set:?} differ from the definitions of the named files {:?}", exp.analysed))
            .sig("C19:wrong-definitions-analysed")
            .rendered(render()));
    }
    // 3. findings lie in named files only
    for d in &parsed.diags {
        if let Some((file, _, _)) = &d.loc {
            let c = std::fs::canonicalize(root.join(file)).unwrap_or_else(|_| PathBuf::from(file));
            if !exp.named.contains(&c) {
                return Err(Bad::new(format!("a finding is displayed for {file}, which was only included: {d:?}")).sig("C19:finding-in-included-file").rendered(render()));
            }
        }
    }
    // 3b. the SARIF file of the same run mentions named files only as well
    if let Some(text) = &out.sarif_text {
        let doc = binrun::parse_sarif(text).map_err(|e| Bad::new(e).sig("C19:sarif-parse").rendered(render()))?;
        rec.class("sarif_files_checked");
        for r in &doc.results {
            for (uri, ..) in r.locations.iter().chain(r.related.iter()) {
                let path = uri.trim_start_matches("file://");
                let c = std::fs::canonicalize(root.join(path)).unwrap_or_else(|_| PathBuf::from(path));
                if !exp.named.contains(&c) {
                    return Err(Bad::new(format!("the SARIF file holds a result [{}] located in {path}, which was only included", r.rule_id))
                        .sig("C19:sarif-result-in-included-file")
                        .rendered(render()));
                }
            }
        }
    }
    // 4. every definition of a named file yields its deterministic finding (included ones inform, named ones report)
    let cs5 = parsed.diags.iter().filter(|d| matches!(d.id.as_deref(), Some("CS0005") | Some("CS0013"))).count();
    let expected_cs5 = exp.analysed.iter().filter(|a| a.contains("template 'T")).count();
    if cs5 != expected_cs5 {
        return Err(Bad::new(format!("{cs5} `<--` findings displayed, {expected_cs5} templates in named files")).sig("C19:finding-count").rendered(render()));
    }
    // 5. unresolvable includes in named files give a P1000 error located at the include statement
    let mut p1000: Vec<(PathBuf, usize)> = parsed
        .diags
        .iter()
        .filter(|d| d.id.as_deref() == Some("P1000") && d.severity == "error" && d.message.contains("Failed to open file"))
        .filter_map(|d| d.loc.as_ref().map(|l| (std::fs::canonicalize(root.join(&l.0)).unwrap_or_else(|_| PathBuf::from(&l.0)), l.1)))
        .collect();
    p1000.sort();
    let mut want: Vec<(PathBuf, usize)> = Vec::new();
    for (f, inc) in &exp.unresolved_in_named {
        // line of the include statement in the generated source
        if let Some(&i) = p.files.iter().enumerate().find(|(_, x)| std::fs::canonicalize(root.join(&x.rel)).ok().as_ref() == Some(f)).map(|(i, _)| i).as_ref() {
            for (k, s) in p.files[i].includes.iter().enumerate() {
                if s == inc {
                    want.push((f.clone(), 2 + k));
                }
            }
        }
    }
    want.sort();
    want.dedup();
    p1000.dedup();
    if p1000 != want {
        return Err(Bad::new(format!(
            "include errors are displayed at {:?}, unresolvable include statements of named files are at {:?} (file, line)",
            p1000, want
        ))
        .sig("C19:include-error")
        .rendered(render()));
    }
    Ok(())
}

/// One generated include project run through the binary, nothing checked: for the totality check (C01).
/// Returns the output, the CPU limit used and a description of the project.
pub fn run_generated_project(ctx: &Ctx, tape: &[u8], tag: &str) -> Result<(binrun::RunOut, u64, String), Bad> {
    let mut t = Tape::new(tape);
    let p = gen_proj(&mut t);
    let root = ctx.scratch.join(format!("{tag}-{:?}", std::thread::current().id()).replace(['(', ')'], ""));
    let _ = std::fs::remove_dir_all(&root);
    let res = (|| {
        materialise(&root, &p)?;
        let arg = |s: &str| if p.absolute_args { root.join(s) } else { PathBuf::from(s) };
        let mut args: Vec<PathBuf> = p.named.iter().map(|(_, s)| arg(s)).collect();
        args.extend(p.named_dirs.iter().map(|d| arg(d)));
        let mut opts = RunOpts::files(&args).level(["info", "warning", "error"][t.below(3)]);
        opts.libs = p.libs.iter().map(|l| arg(l)).collect();
        opts.cwd = Some(root.to_path_buf());
        opts.cpu_secs = 30;
        let out = binrun::run(&ctx.repo_bin, &opts).map_err(|e| Bad::new(format!("INFRA {e}")))?;
        let mut d = format!("named: {:?}\nnamed directories: {:?}\nlibs: {:?}\nsymlinks: {:?}\n", p.named, p.named_dirs, p.libs, p.symlinks);
        for f in &p.files {
            d.push_str(&format!("--- {} includes {:?}\n", f.rel, f.includes));
        }
        Ok((out, 30, d))
    })();
    let _ = std::fs::remove_dir_all(&root);
    res
}

fn case(ctx: &Ctx, tape: &[u8], rec: &Rec) -> Verdict {
    let mut t = Tape::new(tape);
    let p = gen_proj(&mut t);
    check_project(ctx, &p, rec, "c19")
}

/// Committed reproducer: a directory with `cmd.txt` = "<named files...> [-L lib...]" relative to it.
fn replay_known(ctx: &Ctx, k: &Known) -> Verdict {
    let dir = PathBuf::from(&k.repro);
    let cmd = std::fs::read_to_string(dir.join("cmd.txt")).map_err(|e| Bad::new(format!("INFRA read cmd.txt: {e}")))?;
    let mut files = Vec::new();
    let mut libs = Vec::new();
    let mut it = cmd.split_whitespace();
    while let Some(a) = it.next() {
        if a == "-L" {
            if let Some(l) = it.next() {
                libs.push(PathBuf::from(l));
            }
        } else {
            files.push(PathBuf::from(a));
        }
    }
    // relative arguments, run from inside the directory
    let mut opts = RunOpts::files(&files).verbose().level("info");
    opts.libs = libs;
    opts.cwd = Some(dir.clone());
    opts.rust_log = Some("circomspect_parser=debug".into());
    let out = binrun::run(&ctx.repo_bin, &opts).map_err(|e| Bad::new(format!("INFRA {e}")))?;
    let mut reads: BTreeMap<PathBuf, usize> = BTreeMap::new();
    for line in out.stderr.lines() {
        if let Some(pos) = line.find("reading file `") {
            let rest = &line[pos + "reading file `".len()..];
            if let Some(end) = rest.rfind('`') {
                let path = dir.join(&rest[..end]);
                *reads.entry(std::fs::canonicalize(&path).unwrap_or(path)).or_insert(0) += 1;
            }
        }
    }
    if reads.is_empty() {
        return Err(Bad::new("INFRA: no `reading file` lines in the debug log"));
    }
    for (p, n) in reads {
        if n != 1 {
            return Err(Bad::new(format!("file {} was read {n} times", p.display())).sig("C19:read-twice"));
        }
    }
    Ok(())
}

pub fn replay(ctx: &Ctx, check: &str, tape: &[u8]) -> Verdict {
    let stats = Stats::new();
    let rec = Rec::new(&stats, false);
    match check {
        "include_graphs" => case(ctx, tape, &rec),
        _ => Err(Bad::new(format!("unknown check {check}"))),
    }
}

pub fn run(ctx: &Ctx) -> i32 {
    let start = Instant::now();
    let stats = Stats::new();
    let mut outcome = Outcome::new();
    let known = load_known("C19");
    for k in &known {
        let r = replay_known(ctx, k);
        outcome.known_replay(k, r);
    }
    let fails = run_tapes(ctx, "include_graphs", ctx.tier.pick(3_000, 60_000), 300, &stats, |tape, rec| case(ctx, tape, rec));
    outcome.absorb(&known, fails);
    finish(
        ctx,
        &stats,
        &outcome,
        EvidenceSpec {
            level: "exploration",
            rule: "projects of 2-6 files spread over five directories with generated include graphs (chains, diamonds, cycles, self includes; spellings `x`, `./x`, `dir/../x`, `../dir/x`, bare names resolved through -L directories and -L files, includes through a symlink, unresolvable includes), a generated choice of named files (also spelled `./x` or through a symlink, and in a sixth of the projects a directory argument - alone or next to files - naming every `.circom` file below it) and of library arguments in either order. A third of the files are not called `*.circom` (they can be included, not named). A fifth of the files carry a pragma the tool does not support or none at all (an error or a warning, after which their includes and definitions count as before). Every file defines uniquely named templates with one deterministic `<--` finding, plus a template written with an anonymous component; in half of the files the first template instantiates that template of the first file one of its includes resolves to (so included-only definitions have to be desugared and lifted for the named file's analysis). The real binary runs with RUST_LOG=circomspect_parser=debug; a reference resolver (includer directory first, then libraries in order) computes the reachable file set on the materialised tree. Checked: clean termination; each reachable file (by canonical path) read exactly once and nothing else read; `analyzing` lines = definitions of named files, once each; all located findings in named files; one `<--` finding per template of a named file; unresolvable includes of named files = P1000 errors at the include statement's line. Non-trivial = project whose include graph has a cycle, a diamond or a file reached twice; distinct by project hash.",
            assumptions: vec!["read counts are taken from the parser's own debug log line `reading file`".into()],
            extra: json!({}),
        },
        start,
    )
}
