//! C10 — names resolve by lexical scope, and every shadowing declaration is reported.

use super::cfcase::*;
use crate::binrun;
use crate::engine::*;
use crate::gen::ast::*;
use crate::gen::walk::{resolve, DeclRef, Resolution};
use crate::obs;
use program_structure::cfg::Cfg;
use program_structure::ir;
use serde_json::json;
use std::collections::{BTreeMap, BTreeSet, HashMap};
use std::time::Instant;

type Span = (usize, usize);

/// Index of the generator AST by source span.
struct Index<'a> {
    /// Expr::Var nodes by start offset
    vars: HashMap<usize, Vec<(&'a str, Id)>>,
    /// assignment statements by span: (target name, stmt id)
    assigns: HashMap<Span, Vec<(&'a str, Id)>>,
    /// declaration statements by span: symbols
    decls: HashMap<Span, Vec<&'a DeclSym>>,
}

fn build_index<'a>(c: &'a CfCase) -> Index<'a> {
    let mut ix = Index { vars: HashMap::new(), assigns: HashMap::new(), decls: HashMap::new() };
    c.def.body.walk(&mut |s| {
        for e in s.exprs() {
            e.walk(&mut |x| {
                if let Expr::Var { id, name, .. } = x {
                    if let Some(sp) = c.r.span(*id) {
                        // keyed by the start offset only: the grammar ends a variable either at its last
                        // character or at the next token, depending on the production it is parsed by
                        ix.vars.entry(sp.0).or_default().push((name.as_str(), *id));
                    }
                }
            });
        }
        match s {
            Stmt::Assign { id, lhs: Expr::Var { name, .. }, .. } => {
                if let Some(sp) = c.r.span(*id) {
                    ix.assigns.entry(sp).or_default().push((name.as_str(), *id));
                }
            }
            Stmt::Compound { id, name, .. } | Stmt::IncDec { id, name, .. } => {
                if let Some(sp) = c.r.span(*id) {
                    ix.assigns.entry(sp).or_default().push((name.as_str(), *id));
                }
            }
            Stmt::Decl { id, syms, .. } | Stmt::TupleDecl { id, syms, .. } => {
                if let Some(sp) = c.r.span(*id) {
                    ix.decls.entry(sp).or_default().extend(syms.iter());
                }
            }
            _ => {}
        }
    });
    ix
}

/// (IR name with suffix, declaration) pairs for every variable occurrence of the CFG.
fn occurrences(cfg: &Cfg, c: &CfCase, res: &Resolution) -> Result<Vec<((String, Option<String>), DeclRef, Span)>, Bad> {
    let ix = build_index(c);
    let mut out = Vec::new();
    let mut unmapped: Vec<String> = Vec::new();
    let key = |n: &ir::VariableName| (n.name().clone(), n.suffix().clone());

    fn visit_expr(
        e: &ir::Expression,
        ix: &Index,
        res: &Resolution,
        out: &mut Vec<((String, Option<String>), DeclRef, Span)>,
    ) {
        use ir::Expression::*;
        let key = |n: &ir::VariableName| (n.name().clone(), n.suffix().clone());
        let mut occ = |meta: &ir::Meta, name: &ir::VariableName| {
            let sp = (meta.start(), meta.end());
            // a source variable node, or the variable synthesised by `x op= e` / `x++`
            if let Some(cands) = ix.vars.get(&sp.0) {
                if let Some((_, id)) = cands.iter().find(|(n, _)| *n == name.name().as_str()) {
                    if let Some(d) = res.uses.get(id) {
                        out.push((key(name), *d, sp));
                        return;
                    }
                }
            }
            if let Some(cands) = ix.assigns.get(&sp) {
                if let Some((_, id)) = cands.iter().find(|(n, _)| *n == name.name().as_str()) {
                    if let Some(d) = res.targets.get(id) {
                        out.push((key(name), *d, sp));
                    }
                }
            }
        };
        match e {
            Variable { meta, name } => occ(meta, name),
            Access { meta, var, access } => {
                occ(meta, var);
                for a in access {
                    if let ir::AccessType::ArrayAccess(i) = a {
                        visit_expr(i, ix, res, out);
                    }
                }
            }
            Update { meta, var, access, rhe } => {
                occ(meta, var);
                for a in access {
                    if let ir::AccessType::ArrayAccess(i) = a {
                        visit_expr(i, ix, res, out);
                    }
                }
                visit_expr(rhe, ix, res, out);
            }
            InfixOp { lhe, rhe, .. } => {
                visit_expr(lhe, ix, res, out);
                visit_expr(rhe, ix, res, out);
            }
            PrefixOp { rhe, .. } => visit_expr(rhe, ix, res, out),
            SwitchOp { cond, if_true, if_false, .. } => {
                visit_expr(cond, ix, res, out);
                visit_expr(if_true, ix, res, out);
                visit_expr(if_false, ix, res, out);
            }
            Call { args, .. } => args.iter().for_each(|a| visit_expr(a, ix, res, out)),
            InlineArray { values, .. } => values.iter().for_each(|a| visit_expr(a, ix, res, out)),
            Number(..) | Phi { .. } => {}
        }
    }

    for b in cfg.iter() {
        for st in b.statements() {
            use ir::Statement::*;
            let m = stmt_meta(st);
            let sp = (m.start(), m.end());
            match st {
                Declaration { names, dimensions, .. } => {
                    let n = names.first();
                    let mut mapped = false;
                    if let Some(syms) = ix.decls.get(&sp) {
                        // the k-th declaration of this name at this span
                        if let Some(sym) = syms.iter().find(|s| &s.name == n.name()) {
                            out.push((key(n), DeclRef::Sym(sym.id), sp));
                            mapped = true;
                        }
                    }
                    if !mapped {
                        unmapped.push(format!("declaration of {} at {}..{}", n.name(), sp.0, sp.1));
                    }
                    for d in dimensions {
                        visit_expr(d, &ix, res, &mut out);
                    }
                }
                Substitution { var, rhe, .. } => {
                    if matches!(rhe, ir::Expression::Phi { .. }) {
                        continue;
                    }
                    let mut found = false;
                    if let Some(cands) = ix.assigns.get(&sp) {
                        if let Some((_, id)) = cands.iter().find(|(n, _)| *n == var.name().as_str()) {
                            if let Some(d) = res.targets.get(id) {
                                out.push((key(var), *d, sp));
                                found = true;
                            }
                        }
                    }
                    if !found {
                        if let Some(syms) = ix.decls.get(&sp) {
                            if let Some(sym) = syms.iter().find(|s| &s.name == var.name()) {
                                out.push((key(var), DeclRef::Sym(sym.id), sp));
                                found = true;
                            }
                        }
                    }
                    if !found {
                        unmapped.push(format!("assignment to {} at {}..{}", var.name(), sp.0, sp.1));
                    }
                    visit_expr(rhe, &ix, res, &mut out);
                }
                IfThenElse { cond, .. } => visit_expr(cond, &ix, res, &mut out),
                Return { value, .. } => visit_expr(value, &ix, res, &mut out),
                Assert { arg, .. } => visit_expr(arg, &ix, res, &mut out),
                ConstraintEquality { lhe, rhe, .. } => {
                    visit_expr(lhe, &ix, res, &mut out);
                    visit_expr(rhe, &ix, res, &mut out);
                }
                LogCall { args, .. } => {
                    for a in args {
                        if let ir::LogArgument::Expr(e) = a {
                            visit_expr(e, &ix, res, &mut out);
                        }
                    }
                }
            }
        }
    }
    if let Some(u) = unmapped.first() {
        UNMAPPED.with(|c| c.set(c.get() + unmapped.len() as u64));
        let _ = u;
    }
    Ok(out)
}

thread_local! {
    static UNMAPPED: std::cell::Cell<u64> = const { std::cell::Cell::new(0) };
}

fn check_resolution(cfg: &Cfg, c: &CfCase, res: &Resolution, rec: &Rec) -> Verdict {
    UNMAPPED.with(|c| c.set(0));
    let occ = occurrences(cfg, c, res)?;
    rec.class_n("occurrences_checked", occ.len() as u64);
    let unmapped = UNMAPPED.with(|c| c.get());
    if unmapped > 0 {
        rec.class_n("ir_declarations_or_assignments_without_source_counterpart", unmapped);
    }
    if std::env::var("VERIF_DEBUG").is_ok() {
        for o in &occ {
            eprintln!("occ {:?}", o);
        }
    }
    let mut by_name: BTreeMap<(String, Option<String>), (DeclRef, Span)> = BTreeMap::new();
    let mut by_decl: BTreeMap<DeclRef, ((String, Option<String>), Span)> = BTreeMap::new();
    let render = || format!("{}\n--- CFG ---\n{}", c.r.src, dump_cfg(cfg));
    for (name, decl, sp) in &occ {
        if *decl == DeclRef::Unresolved {
            continue;
        }
        if let Some((d0, sp0)) = by_name.get(name) {
            if d0 != decl {
                return Err(Bad::new(format!(
                    "two occurrences of the IR variable {}{} refer to different declarations: the one at {}..{} (`{}`) to {:?}, the one at {}..{} to {:?}",
                    name.0,
                    name.1.as_ref().map(|s| format!("_{s}")).unwrap_or_default(),
                    sp0.0, sp0.1, c.r.src.get(sp0.0..sp0.1).unwrap_or("?"), d0,
                    sp.0, sp.1, decl
                ))
                .sig("C10:merged-variables")
                .rendered(render()));
            }
        } else {
            by_name.insert(name.clone(), (*decl, *sp));
        }
        if let Some((n0, sp0)) = by_decl.get(decl) {
            if n0 != name {
                return Err(Bad::new(format!(
                    "two occurrences of the same source variable ({:?}) got different IR names: {:?} at {}..{} and {:?} at {}..{}",
                    decl, n0, sp0.0, sp0.1, name, sp.0, sp.1
                ))
                .sig("C10:split-variable")
                .rendered(render()));
            }
        } else {
            by_decl.insert(*decl, (name.clone(), *sp));
        }
    }
    Ok(())
}

/// Every read of a local in the SSA CFG names a version that some statement
/// defines (parameters: version 0).
type VKey = (String, Option<String>, Option<usize>);

/// Structured key: the Debug form of a variable name cannot tell `x` with suffix 0 from `x_0`.
fn vkey(n: &ir::VariableName) -> VKey {
    (n.name().clone(), n.suffix().clone(), *n.version())
}

fn show_vkey(k: &VKey) -> String {
    format!("{}{}{}", k.0, k.1.as_ref().map(|s| format!("_{s}")).unwrap_or_default(), k.2.map(|v| format!(".{v}")).unwrap_or_default())
}

fn check_ssa_reads(ssa: &Cfg, src: &str) -> Verdict {
    let mut defs: BTreeSet<VKey> = BTreeSet::new();
    for p in ssa.parameters().iter() {
        defs.insert(vkey(p));
    }
    for b in ssa.iter() {
        for st in b.statements() {
            if let ir::Statement::Substitution { var, .. } = st {
                defs.insert(vkey(var));
            }
        }
    }
    let render = || format!("{}\n--- SSA CFG ---\n{}", src, dump_cfg(ssa));
    fn reads(e: &ir::Expression, ssa: &Cfg, out: &mut Vec<(VKey, bool)>) {
        use ir::Expression::*;
        let local = |n: &ir::VariableName| matches!(ssa.get_type(n), Some(ir::VariableType::Local));
        match e {
            Variable { name, .. } => {
                if local(name) {
                    out.push((vkey(name), false))
                }
            }
            Access { var, access, .. } => {
                if local(var) {
                    out.push((vkey(var), false))
                }
                for a in access {
                    if let ir::AccessType::ArrayAccess(i) = a {
                        reads(i, ssa, out)
                    }
                }
            }
            Update { var, access, rhe, .. } => {
                if local(var) {
                    // implicit initial value of an array that was never assigned as a whole
                    out.push((vkey(var), true))
                }
                for a in access {
                    if let ir::AccessType::ArrayAccess(i) = a {
                        reads(i, ssa, out)
                    }
                }
                reads(rhe, ssa, out)
            }
            InfixOp { lhe, rhe, .. } => {
                reads(lhe, ssa, out);
                reads(rhe, ssa, out)
            }
            PrefixOp { rhe, .. } => reads(rhe, ssa, out),
            SwitchOp { cond, if_true, if_false, .. } => {
                reads(cond, ssa, out);
                reads(if_true, ssa, out);
                reads(if_false, ssa, out)
            }
            Call { args, .. } => args.iter().for_each(|a| reads(a, ssa, out)),
            InlineArray { values, .. } => values.iter().for_each(|a| reads(a, ssa, out)),
            Phi { args, .. } => args.iter().for_each(|a| out.push((vkey(a), false))),
            Number(..) => {}
        }
    }
    for b in ssa.iter() {
        for st in b.statements() {
            let mut rs = Vec::new();
            use ir::Statement::*;
            match st {
                Declaration { dimensions, .. } => dimensions.iter().for_each(|d| reads(d, ssa, &mut rs)),
                Substitution { rhe, .. } => reads(rhe, ssa, &mut rs),
                IfThenElse { cond, .. } => reads(cond, ssa, &mut rs),
                Return { value, .. } => reads(value, ssa, &mut rs),
                Assert { arg, .. } => reads(arg, ssa, &mut rs),
                ConstraintEquality { lhe, rhe, .. } => {
                    reads(lhe, ssa, &mut rs);
                    reads(rhe, ssa, &mut rs)
                }
                LogCall { args, .. } => {
                    for a in args {
                        if let ir::LogArgument::Expr(e) = a {
                            reads(e, ssa, &mut rs)
                        }
                    }
                }
            }
            for (r, implicit_ok) in rs {
                if !defs.contains(&r) && !implicit_ok {
                    return Err(Bad::new(format!(
                        "block {}: `{:?}` reads `{}` (name `{}`, suffix {:?}, version {:?}) but no statement defines that version",
                        b.index(),
                        st,
                        show_vkey(&r),
                        r.0,
                        r.1,
                        r.2
                    ))
                    .sig("C10:read-without-definition")
                    .rendered(render()));
                }
            }
        }
    }
    Ok(())
}

fn label_range(l: &program_structure::report::ReportLabel) -> Span {
    (l.range.start, l.range.end)
}

/// CS0001 reports vs. the generated shadowing declarations (bijection, locations).
fn check_shadowing_reports(reports: &[program_structure::report::Report], c: &CfCase, res: &Resolution) -> Verdict {
    let render = || c.r.src.clone();
    let mut expected: Vec<(Span, Option<Span>, String)> = res
        .shadowings
        .iter()
        .map(|s| {
            let primary = c.r.span(s.stmt_id).unwrap_or((0, 0));
            let secondary = match s.shadowed {
                DeclRef::Param(_) => c.r.span(c.def.params_id),
                _ => s.shadowed_stmt_id.and_then(|id| c.r.span(id)),
            };
            (primary, secondary, s.name.clone())
        })
        .collect();
    expected.sort();
    let mut got: Vec<(Span, Option<Span>, String)> = Vec::new();
    for r in reports {
        if r.id() != "CS0001" {
            continue;
        }
        let p = r.primary().first().map(label_range).unwrap_or((0, 0));
        let s = r.secondary().first().map(label_range);
        // the variable name is quoted in the message
        let name = r.message().split('`').nth(1).unwrap_or("").to_string();
        got.push((p, s, name));
    }
    got.sort();
    if got != expected {
        return Err(Bad::new(format!(
            "shadowing reports differ from the generated shadowing declarations:\n reported (primary, secondary, name): {got:?}\n expected: {expected:?}"
        ))
        .sig("C10:shadowing-reports")
        .rendered(render()));
    }
    Ok(())
}

fn case(ctx: &Ctx, tape: &[u8], rec: &Rec, with_binary: bool) -> Verdict {
    let mut t = Tape::new(tape);
    let c = gen_case(&mut t);
    classify(&c.def, rec);
    let res = resolve(&c.def);
    let sibling = res.decl_count.values().any(|n| *n >= 2) && res.decl_count.values().filter(|n| **n >= 2).count() > 0;
    if !res.shadowings.is_empty() {
        rec.class("def_with_shadowing");
    }
    {
        let mut nested_sig = false;
        let mut depth0 = true;
        fn scan(s: &crate::gen::ast::Stmt, top: bool, found: &mut bool) {
            use crate::gen::ast::{DeclKind, Stmt};
            match s {
                Stmt::Decl { kind: DeclKind::Signal(..), .. } if !top => *found = true,
                Stmt::Block { stmts, .. } => stmts.iter().for_each(|x| scan(x, false, found)),
                Stmt::If { then, els, .. } => {
                    scan(then, false, found);
                    if let Some(e) = els {
                        scan(e, false, found);
                    }
                }
                Stmt::While { body, .. } => scan(body, false, found),
                Stmt::For { body, .. } => scan(body, false, found),
                _ => {}
            }
        }
        if let crate::gen::ast::Stmt::Block { stmts, .. } = &c.def.body {
            for st in stmts {
                scan(st, depth0, &mut nested_sig);
            }
        }
        depth0 = false;
        let _ = depth0;
        if nested_sig {
            rec.class("def_with_signal_declared_in_nested_scope");
        }
    }
    {
        let mut hit = false;
        c.def.body.walk(&mut |s| {
            if let crate::gen::ast::Stmt::Decl { syms, .. } = s {
                for (k, sym) in syms.iter().enumerate() {
                    if let Some(init) = &sym.init {
                        init.walk(&mut |x| {
                            if let crate::gen::ast::Expr::Var { name, .. } = x {
                                if syms[k + 1..].iter().any(|later| &later.name == name) {
                                    hit = true;
                                }
                            }
                        });
                    }
                }
            }
        });
        if hit {
            rec.class("def_with_later_symbol_redeclaring_a_name_read_by_an_earlier_initialiser");
        }
    }
    let collide = c.r.src.contains("x_0") && res.decl_count.get("x").copied().unwrap_or(0) >= 2;
    if collide {
        rec.class("def_with_x_shadowed_next_to_x_0");
    }
    let (cfg, reports) = match lift(&c) {
        Lift::Ok(cfg, reports) => (cfg, reports),
        Lift::Rejected(why) => {
            return Err(Bad::new(format!("generated definition was rejected: {why}")).sig("C10:rejected").rendered(c.r.src.clone()))
        }
        Lift::Panic(p) => return Err(Bad::new(format!("lifting panicked: {p}")).sig("C10:panic").rendered(c.r.src.clone())),
    };
    if !res.shadowings.is_empty() && sibling {
        rec.nontrivial(fnv(c.r.src.as_bytes()));
    }
    rec.sample(|| json!({"definition": c.r.src, "shadowing_declarations": res.shadowings.iter().map(|s| s.name.clone()).collect::<Vec<_>>()}));
    check_resolution(&cfg, &c, &res, rec)?;
    check_shadowing_reports(&reports, &c, &res)?;
    match obs::to_ssa(cfg) {
        Ok(ssa) => {
            rec.class("converted_to_ssa");
            check_resolution(&ssa, &c, &res, rec)?;
            check_ssa_reads(&ssa, &c.r.src)?;
        }
        Err(obs::SsaFail::Error(r)) => {
            // every read of the generated definition comes after an assignment to the variable it resolves
            // to, so a rejection (`used before it is defined`) means a use was bound to another declaration
            rec.class("ssa_rejected");
            return Err(Bad::new(format!("SSA conversion rejects a definition whose reads are all definitely assigned: {}", r.message()))
                .sig("C10:use-bound-to-later-declaration")
                .rendered(c.r.src.clone()));
        }
        Err(obs::SsaFail::Panic(p)) => {
            return Err(Bad::new(format!("into_ssa panicked: {p}")).sig("C10:ssa-panic").rendered(c.r.src.clone()))
        }
    }
    if with_binary {
        // the user-visible side: CS0001 diagnostics of the real binary
        let dir = ctx.scratch.join(format!("c10-{:?}", std::thread::current().id()).replace(['(', ')'], ""));
        let _ = std::fs::create_dir_all(&dir);
        let path = dir.join("a.circom");
        let src = format!("pragma circom 2.0.0;\n{}", c.r.src);
        let shift = "pragma circom 2.0.0;\n".len();
        std::fs::write(&path, &src).map_err(|e| Bad::new(format!("INFRA write: {e}")))?;
        let out = binrun::run(&ctx.repo_bin, &binrun::RunOpts::files(&[&path]).verbose().level("info"))
            .map_err(|e| Bad::new(format!("INFRA {e}")))?;
        let _ = std::fs::remove_dir_all(&dir);
        let parsed = binrun::parse_stdout(&out.stdout);
        rec.class("binary_runs");
        let mut got: Vec<(usize, usize)> = parsed
            .diags
            .iter()
            .filter(|d| d.id.as_deref() == Some("CS0001"))
            .filter_map(|d| d.loc.as_ref().map(|l| (l.1, l.2)))
            .collect();
        got.sort();
        let mut want: Vec<(usize, usize)> = res
            .shadowings
            .iter()
            .filter_map(|s| c.r.span(s.stmt_id))
            .map(|sp| binrun::line_col(&src, sp.0 + shift))
            .collect();
        want.sort();
        if got != want {
            return Err(Bad::new(format!(
                "the binary displays `shadowing variable` warnings at {got:?} (line, col) but the shadowing declarations are at {want:?}; exit {:?}",
                out.status
            ))
            .sig("C10:shadowing-not-displayed")
            .rendered(src));
        }
        // the same definition with a statement at its end that makes the SSA conversion fail (a read of a
        // variable that is never assigned): the shadowing declarations are still all reported
        if !want.is_empty() {
            if let Some(close) = src.rfind('}') {
                let failing = format!("{} var zzu ; var zzw = zzu + 1 ; {}", &src[..close], &src[close..]);
                std::fs::create_dir_all(&dir).map_err(|e| Bad::new(format!("INFRA mkdir: {e}")))?;
                std::fs::write(&path, &failing).map_err(|e| Bad::new(format!("INFRA write: {e}")))?;
                let out2 = binrun::run(&ctx.repo_bin, &binrun::RunOpts::files(&[&path]).verbose().level("info"))
                    .map_err(|e| Bad::new(format!("INFRA {e}")))?;
                let _ = std::fs::remove_dir_all(&dir);
                let parsed2 = binrun::parse_stdout(&out2.stdout);
                rec.class("binary_runs_on_definition_that_fails_ssa");
                let mut got2: Vec<(usize, usize)> = parsed2
                    .diags
                    .iter()
                    .filter(|d| d.id.as_deref() == Some("CS0001"))
                    .filter_map(|d| d.loc.as_ref().map(|l| (l.1, l.2)))
                    .collect();
                got2.sort();
                if got2 != want {
                    return Err(Bad::new(format!(
                        "with a statement appended that makes the SSA conversion fail, the binary displays `shadowing variable` warnings at {got2:?} (line, col) but the shadowing declarations are at {want:?}; exit {:?}",
                        out2.status
                    ))
                    .sig("C10:shadowing-not-displayed-when-ssa-fails")
                    .rendered(failing));
                }
            }
        }
    }
    Ok(())
}

/// Repeated parameter names are reported (in-process and through the binary).
fn dup_param_case(ctx: &Ctx, tape: &[u8], rec: &Rec) -> Verdict {
    let mut t = Tape::new(tape);
    let n = 2 + t.below(3);
    let names = ["a", "b", "c", "a_0"];
    let mut params: Vec<String> = (0..n).map(|i| names[i % 4].to_string()).collect();
    let i = t.below(n);
    let mut j = t.below(n);
    if j == i {
        j = (i + 1) % n;
    }
    params[j] = params[i].clone();
    let template = t.chance(128);
    let body = if template { "{ signal input x; signal output y; y <== x; }" } else { "{ return 1; }" };
    let def = format!("{} D({}) {}", if template { "template" } else { "function" }, params.join(", "), body);
    rec.class("duplicate_parameter_definitions");
    rec.nontrivial(fnv(def.as_bytes()));
    // in-process
    match obs::lift_def(&def, &program_structure::constants::Curve::Bn254) {
        Err(obs::LiftFail::Lift(r)) if r.id() == "CS0002" => {}
        Err(obs::LiftFail::Panic(p)) => return Err(Bad::new(format!("panic: {p}")).sig("C10:panic").rendered(def)),
        Err(e) => {
            return Err(Bad::new(format!("duplicate parameters: unexpected failure {}", e.describe())).sig("C10:dup-param").rendered(def))
        }
        Ok(_) => {
            return Err(Bad::new("a definition with repeated parameter names lifted without a CS0002 report").sig("C10:dup-param").rendered(def))
        }
    }
    // binary
    let dir = ctx.scratch.join(format!("c10d-{:?}", std::thread::current().id()).replace(['(', ')'], ""));
    let _ = std::fs::create_dir_all(&dir);
    let path = dir.join("a.circom");
    let src = format!("pragma circom 2.0.0;\n{def}\n");
    std::fs::write(&path, &src).map_err(|e| Bad::new(format!("INFRA write: {e}")))?;
    let out = binrun::run(&ctx.repo_bin, &binrun::RunOpts::files(&[&path]).verbose().level("info"))
        .map_err(|e| Bad::new(format!("INFRA {e}")))?;
    let _ = std::fs::remove_dir_all(&dir);
    let parsed = binrun::parse_stdout(&out.stdout);
    let n = parsed.diags.iter().filter(|d| d.id.as_deref() == Some("CS0002")).count();
    if n != 1 {
        return Err(Bad::new(format!(
            "repeated parameter names: the binary displays {n} CS0002 diagnostics (expected 1), exit {:?}, diagnostics {:?}",
            out.status, parsed.diags
        ))
        .sig("C10:dup-param-not-displayed")
        .rendered(src));
    }
    Ok(())
}

pub fn replay(ctx: &Ctx, check: &str, tape: &[u8]) -> Verdict {
    let stats = Stats::new();
    let rec = Rec::new(&stats, false);
    match check {
        "scoping" => case(ctx, tape, &rec, false),
        "scoping_binary" => case(ctx, tape, &rec, true),
        "dup_params" => dup_param_case(ctx, tape, &rec),
        _ => Err(Bad::new(format!("unknown check {check}"))),
    }
}

fn replay_known(ctx: &Ctx, k: &Known) -> Verdict {
    match k.check.as_str() {
        "binary-id-count" => {
            // repro = "<file> <ID> <count>"
            let mut it = k.repro.split_whitespace();
            let (file, id, count) = (it.next().unwrap_or(""), it.next().unwrap_or(""), it.next().unwrap_or("1"));
            let out = binrun::run(&ctx.repo_bin, &binrun::RunOpts::files(&[file]).verbose().level("info"))
                .map_err(|e| Bad::new(format!("INFRA {e}")))?;
            let parsed = binrun::parse_stdout(&out.stdout);
            let n = parsed.diags.iter().filter(|d| d.id.as_deref() == Some(id)).count();
            if n.to_string() == count {
                Ok(())
            } else {
                Err(Bad::new(format!("{file}: {n} {id} diagnostics displayed, expected {count}")).sig(k.signature.clone()))
            }
        }
        "def-file-ssa-reads" => {
            // repro = path of a file holding one definition: every SSA read must have a definition
            let src = std::fs::read_to_string(&k.repro).map_err(|e| Bad::new(format!("INFRA read {}: {e}", k.repro)))?;
            match obs::lift_def(&src, &program_structure::constants::Curve::Bn254) {
                Ok(l) => match obs::to_ssa(l.cfg) {
                    Ok(ssa) => check_ssa_reads(&ssa, &src),
                    Err(_) => Err(Bad::new(format!("{}: SSA conversion failed", k.repro)).sig(k.signature.clone())),
                },
                Err(e) => Err(Bad::new(format!("{}: {}", k.repro, e.describe())).sig(k.signature.clone())),
            }
        }
        other => Err(Bad::new(format!("unknown known-finding check {other}"))),
    }
}

pub fn run(ctx: &Ctx) -> i32 {
    let start = Instant::now();
    let stats = Stats::new();
    let mut outcome = Outcome::new();
    let known = load_known("C10");
    for k in &known {
        let r = replay_known(ctx, k);
        outcome.known_replay(k, r);
    }
    let fails = run_tapes(ctx, "scoping", ctx.tier.pick(30_000, 600_000), 500, &stats, |tape, rec| {
        case(ctx, tape, rec, false)
    });
    outcome.absorb(&known, fails);
    let fails = run_tapes(ctx, "scoping_binary", ctx.tier.pick(1_500, 30_000), 500, &stats, |tape, rec| {
        case(ctx, tape, rec, true)
    });
    outcome.absorb(&known, fails);
    let fails = run_tapes(ctx, "dup_params", ctx.tier.pick(200, 2_000), 16, &stats, |tape, rec| {
        dup_param_case(ctx, tape, rec)
    });
    outcome.absorb(&known, fails);
    finish(
        ctx,
        &stats,
        &outcome,
        EvidenceSpec {
            level: "exploration",
            rule: "definitions from the control-flow profile with tiny colliding name pools ({x, y, x_0, x_1, i, y_0} or just {x, x_0}), redeclarations in nested and sibling scopes, uses before/after inner declarations, parameters redeclared as locals and `for` headers. A reference lexical resolver on the generator AST maps every use and assignment target to its declaration; in the pre-SSA and the SSA CFG the relation `same (name, suffix)` over all variable occurrences (located by source span) must equal `same declaration` in both directions; every SSA read must have a defining statement; CS0001 reports of into_cfg must be in bijection (primary = shadowing declaration, secondary = shadowed declaration or parameter list) with the generated shadowing declarations, and the real binary must display them at the right line:col; repeated parameter names must give CS0002 in-process and displayed. Non-trivial = a definition with at least one shadowing declaration and at least one name declared twice; distinct by source hash.",
            assumptions: vec![
                "Circom declares a name before running its initialiser (`var x = x + 1` reads the new x); dimensions are evaluated before the declaration".into(),
                "the implicit initial version read by the first element-wise update of an array needs no defining statement".into(),
            ],
            extra: json!({}),
        },
        start,
    )
}
