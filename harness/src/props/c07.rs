//! C07 — degree claims are sound: `constant/linear/quadratic` expressions really are.

use super::c06::lift_ssa;
use super::semcase::*;
use crate::engine::*;
use crate::interp::{Effect, Inputs, Trace};
use num_bigint_dig::BigUint;
use num_traits::Zero;
use program_structure::cfg::Cfg;
use program_structure::ir;
use program_structure::ir::degree_meta::Degree;
use serde_json::json;
use std::time::Instant;

fn deg_num(d: Degree) -> Option<usize> {
    match d {
        Degree::Constant => Some(0),
        Degree::Linear => Some(1),
        Degree::Quadratic => Some(2),
        Degree::NonQuadratic => None,
    }
}

/// s0 + t*delta on every indeterminate (signals, ports, data parameters).
fn line_point(c: &SemCase, base: &Inputs, delta: &Inputs, t: u32, data_params: &[bool]) -> Inputs {
    let p = &c.prime;
    let tt = BigUint::from(t);
    let mix = |a: &BigUint, d: &BigUint| (a + &tt * d) % p;
    let params = base
        .params
        .iter()
        .zip(delta.params.iter())
        .enumerate()
        .map(|(i, (a, d))| if data_params.get(i).copied().unwrap_or(false) { mix(a, d) } else { a.clone() })
        .collect();
    let signals = base
        .signals
        .iter()
        .map(|(k, v)| {
            let d = &delta.signals[k];
            (k.clone(), v.iter().zip(d.iter()).map(|(a, b)| mix(a, b)).collect())
        })
        .collect();
    let ports = base.ports.iter().map(|(k, v)| (k.clone(), mix(v, &delta.ports[k]))).collect();
    Inputs { prime: p.clone(), params, signals, ports, fuel: base.fuel, perturb: Default::default(), signals_fixed: true }
}

fn branches(t: &Trace) -> Vec<(usize, bool)> {
    t.effects.iter().filter_map(|e| if let Effect::Branch(id, d) = e { Some((*id, *d)) } else { None }).collect()
}

/// (d+1)-th finite difference of v[0..=3] vanishes mod p?
fn diff_vanishes(v: &[&BigUint; 4], d: usize, p: &BigUint) -> bool {
    let sub = |a: &BigUint, b: &BigUint| ((a + p) - b) % p;
    let d1: Vec<BigUint> = (0..3).map(|i| sub(v[i + 1], v[i])).collect();
    if d == 0 {
        return d1.iter().all(|x| x.is_zero());
    }
    let d2: Vec<BigUint> = (0..2).map(|i| sub(&d1[i + 1], &d1[i])).collect();
    if d == 1 {
        return d2.iter().all(|x| x.is_zero());
    }
    sub(&d2[1], &d2[0]).is_zero()
}

fn vals<'a>(t: &'a Trace, key: ValKey) -> Option<&'a Vec<BigUint>> {
    match key {
        ValKey::Expr(id) => t.expr_vals.get(&id),
        ValKey::Pre(id) => t.pre_vals.get(&id),
        ValKey::Stmt(id) => t.stmt_vals.get(&id),
    }
}

pub struct DegStats {
    pub claims: u64,
    pub checked: u64,
    pub nontrivial: u64,
    pub unmapped: u64,
}

/// Check all degree claims of the SSA CFG on one line s0 + t*delta.
pub fn check_degrees(c: &SemCase, ix: &IrIndex, line: &[Trace; 4], ssa: &Cfg, label: &str, skip: &std::collections::BTreeSet<crate::gen::ast::Id>) -> Result<DegStats, Bad> {
    let mut st = DegStats { claims: 0, checked: 0, nontrivial: 0, unmapped: 0 };
    let render = || format!("prime {}\n{}\n--- SSA CFG ---\n{:?}", c.prime_name, c.r.src, ssa);
    for b in ssa.iter() {
        for stmt in b.statements() {
            let mut bad: Option<Bad> = None;
            walk_ir_exprs(stmt, &mut |e| {
                if bad.is_some() {
                    return;
                }
                let Some(range) = e.meta().degree_knowledge().degree() else { return };
                let Some(d) = deg_num(range.end()) else { return };
                st.claims += 1;
                let Some(key) = ix.expr_key(c, e) else {
                    st.unmapped += 1;
                    return;
                };
                if let ValKey::Expr(id) = key {
                    if skip.contains(&id) {
                        return;
                    }
                }
                let (Some(v0), Some(v1), Some(v2), Some(v3)) = (vals(&line[0], key), vals(&line[1], key), vals(&line[2], key), vals(&line[3], key)) else { return };
                let n = v0.len().min(v1.len()).min(v2.len()).min(v3.len());
                for k in 0..n {
                    st.checked += 1;
                    let quad = [&v0[k], &v1[k], &v2[k], &v3[k]];
                    if v0[k] != v1[k] {
                        st.nontrivial += 1;
                    }
                    if !diff_vanishes(&quad, d, &c.prime) {
                        let kind = match e {
                            ir::Expression::PrefixOp { prefix_op, .. } => format!("prefix{prefix_op}"),
                            ir::Expression::InfixOp { infix_op, .. } => format!("infix{infix_op}"),
                            ir::Expression::Variable { .. } => "variable".to_string(),
                            ir::Expression::Access { .. } => "access".to_string(),
                            ir::Expression::SwitchOp { .. } => "switch".to_string(),
                            ir::Expression::Call { .. } => "call".to_string(),
                            _ => "other".to_string(),
                        };
                        bad = Some(
                            Bad::new(format!(
                                "{label}expression `{e:?}` (bytes {}..{}) in `{stmt:?}` is bounded by degree {:?} but along the line s0 + t*delta (t = 0..3) its values {:?} have a non-vanishing difference of order {}",
                                e.meta().start(),
                                e.meta().end(),
                                range.end(),
                                quad.iter().map(|x| x.to_string()).collect::<Vec<_>>(),
                                d + 1
                            ))
                            .sig(format!("C07:unsound-degree:{kind}"))
                            .rendered(render()),
                        );
                        return;
                    }
                }
            });
            if let Some(b) = bad {
                return Err(b);
            }
        }
    }
    Ok(st)
}

/// CS0013 (`the expression assigned with <-- is quadratic`) against the same test with d = 2.
pub fn check_cs0013(c: &SemCase, line: &[Trace; 4], ssa: &Cfg, label: &str, rec: &Rec) -> Verdict {
    let reports = match run_passes(ssa) {
        Ok(r) => r,
        Err(p) => return Err(Bad::new(format!("{label}an analysis pass panicked: {p}")).sig("SEM:pass-panic").rendered(c.r.src.clone())),
    };
    for r in &reports {
        if r.id() != "CS0013" {
            continue;
        }
        let Some(l) = r.primary().first() else { continue };
        let sp = trim_end(&c.blank, l.range.start, l.range.end);
        // the generator statement with this extent
        let mut rhs_id = None;
        c.def.body.walk(&mut |s| match s {
            crate::gen::ast::Stmt::Assign { id, rhs, op: crate::gen::ast::AssignOp::Signal, .. } => {
                if c.r.span(*id).map(|(a, b)| trim_end(&c.blank, a, b)) == Some(sp) {
                    rhs_id = Some(rhs.id());
                }
            }
            crate::gen::ast::Stmt::Decl { id, syms, init_op: crate::gen::ast::AssignOp::Signal, .. } => {
                if c.r.span(*id).map(|(a, b)| trim_end(&c.blank, a, b)) == Some(sp) {
                    if let Some(init) = syms.first().and_then(|s| s.init.as_ref()) {
                        rhs_id = Some(init.id());
                    }
                }
            }
            _ => {}
        });
        let Some(rid) = rhs_id else { continue };
        rec.class("CS0013_findings");
        let key = ValKey::Expr(rid);
        let (Some(v0), Some(v1), Some(v2), Some(v3)) = (vals(&line[0], key), vals(&line[1], key), vals(&line[2], key), vals(&line[3], key)) else { continue };
        let n = v0.len().min(v1.len()).min(v2.len()).min(v3.len());
        for k in 0..n {
            rec.class("CS0013_evaluations_checked");
            if !diff_vanishes(&[&v0[k], &v1[k], &v2[k], &v3[k]], 2, &c.prime) {
                return Err(Bad::new(format!(
                    "{label}`{}`: the right-hand side `{}` is said to be quadratic (rewrite with `<==`) but is not a polynomial of degree <= 2 in the signals",
                    r.message(),
                    c.r.src.get(l.range.start..l.range.end).unwrap_or("?")
                ))
                .sig("C07:false-quadratic-advice")
                .rendered(format!("prime {}\n{}", c.prime_name, c.r.src)));
            }
        }
    }
    Ok(())
}

pub fn data_param_flags(c: &SemCase) -> Vec<bool> {
    // In functions every parameter may be a signal: treat the parameters the generator marked as data
    // (those never used in conditions/indices) as indeterminates. The generator lists control parameters first.
    let n = c.def.params.len();
    if c.template {
        return vec![false; n];
    }
    let mut used_in_control = vec![false; n];
    // a parameter that occurs in any condition, index, dimension or ternary condition is control
    fn mark(e: &crate::gen::ast::Expr, params: &[String], used: &mut [bool]) {
        e.walk(&mut |x| {
            if let crate::gen::ast::Expr::Var { name, .. } = x {
                if let Some(i) = params.iter().position(|p| p == name) {
                    used[i] = true;
                }
            }
        });
    }
    c.def.body.walk(&mut |s| {
        use crate::gen::ast::{Access, Expr, Stmt};
        match s {
            Stmt::If { cond, .. } | Stmt::While { cond, .. } | Stmt::For { cond, .. } => mark(cond, &c.def.params, &mut used_in_control),
            Stmt::Assert { e, .. } => mark(e, &c.def.params, &mut used_in_control),
            _ => {}
        }
        for e in s.exprs() {
            e.walk(&mut |x| match x {
                Expr::Ternary { c: cond, .. } => mark(cond, &c.def.params, &mut used_in_control),
                Expr::Var { access, .. } => {
                    for a in access {
                        if let Access::Index(i) = a {
                            mark(i, &c.def.params, &mut used_in_control)
                        }
                    }
                }
                _ => {}
            });
        }
        if let Stmt::Compound { access, .. } | Stmt::IncDec { access, .. } = s {
            for a in access {
                if let Access::Index(i) = a {
                    mark(i, &c.def.params, &mut used_in_control)
                }
            }
        }
    });
    used_in_control.iter().map(|u| !u).collect()
}

/// Flow-insensitive taint analysis on the generator AST: does any control position
/// (condition, index, ternary condition, dimension, assert) read a value that may
/// depend on an indeterminate (signal, port, data parameter)?  The generator avoids
/// this flow-sensitively; loops can still carry a later assignment back to an earlier read.
pub fn control_depends_on_data(c: &SemCase, flags: &[bool]) -> bool {
    taint_info(c, flags).0
}

/// (control flow may depend on an indeterminate, nodes inside the arms of conditional expressions
/// whose condition depends on an indeterminate). The arms of such an expression are evaluated in
/// some runs only, so their per-node value lists are not aligned across the four runs of a line;
/// the conditional expression itself is evaluated every time and is checked.
pub fn taint_info(c: &SemCase, flags: &[bool]) -> (bool, std::collections::BTreeSet<crate::gen::ast::Id>) {
    use crate::gen::ast::{Access, Expr, Stmt};
    use crate::gen::walk::{resolve, DeclRef};
    use std::collections::BTreeSet;
    let res = resolve(&c.def);
    // signal declarations
    let mut signal_syms: BTreeSet<usize> = BTreeSet::new();
    c.def.body.walk(&mut |s| {
        if let Stmt::Decl { kind, syms, .. } = s {
            if !matches!(kind, crate::gen::ast::DeclKind::Var) {
                for sym in syms {
                    signal_syms.insert(sym.id);
                }
            }
        }
    });
    let is_source = |d: &DeclRef| match d {
        DeclRef::Param(i) => flags.get(*i).copied().unwrap_or(false),
        DeclRef::Sym(id) => signal_syms.contains(id),
        DeclRef::Unresolved => true,
    };
    let mut tainted: BTreeSet<DeclRef> = BTreeSet::new();
    let expr_data = |e: &Expr, tainted: &BTreeSet<DeclRef>| -> bool {
        let mut data = false;
        e.walk(&mut |x| {
            if let Expr::Var { id, access, .. } = x {
                if access.iter().any(|a| matches!(a, Access::Field(_))) {
                    data = true;
                }
                if let Some(d) = res.uses.get(id) {
                    if is_source(d) || tainted.contains(d) {
                        data = true;
                    }
                }
            }
        });
        data
    };
    // fixpoint over assignments
    loop {
        let before = tainted.len();
        c.def.body.walk(&mut |s| match s {
            Stmt::Decl { syms, .. } => {
                for sym in syms {
                    if let Some(init) = &sym.init {
                        if expr_data(init, &tainted) {
                            tainted.insert(DeclRef::Sym(sym.id));
                        }
                    }
                }
            }
            Stmt::Assign { id, rhs, .. } | Stmt::Compound { id, rhs, .. } => {
                if let Some(d) = res.targets.get(id) {
                    if expr_data(rhs, &tainted) {
                        tainted.insert(*d);
                    }
                }
            }
            _ => {}
        });
        if tainted.len() == before {
            break;
        }
    }
    // control positions
    let mut bad = false;
    let mut skip: BTreeSet<crate::gen::ast::Id> = BTreeSet::new();
    let allow_data_ternary = c.profile.data_ternary_chance > 0;
    c.def.body.walk(&mut |s| {
        match s {
            Stmt::If { cond, .. } | Stmt::While { cond, .. } | Stmt::For { cond, .. } => bad |= expr_data(cond, &tainted),
            Stmt::Assert { e, .. } => bad |= expr_data(e, &tainted),
            Stmt::Decl { syms, .. } => {
                for sym in syms {
                    for d in &sym.dims {
                        bad |= expr_data(d, &tainted);
                    }
                }
            }
            Stmt::Compound { access, .. } | Stmt::IncDec { access, .. } => {
                for a in access {
                    if let Access::Index(i) = a {
                        bad |= expr_data(i, &tainted);
                    }
                }
            }
            _ => {}
        }
        for e in s.exprs() {
            e.walk(&mut |x| match x {
                Expr::Ternary { c: cond, a, b, .. } => {
                    if expr_data(cond, &tainted) {
                        if allow_data_ternary {
                            a.walk(&mut |y| {
                                skip.insert(y.id());
                            });
                            b.walk(&mut |y| {
                                skip.insert(y.id());
                            });
                        } else {
                            bad = true;
                        }
                    }
                }
                Expr::Var { access, .. } => {
                    for a in access {
                        if let Access::Index(i) = a {
                            bad |= expr_data(i, &tainted);
                        }
                    }
                }
                _ => {}
            });
        }
    });
    (bad, skip)
}

pub fn gen_c07_case(t: &mut Tape) -> SemCase {
    let late = t.chance(110);
    gen_sem_case(t, SemOpts { components: true, data_params: true, late_facts: late, ..Default::default() })
}

/// Four runs on a random line; None if the control flow differs (must not happen) or nothing ran.
pub fn run_line(c: &SemCase, t: &mut Tape, flags: &[bool]) -> Option<[Trace; 4]> {
    let base = gen_inputs(t, c);
    let delta = gen_inputs(t, c);
    let traces: Vec<Trace> = (0..4).map(|k| run_trace(c, &line_point(c, &base, &delta, k, flags))).collect();
    let b0 = branches(&traces[0]);
    for tr in &traces[1..] {
        let b = branches(tr);
        let n = b0.len().min(b.len());
        if b0[..n] != b[..n] {
            return None;
        }
    }
    let mut it = traces.into_iter();
    Some([it.next()?, it.next()?, it.next()?, it.next()?])
}

fn case(tape: &[u8], rec: &Rec) -> Verdict {
    let mut t = Tape::new(tape);
    let c = gen_c07_case(&mut t);
    let ssa = lift_ssa(&c)?;
    let ix = build_index(&c);
    let flags = data_param_flags(&c);
    let (control_depends, skip) = taint_info(&c, &flags);
    if !skip.is_empty() {
        rec.class("programs_with_data_dependent_conditional_expression");
    }
    if control_depends {
        // outside the property's domain (Circom itself rejects such programs)
        rec.class("discarded_control_flow_may_depend_on_indeterminates");
        return Ok(());
    }
    rec.class("programs");
    rec.class(if c.template { "templates" } else { "functions" });
    let mut nontrivial = 0;
    for _ in 0..3 {
        let Some(line) = run_line(&c, &mut t, &flags) else {
            rec.class("line_discarded_control_flow_differs");
            continue;
        };
        rec.class("lines");
        if line.iter().any(|t| t.stopped.is_some()) {
            rec.class("lines_with_truncated_run");
        }
        let st = check_degrees(&c, &ix, &line, &ssa, "", &skip)?;
        rec.class_n("degree_claims", st.claims);
        rec.class_n("degree_claims_on_nodes_without_source_counterpart", st.unmapped);
        rec.class_n("claim_evaluations_checked", st.checked);
        rec.class_n("claim_evaluations_varying_along_line", st.nontrivial);
        nontrivial += st.nontrivial;
        check_cs0013(&c, &line, &ssa, "", rec)?;
    }
    if nontrivial > 0 {
        rec.nontrivial(fnv(c.r.src.as_bytes()));
    }
    rec.sample(|| json!({"prime": c.prime_name, "definition": c.r.src, "data_parameters": flags}));
    Ok(())
}

pub fn replay(_ctx: &Ctx, check: &str, tape: &[u8]) -> Verdict {
    let stats = Stats::new();
    let rec = Rec::new(&stats, false);
    match check {
        "degree_claims" => case(tape, &rec),
        _ => Err(Bad::new(format!("unknown check {check}"))),
    }
}

/// repro = "<file with one template>": no CS0013 may be reported (the right-hand sides are not polynomial).
fn replay_known(_ctx: &Ctx, k: &Known) -> Verdict {
    let src = std::fs::read_to_string(&k.repro).map_err(|e| Bad::new(format!("INFRA read {}: {e}", k.repro)))?;
    let l = crate::obs::lift_def(&src, &program_structure::constants::Curve::Bn254).map_err(|e| Bad::new(e.describe()).sig(k.signature.clone()))?;
    let ssa = match crate::obs::to_ssa(l.cfg) {
        Ok(s) => s,
        Err(_) => return Err(Bad::new("SSA conversion failed").sig(k.signature.clone())),
    };
    let reports = run_passes(&ssa).map_err(|p| Bad::new(format!("panic: {p}")).sig(k.signature.clone()))?;
    if let Some(r) = reports.iter().find(|r| r.id() == "CS0013") {
        return Err(Bad::new(format!("{}: `{}` although the right-hand side is not a polynomial of degree <= 2", k.repro, r.message())).sig(k.signature.clone()));
    }
    Ok(())
}

pub fn run(ctx: &Ctx) -> i32 {
    let start = Instant::now();
    let stats = Stats::new();
    let mut outcome = Outcome::new();
    let known = load_known("C07");
    for k in &known {
        let r = replay_known(ctx, k);
        outcome.known_replay(k, r);
    }
    let fails = run_tapes_opts(ctx, "degree_claims", ctx.tier.pick(12_000, 300_000), 4000, 250, &stats, case);
    outcome.absorb(&known, fails);
    finish(
        ctx,
        &stats,
        &outcome,
        EvidenceSpec {
            level: "exploration",
            rule: "executable templates (signals, opaque components with output ports) and functions (parameters that never reach a condition, index or dimension are data parameters) from the `sem` profile with all operators; conditions, indices and ternary conditions are generated over control values only, so control flow does not depend on the indeterminates. For 3 random lines s0 + t*delta (t = 0..3) over all indeterminates (every signal element — signals keep their witness value when assigned —, every component port, every data parameter) the reference interpreter is run four times with identical control flow (asserted; otherwise the line is discarded and counted). For every IR expression node whose degree upper bound is constant/linear/quadratic and that maps to a generator node, and every dynamic occurrence, the (d+1)-th finite difference of its four values must vanish mod p (a polynomial of total degree <= d always passes; one of degree D > d escapes a line with probability <= D/p). CS0013 findings: the right-hand side must pass the test for d = 2. Non-trivial = program with a bounded node whose value actually varies along the line; distinct by source hash.",
            assumptions: vec![
                "only the three real primes (>= 2^64) are used, so the escape probability per line is negligible".into(),
                "`accepted by the Circom compiler` is read as total degree <= 2 (see DESIGN.md §3b)".into(),
            ],
            extra: json!({}),
        },
        start,
    )
}
