//! C03 — report conservation and the output contract (exit code, summary, SARIF, filters).

use crate::binrun::{self, Diag, RunOpts};
use crate::engine::*;
use crate::gen::proj::{gen_project, GenProject, ProjOpts};
use program_analysis::analysis_context::AnalysisContext;
use program_analysis::analysis_runner::AnalysisRunner;
use program_structure::cfg::IntoCfg;
use program_structure::constants::Curve;
use program_structure::file_definition::FileLibrary;
use program_structure::report::{MessageCategory, Report};
use serde_json::json;
use std::collections::BTreeMap;
use std::path::{Path, PathBuf};
use std::time::Instant;

/// A finding as the user sees it on stdout.
pub type Shown = (String, String, String, Option<(String, usize, usize)>);

pub fn severity_name(c: &MessageCategory) -> &'static str {
    match c {
        MessageCategory::Error => "error",
        MessageCategory::Warning => "warning",
        MessageCategory::Info => "note",
    }
}

fn level_rank(sev: &str) -> u8 {
    match sev {
        "error" => 2,
        "warning" => 1,
        _ => 0,
    }
}

/// The location codespan prints in the `┌─` line of the first file section:
/// the file of the first label; within it the earliest primary label (else the earliest label).
pub fn shown_location(r: &Report, files: &FileLibrary) -> Option<(String, usize, usize)> {
    let labels: Vec<(bool, usize, usize)> = r
        .primary()
        .iter()
        .map(|l| (true, l.file_id, l.range.start))
        .chain(r.secondary().iter().map(|l| (false, l.file_id, l.range.start)))
        .collect();
    let first_file = labels.first()?.1;
    let in_file: Vec<&(bool, usize, usize)> = labels.iter().filter(|l| l.1 == first_file).collect();
    let best = in_file.iter().filter(|l| l.0).min_by_key(|l| l.2).or_else(|| in_file.iter().min_by_key(|l| l.2))?;
    let file = files.to_storage().get(first_file).ok()?;
    let (line, col) = binrun::line_col(file.source(), best.2);
    Some((file.name().clone(), line, col))
}

pub fn shown_of_report(r: &Report, files: &FileLibrary) -> Shown {
    (severity_name(r.category()).to_string(), r.id(), r.message().clone(), shown_location(r, files))
}

pub fn shown_of_diag(d: &Diag) -> Shown {
    (d.severity.clone(), d.id.clone().unwrap_or_default(), d.message.clone(), d.loc.clone())
}

pub struct Reference {
    pub reports: Vec<Report>,
    pub files: FileLibrary,
    pub definitions: usize,
    pub cross_lookups: bool,
}

/// In-process reference: what must be displayed for these named files
/// (unfiltered apart from the only-included-file rule).
pub fn reference(named: &[PathBuf], libs: &[PathBuf], curve: &Curve) -> Result<Reference, String> {
    catch(|| {
        use parser::ParseResult;
        let (templates, functions, files, mut reports) =
            match parser::parse_files(named, libs, &program_analysis::config::COMPILER_VERSION) {
                ParseResult::Program(p, r) => (p.templates, p.functions, p.file_library, r),
                ParseResult::Library(l, r) => (l.templates, l.functions, l.file_library, r),
            };
        // a fresh runner only serves as the context for inter-procedural look-ups
        let (mut ctx, _) = AnalysisRunner::new(curve.clone()).with_libraries(libs).with_files(named);
        let mut definitions = 0;
        let mut cross = false;
        let mut fnames: Vec<&String> = functions.keys().collect();
        fnames.sort();
        for name in fnames {
            let f = &functions[name];
            if !files.is_user_input(f.get_file_id()) {
                continue;
            }
            definitions += 1;
            let mut rs = Vec::new();
            match f.into_cfg(curve, &mut rs) {
                Ok(cfg) => match cfg.into_ssa() {
                    Ok(cfg) => {
                        for pass in program_analysis::get_analysis_passes() {
                            rs.append(&mut pass(&mut ctx as &mut dyn AnalysisContext, &cfg));
                        }
                    }
                    Err(e) => rs.push(e.into()),
                },
                Err(e) => rs.push(e.into()),
            }
            reports.append(&mut rs);
        }
        let mut tnames: Vec<&String> = templates.keys().collect();
        tnames.sort();
        for name in tnames {
            let t = &templates[name];
            if !files.is_user_input(t.get_file_id()) {
                continue;
            }
            definitions += 1;
            let mut rs = Vec::new();
            match t.into_cfg(curve, &mut rs) {
                Ok(cfg) => match cfg.into_ssa() {
                    Ok(cfg) => {
                        for pass in program_analysis::get_analysis_passes() {
                            rs.append(&mut pass(&mut ctx as &mut dyn AnalysisContext, &cfg));
                        }
                        if format!("{cfg:?}").contains("component") {
                            cross = true;
                        }
                    }
                    Err(e) => rs.push(e.into()),
                },
                Err(e) => rs.push(e.into()),
            }
            reports.append(&mut rs);
        }
        // the only-included-file rule: a located report is displayed iff a primary label lies in a named file
        let user = files.user_inputs().clone();
        let reports: Vec<Report> = reports
            .into_iter()
            .filter(|r| r.primary_file_ids().is_empty() || r.primary_file_ids().iter().any(|f| user.contains(f)))
            .collect();
        Reference { reports, files, definitions, cross_lookups: cross }
    })
}

fn multiset<T: Ord + Clone>(v: impl IntoIterator<Item = T>) -> BTreeMap<T, usize> {
    let mut m = BTreeMap::new();
    for x in v {
        *m.entry(x).or_insert(0) += 1;
    }
    m
}

fn diff<T: Ord + Clone + std::fmt::Debug>(a: &BTreeMap<T, usize>, b: &BTreeMap<T, usize>) -> (Vec<(T, usize)>, Vec<(T, usize)>) {
    let mut only_a = Vec::new();
    let mut only_b = Vec::new();
    for (k, n) in a {
        let m = b.get(k).copied().unwrap_or(0);
        if *n > m {
            only_a.push((k.clone(), n - m));
        }
    }
    for (k, n) in b {
        let m = a.get(k).copied().unwrap_or(0);
        if *n > m {
            only_b.push((k.clone(), n - m));
        }
    }
    (only_a, only_b)
}

pub struct BinResult {
    pub out: binrun::RunOut,
    pub parsed: binrun::Parsed,
    pub shown: BTreeMap<Shown, usize>,
}

pub fn run_bin(ctx: &Ctx, opts: &RunOpts) -> Result<BinResult, Bad> {
    let out = binrun::run(&ctx.repo_bin, opts).map_err(|e| Bad::new(format!("INFRA {e}")))?;
    let parsed = binrun::parse_stdout(&out.stdout);
    let shown = multiset(parsed.diags.iter().map(shown_of_diag));
    Ok(BinResult { out, parsed, shown })
}

pub fn crashed(out: &binrun::RunOut) -> bool {
    out.signal.is_some() || !matches!(out.status, Some(0) | Some(1)) || out.stderr.contains("panicked at")
}

/// Exit status / summary / count contract of one run.
pub fn contract(b: &BinResult, what: &str) -> Verdict {
    let n = b.parsed.diags.len();
    let Some(summary) = &b.parsed.summary else {
        return Err(Bad::new(format!("{what}: no summary line")).sig("C03:no-summary"));
    };
    let count = binrun::summary_count(summary).unwrap_or(usize::MAX);
    if count != n {
        return Err(Bad::new(format!("{what}: the summary says `{summary}` but {n} diagnostics were displayed")).sig("C03:summary-count"));
    }
    let want = match n {
        0 => "No issues found.".to_string(),
        1 => "1 issue found.".to_string(),
        n => format!("{n} issues found."),
    };
    if *summary != want {
        return Err(Bad::new(format!("{what}: summary `{summary}`, expected `{want}`")).sig("C03:summary-form"));
    }
    if (n == 0) != (b.out.status == Some(0)) {
        return Err(Bad::new(format!("{what}: exit status {:?} with {n} displayed diagnostics", b.out.status)).sig("C03:exit-status"));
    }
    Ok(())
}

type Region = (String, u64, u64, u64, u64);

fn label_region(l: &program_structure::report::ReportLabel, files: &FileLibrary) -> Option<Region> {
    let f = files.to_storage().get(l.file_id).ok()?;
    let (sl, sc) = binrun::line_col(f.source(), l.range.start);
    let (el, ec) = binrun::line_col(f.source(), l.range.end);
    Some((format!("file://{}", f.name().replace('"', "")), sl as u64, sc as u64, el as u64, ec as u64))
}

fn sarif_check(b: &BinResult, sarif_path: &Path, expected: &[&Report], files: &FileLibrary, what: &str) -> Verdict {
    let printed_note = b.parsed.log.iter().any(|l| l.starts_with("Result written to"));
    let n = b.parsed.diags.len();
    if printed_note != (n > 0) {
        return Err(Bad::new(format!("{what}: {n} findings displayed but `Result written to` line present: {printed_note}")).sig("C03:sarif-note"));
    }
    if n == 0 {
        return Ok(());
    }
    let Some(text) = &b.out.sarif_text else {
        return Err(Bad::new(format!("{what}: `Result written to {}` but the file does not exist", sarif_path.display())).sig("C03:sarif-missing"));
    };
    let doc = binrun::parse_sarif(text).map_err(|e| Bad::new(format!("{what}: {e}")).sig("C03:sarif-parse"))?;
    type Row = (String, String, String, Vec<Region>, Vec<Region>);
    // the order of the labels inside one finding carries no meaning
    let sorted = |mut v: Vec<Region>| {
        v.sort();
        v
    };
    let got = multiset(doc.results.iter().map(|r| -> Row {
        (r.rule_id.clone(), r.level.clone(), r.message.clone(), sorted(r.locations.clone()), sorted(r.related.clone()))
    }));
    let want = multiset(expected.iter().map(|r| -> Row {
        (
            r.id(),
            r.category().to_level(),
            r.message().clone(),
            sorted(r.primary().iter().filter_map(|l| label_region(l, files)).collect()),
            sorted(r.secondary().iter().filter_map(|l| label_region(l, files)).collect()),
        )
    }));
    if got != want {
        let (a, bb) = diff(&got, &want);
        return Err(Bad::new(format!("{what}: SARIF results differ from the displayed findings; only in SARIF: {a:?}; only displayed: {bb:?}")).sig("C03:sarif-differs"));
    }
    // exactly one rule descriptor per id
    let ids = multiset(doc.rule_ids.iter().cloned());
    let used: std::collections::BTreeSet<String> = doc.results.iter().map(|r| r.rule_id.clone()).collect();
    for (id, k) in &ids {
        if *k != 1 {
            return Err(Bad::new(format!("{what}: {k} rule descriptors for id {id}")).sig("C03:sarif-rules"));
        }
    }
    let declared: std::collections::BTreeSet<String> = ids.keys().cloned().collect();
    if declared != used {
        return Err(Bad::new(format!("{what}: rule descriptors {declared:?} but results use {used:?}")).sig("C03:sarif-rules"));
    }
    Ok(())
}

fn scratch(ctx: &Ctx, tag: &str) -> PathBuf {
    let d = ctx.scratch.join(format!("{tag}-{:?}", std::thread::current().id()).replace(['(', ')'], ""));
    let _ = std::fs::remove_dir_all(&d);
    let _ = std::fs::create_dir_all(&d);
    d
}

pub fn check_project(ctx: &Ctx, p: &GenProject, t: &mut Tape, rec: &Rec) -> Verdict {
    let dir = scratch(ctx, "c03");
    let r = check_project_in(ctx, p, t, rec, &dir).map_err(|b| if b.rendered.is_empty() { b.rendered(p.describe()) } else { b });
    let _ = std::fs::remove_dir_all(&dir);
    r
}

fn check_project_in(ctx: &Ctx, p: &GenProject, t: &mut Tape, rec: &Rec, dir: &Path) -> Verdict {
    let named = p.write(dir).map_err(|e| Bad::new(format!("INFRA write: {e}")))?;
    let curve_name = ["BN254", "BLS12_381", "GOLDILOCKS"][t.below(3)];
    let curve = crate::obs::curve_by_name(curve_name);

    // unfiltered run U
    let base = RunOpts::files(&named).verbose().level("info").curve(curve_name);
    let u = run_bin(ctx, &base)?;
    if crashed(&u.out) {
        rec.class("crashed_skipped");
        return Ok(());
    }
    contract(&u, "unfiltered run")?;

    // 1. conservation against the in-process reference
    let reference = match reference(&named, &[], &curve) {
        Ok(r) => r,
        Err(p) => {
            rec.class("reference_panicked_skipped");
            let _ = p;
            return Ok(());
        }
    };
    let want = multiset(reference.reports.iter().map(|r| shown_of_report(r, &reference.files)));
    rec.class("projects");
    if p.failing_defs > 0 {
        rec.class("projects_with_definition_failing_ssa_after_cfg_warning");
    }
    if p.failing_templates.iter().any(|n| p.files.iter().any(|f| f.r.src.contains(&format!("= {n}(")))) {
        rec.class("projects_with_failing_template_instantiated");
    }
    if p.bom_files > 0 {
        rec.class("projects_with_byte_order_mark");
    }
    if p.sugared_defs > 0 {
        rec.class("projects_with_tuple_or_anonymous_component_statements");
    }
    if p.recursive_templates > 0 {
        rec.class("projects_with_template_instantiating_itself");
    }
    rec.class_n("definitions", reference.definitions as u64);
    let ids: std::collections::BTreeSet<String> = want.keys().map(|s| s.1.clone()).collect();
    let has_cfg_stage = ids.contains("CS0001");
    if has_cfg_stage {
        rec.class("projects_with_cfg_stage_report");
    }
    if reference.cross_lookups {
        rec.class("projects_with_components");
    }
    if ids.len() >= 2 && reference.cross_lookups && has_cfg_stage {
        rec.nontrivial(p.hash());
    }
    for id in &ids {
        rec.class(&format!("id:{id}"));
    }
    rec.sample(|| json!({"project": p.describe().chars().take(1500).collect::<String>(), "ids": ids, "curve": curve_name}));
    if u.shown != want {
        let (only_bin, only_ref) = diff(&u.shown, &want);
        return Err(Bad::new(format!(
            "displayed findings differ from the findings produced for the definitions of the named files:\n displayed but not produced: {only_bin:?}\n produced but not displayed (lost or duplicated): {only_ref:?}"
        ))
        .sig(if only_ref.is_empty() { "C03:extra-findings" } else { "C03:lost-findings" }));
    }

    // 2 + 3. SARIF == displayed (checked against the same reference reports), several option sets
    let sarif_path = dir.join("out.sarif");
    for level in ["info", "warning", "error"] {
        let mut o = base.clone();
        o.level = Some(level.into());
        o.sarif = Some(sarif_path.clone());
        // the path already holds a longer document of an earlier run
        o.stale_sarif = true;
        o.verbose = t.chance(128);
        let b = run_bin(ctx, &o)?;
        if crashed(&b.out) {
            continue;
        }
        contract(&b, &format!("--level {level} --sarif-file"))?;
        let expected: Vec<&Report> = reference.reports.iter().filter(|r| level_rank(severity_name(r.category())) >= level_rank(if level == "info" { "note" } else { level })).collect();
        if b.parsed.diags.len() != expected.len() {
            return Err(Bad::new(format!(
                "--level {level}: {} findings displayed, {} findings have at least that level",
                b.parsed.diags.len(),
                expected.len()
            ))
            .sig("C03:filter-level"));
        }
        sarif_check(&b, &sarif_path, &expected, &reference.files, &format!("--level {level}"))?;
        rec.class("sarif_runs");
    }

    // 4. filter laws over the lattice of levels and allow-subsets
    let id_list: Vec<String> = ids.iter().cloned().collect();
    let mut subsets: Vec<Vec<String>> = Vec::new();
    if id_list.len() <= 4 {
        for m in 0..(1u32 << id_list.len()) {
            subsets.push(id_list.iter().enumerate().filter(|(i, _)| m >> i & 1 == 1).map(|(_, s)| s.clone()).collect());
        }
    } else {
        subsets.push(vec![]);
        subsets.push(id_list.clone());
        for _ in 0..14 {
            let m = t.u64();
            subsets.push(id_list.iter().enumerate().filter(|(i, _)| m >> i & 1 == 1).map(|(_, s)| s.clone()).collect());
        }
    }
    for level in ["info", "warning", "error"] {
        for a in &subsets {
            let mut o = base.clone();
            o.level = Some(level.into());
            o.allow = a.clone();
            // an id that does not occur must not matter
            if t.chance(40) {
                o.allow.push("CS9999".into());
            }
            // the order in which the ids are given must not matter, for the SARIF file either
            match t.below(3) {
                0 => o.allow.reverse(),
                1 if o.allow.len() > 1 => o.allow.rotate_left(1),
                _ => {}
            }
            let with_sarif = o.allow.len() >= 2 && t.chance(100);
            let filter_sarif = dir.join("filter.sarif");
            if with_sarif {
                let _ = std::fs::remove_file(&filter_sarif);
                o.sarif = Some(filter_sarif.clone());
            }
            let b = run_bin(ctx, &o)?;
            if crashed(&b.out) {
                continue;
            }
            contract(&b, &format!("--level {level} --allow {a:?}"))?;
            if with_sarif {
                rec.class("filter_runs_with_sarif");
                let mut shown_ids: Vec<String> = b.parsed.diags.iter().filter_map(|d| d.id.clone()).collect();
                shown_ids.sort();
                let mut sarif_ids: Vec<String> = match &b.out.sarif_text {
                    Some(text) => binrun::parse_sarif(text).map_err(|e| Bad::new(e).sig("C03:sarif-parse"))?.results.iter().map(|r| r.rule_id.clone()).collect(),
                    None => Vec::new(),
                };
                sarif_ids.sort();
                if shown_ids != sarif_ids {
                    return Err(Bad::new(format!(
                        "--level {level} --allow {:?} --sarif-file: the SARIF file holds results {sarif_ids:?} but the displayed findings are {shown_ids:?}",
                        o.allow
                    ))
                    .sig("C03:sarif-vs-displayed-under-allow"));
                }
            }
            let want_f = multiset(
                u.parsed
                    .diags
                    .iter()
                    .map(shown_of_diag)
                    .filter(|s| level_rank(&s.0) >= level_rank(if level == "info" { "note" } else { level }) && !a.contains(&s.1)),
            );
            if b.shown != want_f {
                let (x, y) = diff(&b.shown, &want_f);
                return Err(Bad::new(format!(
                    "--level {level} --allow {a:?}: displayed findings are not exactly the unfiltered findings with level >= {level} and id not allowed; extra: {x:?}; missing: {y:?}"
                ))
                .sig("C03:filter-law"));
            }
            rec.class("filter_runs");
        }
    }

    // naming an extra file only adds findings located in that file
    let extra: Vec<usize> = (0..p.files.len()).filter(|i| !p.named.contains(i)).collect();
    if let Some(&e) = extra.first() {
        let mut files2 = named.clone();
        let extra_path = dir.join(&p.files[e].rel);
        files2.push(extra_path.clone());
        let mut o = base.clone();
        o.files = files2;
        let b = run_bin(ctx, &o)?;
        if !crashed(&b.out) {
            let (lost, added) = diff(&u.shown, &b.shown);
            if !lost.is_empty() {
                return Err(Bad::new(format!("naming the extra file {} removes findings: {lost:?}", p.files[e].rel)).sig("C03:extra-file-removes"));
            }
            let extra_canon = std::fs::canonicalize(&extra_path).unwrap_or(extra_path.clone());
            for (s, _) in &added {
                if let Some((file, _, _)) = &s.3 {
                    let c = std::fs::canonicalize(file).unwrap_or_else(|_| PathBuf::from(file));
                    if c != extra_canon {
                        return Err(Bad::new(format!("naming the extra file {} adds a finding located elsewhere: {s:?}", p.files[e].rel)).sig("C03:extra-file-adds-elsewhere"));
                    }
                }
            }
            rec.class("extra_file_runs");
        }
    }
    Ok(())
}

fn case(ctx: &Ctx, tape: &[u8], rec: &Rec) -> Verdict {
    let mut t = Tape::new(tape);
    let p = gen_project(&mut t, ProjOpts { sugar_chance: 60, ..ProjOpts::default() });
    check_project(ctx, &p, &mut t, rec)
}

/// Replay of a committed reproducer file/dir: conservation + contract only.
fn replay_known(ctx: &Ctx, k: &Known) -> Verdict {
    let mut parts = k.repro.split_whitespace();
    let named: Vec<PathBuf> = parts.by_ref().map(PathBuf::from).collect();
    let base = RunOpts::files(&named).verbose().level("info");
    let u = run_bin(ctx, &base)?;
    if crashed(&u.out) {
        return Err(Bad::new(format!("{}: crashed", k.repro)).sig("C03:crash"));
    }
    contract(&u, "unfiltered run").map_err(|b| b.sig(k.signature.clone()))?;
    let reference = reference(&named, &[], &Curve::Bn254).map_err(|p| Bad::new(format!("reference panicked: {p}")))?;
    let want = multiset(reference.reports.iter().map(|r| shown_of_report(r, &reference.files)));
    if u.shown != want {
        let (only_bin, only_ref) = diff(&u.shown, &want);
        return Err(Bad::new(format!("{}: displayed but not produced: {only_bin:?}; produced but not displayed: {only_ref:?}", k.repro)).sig(k.signature.clone()));
    }
    Ok(())
}

/// A definition name defined twice (in one file, or in two named files), with or without a main
/// component: the duplicate-definition error is displayed exactly once per surplus definition, on
/// stdout and in the SARIF file, whichever code path builds the program.
fn duplicate_once_case(ctx: &Ctx, tape: &[u8], rec: &Rec) -> Verdict {
    let mut t = Tape::new(tape);
    let with_main = t.chance(170);
    let mut p = gen_project(&mut t, ProjOpts { max_files: 2, max_defs: 3, main_component: with_main, clean: true, ..ProjOpts::default() });
    let i = t.below(p.files.len());
    let j = if p.files.len() > 1 && t.chance(100) { (i + 1) % p.files.len() } else { i };
    let d = p.files[i].ast.defs[t.below(p.files[i].ast.defs.len())].clone();
    let params = d.params.join(", ");
    let text = if matches!(d.kind, crate::gen::ast::DefKind::Function) {
        format!("\nfunction {}({params}) {{\n    return 1;\n}}\n", d.name)
    } else {
        format!("\ntemplate {}({params}) {{\n    signal input zdi;\n    signal output zdo;\n    zdo <== zdi;\n}}\n", d.name)
    };
    let src = p.files[j].r.src.clone();
    let at = p.files[j].ast.main.as_ref().and_then(|m| p.files[j].r.span(m.id)).map(|s| s.0).unwrap_or(src.len());
    p.files[j].r.src = format!("{}{text}{}", &src[..at], &src[at..]);
    p.named = (0..p.files.len()).collect();
    let dir = scratch(ctx, "c03d");
    let res = (|| -> Verdict {
        let named = p.write(&dir).map_err(|e| Bad::new(format!("INFRA write: {e}")))?;
        let sarif_path = dir.join("d.sarif");
        let mut o = RunOpts::files(&named).verbose().level("info");
        o.sarif = Some(sarif_path);
        let b = run_bin(ctx, &o)?;
        if crashed(&b.out) {
            rec.class("crashed_skipped");
            return Ok(());
        }
        rec.class("duplicate_definition_projects");
        rec.class(if p.files.iter().any(|f| f.ast.main.is_some()) { "duplicate_definition_projects_with_main" } else { "duplicate_definition_projects_without_main" });
        rec.nontrivial(p.hash());
        contract(&b, "project with a duplicated definition")?;
        let shown = b.parsed.diags.iter().filter(|d| d.message.contains("Duplicated")).count();
        let in_sarif = match &b.out.sarif_text {
            Some(text) => binrun::parse_sarif(text).map_err(|e| Bad::new(e).sig("C03:sarif-parse"))?.results.iter().filter(|r| r.message.contains("Duplicated")).count(),
            None => 0,
        };
        if shown != 1 || in_sarif != 1 {
            return Err(Bad::new(format!(
                "one surplus definition of `{}`: the duplicate-definition error is displayed {shown} time(s) and written to the SARIF file {in_sarif} time(s)",
                d.name
            ))
            .sig("C03:duplicate-definition-error-count"));
        }
        Ok(())
    })()
    .map_err(|b| if b.rendered.is_empty() { b.rendered(p.describe()) } else { b });
    let _ = std::fs::remove_dir_all(&dir);
    res
}

pub fn replay(ctx: &Ctx, check: &str, tape: &[u8]) -> Verdict {
    let stats = Stats::new();
    let rec = Rec::new(&stats, false);
    match check {
        "projects" => case(ctx, tape, &rec),
        "duplicate_once" => duplicate_once_case(ctx, tape, &rec),
        _ => Err(Bad::new(format!("unknown check {check}"))),
    }
}

pub fn run(ctx: &Ctx) -> i32 {
    let start = Instant::now();
    let stats = Stats::new();
    let mut outcome = Outcome::new();
    let known = load_known("C03");
    for k in &known {
        let r = replay_known(ctx, k);
        outcome.known_replay(k, r);
    }
    let fails = run_tapes_opts(ctx, "projects", ctx.tier.pick(240, 4_000), 3000, 60, &stats, |tape, rec| case(ctx, tape, rec));
    outcome.absorb(&known, fails);
    let fails = run_tapes_opts(ctx, "duplicate_once", ctx.tier.pick(200, 4_000), 3000, 40, &stats, |tape, rec| duplicate_once_case(ctx, tape, rec));
    outcome.absorb(&known, fails);
    finish(
        ctx,
        &stats,
        &outcome,
        EvidenceSpec {
            level: "exploration",
            rule: "generated projects (1-3 files with includes, 1-4 functions/templates each that call and instantiate each other, shadowing declarations, optional main component, random layout/comments, random curve) are written to disk and run through the real binary. (1) conservation: the multiset of displayed (severity, id, message, file:line:col) must equal an in-process reference = reports of parse_files + for every definition of a named file the reports of into_cfg/into_ssa called directly on it + the reports of every analysis pass on that CFG (a fresh runner only answers look-ups), i.e. everything except the caches, ordering, writers, filters and main; (2) contract: exit 0 iff nothing displayed, summary count and singular/plural form; (3) with --sarif-file at each level: results = displayed findings with rule id, level, message and the regions of all primary/related labels recomputed from the source bytes, exactly one rule descriptor per id, `Result written` iff something was displayed; (4) filter laws: for each level and every allow-subset of the occurring ids (all subsets when <= 4 ids, else 16) displayed = {f in unfiltered | level(f) >= L and id not allowed}; naming an extra file only adds findings located in it; in a share of the filter runs the allow list is given in another order together with --sarif-file and the SARIF ids must equal the displayed ids. (5) projects with one surplus definition of a name (same file or a second named file, with or without a main component): the duplicate-definition error appears exactly once on stdout and in the SARIF file. Non-trivial = project with >= 2 distinct ids, a component instantiation and a CFG-stage report (CS0001); distinct by project hash. Each evaluation is a project (about 30-60 binary runs).",
            assumptions: vec![
                "the reference shares the individual passes and into_cfg/into_ssa with the tool; it bypasses what the property is about".into(),
                "a report without any location is not `located solely in an included file` and must be displayed".into(),
            ],
            extra: json!({"binary_runs": stats.class_count("filter_runs") + stats.class_count("sarif_runs") + stats.class_count("extra_file_runs") + stats.class_count("projects")}),
        },
        start,
    )
}
