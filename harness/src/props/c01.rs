//! C01 — totality: no input makes the analyzer panic, abort, overflow its stack,
//! exhaust memory or hang; it ends with status 0/1 after its summary line.

use crate::binrun::{self, RunOpts, RunOut};
use crate::engine::*;
use crate::gen;
use serde_json::json;
use std::path::{Path, PathBuf};
use std::sync::atomic::{AtomicBool, Ordering};
use std::time::Instant;

pub const TERMINALS: [&str; 96] = [
    "pragma circom", "pragma", "custom_templates", "include", "function", "template", "custom", "parallel",
    "component", "main", "public", "signal", "input", "output", "var", "if", "else", "for", "while", "return",
    "assert", "log", "(", ")", "[", "]", "{", "}", ";", ",", ".", "=", "<--", "<==", "-->", "==>", "===", "\\=",
    "**=", "+=", "-=", "*=", "/=", "%=", "<<=", ">>=", "&=", "|=", "^=", "++", "--", "?", ":", "||", "&&", "==",
    "!=", "<", ">", "<=", ">=", "|", "^", "&", "<<", ">>", "+", "-", "*", "/", "\\", "%", "**", "!", "~", "_",
    "0", "1", "255", "0x1F", "0x", "21888242871839275222246405745257275088548364400416034343698204186575808495617",
    "a", "b", "in", "out", "T", "f", "$x", "_y", "\"s\"", "\"\"", "2.1.4", "99999999999999999999",
    "/*", "*/",
];

/// Why a run is not a clean termination, with a root-cause signature.
pub fn judge(out: &RunOut, cpu_secs: u64) -> Result<(), (String, String)> {
    let stderr = &out.stderr;
    if let Some(pos) = stderr.find("panicked at ") {
        let rest = &stderr[pos + "panicked at ".len()..];
        let loc: String = rest.lines().next().unwrap_or("").trim_end_matches(':').to_string();
        let file_line = loc.rsplit('/').next().unwrap_or(&loc).to_string();
        let parts: Vec<&str> = file_line.split(':').collect();
        let short = if parts.len() >= 2 { format!("{}:{}", parts[0], parts[1]) } else { file_line.clone() };
        let msg = rest.lines().nth(1).unwrap_or("").trim().to_string();
        return Err((format!("panic at {loc}: {msg}"), format!("C01:panic:{short}")));
    }
    if stderr.contains("has overflowed its stack") || stderr.contains("stack overflow") {
        return Err(("stack overflow".into(), "C01:stack-overflow".into()));
    }
    if stderr.contains("memory allocation of") {
        return Err(("memory exhausted (allocation failure)".into(), "C01:oom".into()));
    }
    if let Some(sig) = out.signal {
        let what = match sig {
            24 | 9 => format!("killed by signal {sig} (CPU limit of {cpu_secs} s or memory limit exceeded)"),
            11 => "segmentation fault".into(),
            6 => "abort".into(),
            _ => format!("killed by signal {sig}"),
        };
        let s = match sig {
            24 | 9 => "C01:resource-limit".to_string(),
            _ => format!("C01:signal:{sig}"),
        };
        return Err((what, s));
    }
    match out.status {
        Some(0) | Some(1) => {}
        other => return Err((format!("exit status {other:?}"), format!("C01:exit-status:{other:?}"))),
    }
    let last = out.stdout.lines().last().unwrap_or("");
    let ok = last.strip_prefix("circomspect: ").map(binrun::is_summary).unwrap_or(false);
    if !ok {
        return Err((format!("the last line of stdout is not the summary line: {last:?}"), "C01:no-summary".into()));
    }
    let n = last.strip_prefix("circomspect: ").and_then(binrun::summary_count).unwrap_or(0);
    if (n == 0) != (out.status == Some(0)) {
        return Err((format!("exit status {:?} does not match the summary {last:?}", out.status), "C01:status-vs-summary".into()));
    }
    Ok(())
}

pub struct Project {
    pub files: Vec<(String, Vec<u8>)>,
}

/// A stack overflow on an input with a very deeply nested statement is the recorded finding F20;
/// any other stack overflow keeps the generic signature and is a violation of its own.
fn refine_signature(sig: String, files: &[&[u8]]) -> String {
    if sig != "C01:stack-overflow" {
        return sig;
    }
    let deep = files.iter().any(|f| {
        f.split(|b| matches!(b, b';' | b'{' | b'}'))
            .any(|stmt| stmt.iter().filter(|b| b"+-*/%&|^<>=!~?([,".contains(b)).count() >= 1000)
    });
    if deep {
        "C01:stack-overflow:deep-expression".to_string()
    } else {
        sig
    }
}

fn options(t: &mut Tape, files: &[PathBuf], dir: &Path) -> RunOpts {
    let mut o = RunOpts::files(files);
    o.cpu_secs = 120;
    if t.chance(170) {
        o.curve = Some(["BN254", "BLS12_381", "GOLDILOCKS", "bn254", "Goldilocks"][t.below(5)].to_string());
    }
    if t.chance(170) {
        o.level = Some(["info", "warning", "error", "INFO", "Warning"][t.below(5)].to_string());
    }
    o.verbose = t.chance(128);
    if t.chance(80) {
        o.sarif = Some(dir.join("out.sarif"));
    }
    if t.chance(60) {
        for _ in 0..1 + t.below(3) {
            o.allow.push(["CS0005", "CS0004", "CS0008", "P1000", "CA01", "CS0001", "XX"][t.below(7)].to_string());
        }
    }
    o
}

/// Set once a generated case has exceeded both its first CPU budget and the 4x budget of its re-run.
static HANG_CONFIRMED: AtomicBool = AtomicBool::new(false);

/// CPU budget of the first run of a generated project.  On the unchanged tree the slowest generated
/// input takes about a second (`coverage.budgets.slowest_binary_run_wall_ms` in the evidence); the
/// documented time box of the analyses is 2 x 10 s.  A hit is re-run with four times the budget
/// before it counts.  The quick tier uses a quarter of the thorough budgets so that a run against a
/// tree that hangs on many inputs stays within minutes.
fn first_budget(ctx: &Ctx, tag: &str) -> u64 {
    match (ctx.tier, tag == "deep") {
        (Tier::Quick, false) => 30,
        (Tier::Quick, true) => 10,
        (Tier::Thorough, false) => 120,
        (Tier::Thorough, true) => 30,
    }
}

fn scratch(ctx: &Ctx, tag: &str) -> PathBuf {
    let d = ctx.scratch.join(format!("{tag}-{:?}", std::thread::current().id()).replace(['(', ')'], ""));
    let _ = std::fs::remove_dir_all(&d);
    let _ = std::fs::create_dir_all(&d);
    d
}

fn describe(project: &Project, opts: &RunOpts) -> String {
    let mut s = format!("args: {:?}\n", opts.args());
    for (n, c) in &project.files {
        s.push_str(&format!("--- {n} ({} bytes)\n{}\n", c.len(), String::from_utf8_lossy(c)));
    }
    s
}

/// Run one project; on a resource-limit hit re-run alone with 4x budget before it counts.
fn run_project(ctx: &Ctx, project: &Project, t: &mut Tape, rec: &Rec, tag: &str) -> Verdict {
    let dir = scratch(ctx, tag);
    let mut paths = Vec::new();
    for (name, content) in &project.files {
        let p = dir.join(name);
        std::fs::write(&p, content).map_err(|e| Bad::new(format!("INFRA write: {e}")))?;
        paths.push(p);
    }
    let mut opts = options(t, &paths, &dir);
    opts.cpu_secs = first_budget(ctx, tag);
    let out = binrun::run(&ctx.repo_bin, &opts).map_err(|e| Bad::new(format!("INFRA {e}")))?;
    let mut verdict = judge(&out, opts.cpu_secs);
    if let Err((_, sig)) = &verdict {
        if sig == "C01:resource-limit" {
            if HANG_CONFIRMED.load(Ordering::Relaxed) {
                // Some earlier case of this process already exceeded the first budget and four times
                // that budget on its re-run: the run is going to report a violation with this
                // signature in any case.  Further hits (mostly shrink candidates of that case) are
                // taken at the first budget; `--replay` starts a new process and confirms in full.
                rec.class("resource_limit_hits_not_rerun_after_a_confirmed_one");
            } else {
                opts.cpu_secs *= 4;
                let again = binrun::run(&ctx.repo_bin, &opts).map_err(|e| Bad::new(format!("INFRA {e}")))?;
                verdict = judge(&again, opts.cpu_secs);
                match &verdict {
                    Err((_, sig)) if sig == "C01:resource-limit" => HANG_CONFIRMED.store(true, Ordering::Relaxed),
                    _ => rec.class("resource_limit_hits_cleared_by_rerun"),
                }
            }
        }
    }
    // statistics
    let parsed = binrun::parse_stdout(&out.stdout);
    let analysed = parsed.log.iter().any(|l| l.starts_with("analyzing "));
    if analysed {
        rec.class("stage:analysed");
        rec.nontrivial(fnv(&project.files.iter().flat_map(|f| f.1.clone()).collect::<Vec<u8>>()));
    } else if parsed.diags.iter().any(|d| d.message.contains("token") || d.message.contains("Unterminated") || d.message.contains("version")) {
        rec.class("stage:rejected_by_lexer_or_parser");
    } else if parsed.diags.iter().any(|d| d.message.contains("Failed to open")) {
        rec.class("stage:unreadable");
    } else {
        rec.class("stage:no_definitions_or_other");
    }
    for d in &parsed.diags {
        if let Some(id) = &d.id {
            rec.class(&format!("id:{id}"));
        }
    }
    rec.sample(|| json!({"kind": tag, "args": opts.args()[..opts.args().len().saturating_sub(paths.len())].to_vec(),
        "files": project.files.iter().map(|f| String::from_utf8_lossy(&f.1).chars().take(400).collect::<String>()).collect::<Vec<_>>(),
        "exit": out.status, "summary": parsed.summary}));
    let _ = std::fs::remove_dir_all(&dir);
    match verdict {
        Ok(()) => Ok(()),
        Err((why, sig)) => Err(Bad::new(format!("{why} (exit {:?}, signal {:?})", out.status, out.signal))
            .sig(refine_signature(sig, &project.files.iter().map(|f| f.1.as_slice()).collect::<Vec<_>>()))
            .rendered(describe(project, &opts))),
    }
}

fn random_layout(t: &mut Tape, printed: &gen::print::Printed) -> String {
    let trivia = if t.chance(128) {
        gen::text::random_trivia(printed, t, gen::text::LayoutOpts { comment_chance: 30, crlf: true }).0
    } else {
        gen::print::plain_trivia(printed)
    };
    gen::print::render(printed, &trivia).src
}

fn grammar_file(t: &mut Tape) -> (gen::print::Printed, &'static str) {
    if t.chance(150) {
        let f = gen::wild::wild_file(t);
        (gen::print::print_file(&f, t.chance(30)), "wild")
    } else {
        let f = gen::full::small_file(t);
        (gen::print::print_file(&f, t.chance(30)), "valid")
    }
}

fn grammar_case(ctx: &Ctx, tape: &[u8], rec: &Rec) -> Verdict {
    let mut t = Tape::new(tape);
    let nfiles = 1 + if t.chance(60) { t.below(3) } else { 0 };
    let mut files = Vec::new();
    for i in 0..nfiles {
        let (printed, kind) = grammar_file(&mut t);
        rec.class(&format!("grammar:{kind}"));
        files.push((format!("f{i}.circom"), random_layout(&mut t, &printed).into_bytes()));
    }
    run_project(ctx, &Project { files }, &mut t, rec, "grammar")
}

fn mutate_tokens(t: &mut Tape, printed: &gen::print::Printed) -> Vec<u8> {
    let mut toks = printed.tokens.clone();
    let n = 1 + t.below(3);
    for _ in 0..n {
        if toks.is_empty() {
            break;
        }
        let i = t.below(toks.len());
        match t.below(7) {
            6 => {
                // drop a declaration keyword (`var x = 1;` becomes an assignment to an undeclared name,
                // `signal input a;` an expression statement): still accepted by the grammar
                let kws: Vec<usize> = toks.iter().enumerate().filter(|(_, x)| matches!(x.as_str(), "var" | "signal" | "component")).map(|(k, _)| k).collect();
                if !kws.is_empty() {
                    toks.remove(kws[t.below(kws.len())]);
                } else {
                    toks.remove(i);
                }
            }
            0 => {
                toks.remove(i);
            }
            1 => {
                let x = toks[i].clone();
                toks.insert(i, x);
            }
            2 => {
                let j = (i + 1).min(toks.len() - 1);
                toks.swap(i, j);
            }
            3 => toks[i] = TERMINALS[t.below(TERMINALS.len())].to_string(),
            4 => toks.insert(i, TERMINALS[t.below(TERMINALS.len())].to_string()),
            _ => toks.truncate(i),
        }
    }
    let mut bytes = toks.join(" ").into_bytes();
    if t.chance(50) && !bytes.is_empty() {
        // splice raw bytes (valid or invalid UTF-8)
        let pos = t.below(bytes.len());
        let junk: Vec<u8> = match t.below(4) {
            0 => vec![0xff, 0xfe],
            1 => "é∀".as_bytes().to_vec(),
            2 => vec![0],
            _ => (0..1 + t.below(4)).map(|_| t.byte()).collect(),
        };
        bytes.splice(pos..pos, junk);
    }
    bytes
}

fn near_valid_case(ctx: &Ctx, tape: &[u8], rec: &Rec) -> Verdict {
    let mut t = Tape::new(tape);
    let (printed, kind) = grammar_file(&mut t);
    rec.class(&format!("near_valid_from:{kind}"));
    let bytes = mutate_tokens(&mut t, &printed);
    run_project(ctx, &Project { files: vec![("m.circom".into(), bytes)] }, &mut t, rec, "near_valid")
}

fn bytes_case(ctx: &Ctx, tape: &[u8], rec: &Rec) -> Verdict {
    let mut t = Tape::new(tape);
    let content: Vec<u8> = match t.below(3) {
        0 => {
            rec.class("bytes:raw");
            let n = t.remaining();
            (0..n).map(|_| t.byte()).collect()
        }
        1 => {
            rec.class("bytes:token_soup");
            let mut s = String::new();
            while !t.exhausted() && s.len() < 3000 {
                s.push_str(TERMINALS[t.below(TERMINALS.len())]);
                s.push(' ');
            }
            s.into_bytes()
        }
        _ => {
            rec.class("bytes:ascii");
            let n = t.remaining();
            (0..n).map(|_| 32 + (t.byte() % 95)).collect()
        }
    };
    let mut t2 = Tape::new(&tape[..tape.len().min(8)]);
    run_project(ctx, &Project { files: vec![("b.circom".into(), content)] }, &mut t2, rec, "bytes")
}

/// Small inputs with one deeply nested construct (depth 10..=max per shape, far below the
/// ~2000 levels at which the recursive visitors overflow the stack, finding F20).
pub fn deep_source(t: &mut Tape) -> (String, &'static str, usize) {
    const SHAPES: [(&str, usize); 16] = [
        ("right-nested operators", 400),
        ("left operator chain", 400),
        ("horner", 400),
        ("nested conditional expressions", 300),
        ("nested prefix operators", 400),
        ("nested array indices", 40),
        ("nested calls", 400),
        ("nested if statements", 200),
        ("else-if chain", 200),
        ("nested parentheses", 400),
        ("nested array literals", 400),
        ("nested blocks", 400),
        ("nested loops", 12),
        ("nested tuples", 300),
        ("nested anonymous components", 60),
        ("nested index and call mix", 40),
    ];
    let (name, max) = SHAPES[t.below(SHAPES.len())];
    let d = 10 + t.below(max - 9);
    let ops = ["+", "*", "-", "/", "\\", "%", "**", "&", "|", "^", "<<", ">>", "<", "==", "&&", "||"];
    let atoms = ["a", "b", "n", "3", "x[1]", "0"];
    let mut e = atoms[t.below(atoms.len())].to_string();
    let mut pre = String::new();
    let mut stmt = String::new();
    match name {
        "right-nested operators" => {
            for _ in 0..d {
                e = format!("({} {} {e})", atoms[t.below(3)], ops[t.below(ops.len())]);
            }
        }
        "left operator chain" => {
            let op = ops[t.below(ops.len())];
            e = (0..=d).map(|i| atoms[i % 3]).collect::<Vec<_>>().join(&format!(" {op} "));
        }
        "horner" => {
            e = "1".into();
            for i in 0..d {
                e = format!("{} + a*({e})", i % 7);
            }
        }
        "nested conditional expressions" => {
            let data = t.chance(128);
            for i in 0..d {
                e = format!("({} == {i} ? {} : {e})", if data { "a" } else { "n" }, atoms[t.below(atoms.len())]);
            }
        }
        "nested prefix operators" => {
            let op = ["-", "!", "~"][t.below(3)];
            e = format!("{}a{}", format!("{op}(").repeat(d), ")".repeat(d));
        }
        "nested array indices" => {
            e = "0".into();
            for _ in 0..d {
                e = format!("x[{e}]");
            }
        }
        "nested calls" => {
            for _ in 0..d {
                e = format!("f({e})");
            }
        }
        "nested if statements" => {
            stmt = format!("{}o <-- a;{}", "if (n > 0) { ".repeat(d), " }".repeat(d));
        }
        "else-if chain" => {
            stmt = "if (n == 0) { o <-- a; }".to_string();
            for i in 1..d {
                stmt.push_str(&format!(" else if (n == {i}) {{ o <-- b; }}"));
            }
        }
        "nested parentheses" => {
            e = format!("{}a{}", "(".repeat(d), ")".repeat(d));
        }
        "nested array literals" => {
            pre = format!("var y = {}1{};", "[".repeat(d), "]".repeat(d));
        }
        "nested blocks" => {
            stmt = format!("{} o <-- a; {}", "{".repeat(d), "}".repeat(d));
        }
        "nested loops" => {
            for i in 0..d {
                stmt.push_str(&format!("for (var i{i} = 0; i{i} < 2; i{i}++) {{ "));
            }
            stmt.push_str("x[0] = x[0] + 1;");
            stmt.push_str(&" }".repeat(d));
            stmt.push_str(" o <-- a;");
        }
        "nested tuples" => {
            for _ in 0..d {
                e = format!("({e}, b)");
            }
        }
        "nested anonymous components" => {
            for _ in 0..d {
                e = format!("Id()({e})");
            }
        }
        _ => {
            e = "0".into();
            for i in 0..d {
                e = if i % 2 == 0 { format!("x[f({e}) % 2]") } else { format!("f(x[{e}])") };
            }
        }
    }
    if stmt.is_empty() {
        stmt = match t.below(4) {
            0 => format!("o <-- {e};"),
            1 => format!("var v = {e}; o <-- v;"),
            2 => format!("o <== {e};"),
            _ => format!("if ({e}) {{ o <-- a; }} else {{ o <-- b; }}"),
        };
    }
    let in_function = t.chance(50) && !stmt.contains("<--") && !stmt.contains("<==");
    let src = if in_function {
        format!("pragma circom 2.0.0;\nfunction f(x) {{ return x + 1; }}\nfunction g(a, b, n) {{ var x[2] = [0, 1]; var o; {pre}\n{stmt}\nreturn o; }}\n")
    } else {
        format!(
            "pragma circom 2.0.0;\nfunction f(x) {{ return x + 1; }}\ntemplate Id() {{ signal input i; signal output o; o <== i; }}\ntemplate D(n) {{ signal input a; signal input b; signal output o; var x[2] = [0, 1]; {pre}\n{stmt}\n}}\n{}",
            if t.chance(100) { "component main = D(3);\n" } else { "" }
        )
    };
    (src, name, d)
}

fn deep_case(ctx: &Ctx, tape: &[u8], rec: &Rec) -> Verdict {
    let mut t = Tape::new(tape);
    let (src, shape, depth) = deep_source(&mut t);
    rec.class(&format!("deep:{shape}"));
    rec.class_n("deep:total_depth", depth as u64);
    run_project(ctx, &Project { files: vec![("d.circom".into(), src.into_bytes())] }, &mut t, rec, "deep")
}

/// Include projects of C19 (cycles, diamonds, self includes, `-L` directories and files, symlinks,
/// directory arguments): only termination and the exit status are judged here.
fn include_project_case(ctx: &Ctx, tape: &[u8], rec: &Rec) -> Verdict {
    let (out, cpu, described) = super::c19::run_generated_project(ctx, tape, "c01inc")?;
    rec.class("include_projects");
    rec.nontrivial(fnv(described.as_bytes()));
    if let Err((why, sig)) = judge(&out, cpu) {
        return Err(Bad::new(why).sig(sig).rendered(described));
    }
    Ok(())
}

/// Directory arguments: trees with ordinary files, non-Circom files, nested directories and symlink
/// cycles (`self -> .`, `up -> ..`, a cycle between two directories).
fn directory_cases(ctx: &Ctx, stats: &Stats) -> Vec<Failure> {
    let root = scratch(ctx, "dirs");
    let valid = "pragma circom 2.0.0;\ntemplate T() { signal input a; signal output b; b <-- a * a; }\n";
    let mk = |rel: &str, content: &str| {
        let p = root.join(rel);
        let _ = std::fs::create_dir_all(p.parent().unwrap());
        let _ = std::fs::write(p, content);
    };
    mk("plain/a.circom", valid);
    mk("plain/sub/b.circom", valid);
    mk("plain/notes.txt", "not circom");
    mk("selfloop/a.circom", valid);
    let _ = std::os::unix::fs::symlink(".", root.join("selfloop/self"));
    mk("uploop/sub/b.circom", valid);
    let _ = std::os::unix::fs::symlink("..", root.join("uploop/sub/up"));
    mk("pair/x/a.circom", valid);
    mk("pair/y/b.circom", "pragma circom 2.0.0;\ntemplate U() { signal input a; }\n");
    let _ = std::os::unix::fs::symlink("../y", root.join("pair/x/to_y"));
    let _ = std::os::unix::fs::symlink("../x", root.join("pair/y/to_x"));
    mk("empty/.keep", "");
    let _ = std::os::unix::fs::symlink("nowhere", root.join("plain/dangling"));
    let args: Vec<Vec<&str>> = vec![
        vec!["plain"],
        vec!["plain/sub", "plain"],
        vec!["selfloop"],
        vec!["uploop"],
        vec!["uploop/sub"],
        vec!["pair"],
        vec!["pair/x", "pair/y"],
        vec!["empty"],
        vec!["plain", "selfloop", "uploop", "pair", "empty"],
    ];
    let fails = run_items(ctx, &args, |_, a| {
        for curve in ["BN254", "GOLDILOCKS"] {
            let files: Vec<PathBuf> = a.iter().map(|x| root.join(x)).collect();
            let mut opts = RunOpts::files(&files).verbose().level("info").curve(curve);
            opts.cpu_secs = 60;
            let out = binrun::run(&ctx.repo_bin, &opts).map_err(|e| Bad::new(format!("INFRA {e}")))?;
            stats.eval(1);
            stats.class("directory_argument_runs");
            if let Err((why, sig)) = judge(&out, opts.cpu_secs) {
                return Err(Bad::new(format!("directory arguments {a:?} under {curve}: {why}")).sig(sig).rendered(format!("{a:?}")));
            }
        }
        Ok(())
    });
    let _ = std::fs::remove_dir_all(&root);
    fails
        .into_iter()
        .map(|(i, b)| Failure { check: "directories".into(), tape: args[i].join(" ").into_bytes(), reason: b.reason, signature: b.signature, rendered: b.rendered })
        .collect()
}

/// Replay a committed file: must terminate cleanly under all three curves.
fn file_case(ctx: &Ctx, path: &str) -> Verdict {
    for curve in ["BN254", "BLS12_381", "GOLDILOCKS"] {
        let mut opts = RunOpts::files(&[path]).verbose().level("info").curve(curve);
        opts.cpu_secs = 120;
        let out = binrun::run(&ctx.repo_bin, &opts).map_err(|e| Bad::new(format!("INFRA {e}")))?;
        if let Err((why, sig)) = judge(&out, opts.cpu_secs) {
            let content = std::fs::read(path).unwrap_or_default();
            return Err(Bad::new(format!("{path} under {curve}: {why}")).sig(refine_signature(sig, &[content.as_slice()])).rendered(path.to_string()));
        }
    }
    Ok(())
}

fn corpus_files() -> Vec<String> {
    let mut v = Vec::new();
    for dir in ["/verif/corpus/probes", "/verif/known", "/verif/corpus/c01"] {
        if let Ok(rd) = std::fs::read_dir(dir) {
            for e in rd.flatten() {
                let p = e.path();
                if p.extension().map(|x| x == "circom").unwrap_or(false) {
                    v.push(p.display().to_string());
                }
            }
        }
    }
    v.sort();
    v
}

pub fn replay(ctx: &Ctx, check: &str, tape: &[u8]) -> Verdict {
    let stats = Stats::new();
    let rec = Rec::new(&stats, false);
    match check {
        "grammar" => grammar_case(ctx, tape, &rec),
        "near_valid" => near_valid_case(ctx, tape, &rec),
        "deep" => deep_case(ctx, tape, &rec),
        "include_projects" => include_project_case(ctx, tape, &rec),
        "bytes" => bytes_case(ctx, tape, &rec),
        "corpus" => file_case(ctx, &String::from_utf8_lossy(tape)),
        "directories" => {
            let stats = Stats::new();
            match directory_cases(ctx, &stats).into_iter().next() {
                Some(f) => Err(Bad::new(f.reason).sig(f.signature)),
                None => Ok(()),
            }
        }
        "fuzz_pipeline_bytes" => confirm_artifact(ctx, tape, false),
        "fuzz_pipeline_tape" => confirm_artifact(ctx, tape, true),
        _ => Err(Bad::new(format!("unknown check {check}"))),
    }
}

pub fn run(ctx: &Ctx) -> i32 {
    let start = Instant::now();
    let stats = Stats::new();
    let mut outcome = Outcome::new();
    let known = load_known("C01");
    for k in &known {
        let r = file_case(ctx, &k.repro);
        outcome.known_replay(k, r);
    }
    // corpus replay (seed inputs and reproducers of other properties)
    let files = corpus_files();
    let known_repros: Vec<&str> = known.iter().map(|k| k.repro.as_str()).collect();
    let files: Vec<String> = files.into_iter().filter(|f| !known_repros.contains(&f.as_str())).collect();
    stats.eval(files.len() as u64);
    stats.class_n("corpus_files_replayed", files.len() as u64);
    let fails = run_items(ctx, &files, |_, f| file_case(ctx, f));
    outcome.absorb(
        &known,
        fails
            .into_iter()
            .map(|(i, b)| Failure { check: "corpus".into(), tape: files[i].clone().into_bytes(), reason: b.reason, signature: b.signature, rendered: b.rendered })
            .collect(),
    );

    let fails = directory_cases(ctx, &stats);
    outcome.absorb(&known, fails);
    let n = ctx.tier.pick(8_000, 150_000);
    let fails = run_tapes(ctx, "grammar", n, 1500, &stats, |tape, rec| grammar_case(ctx, tape, rec));
    outcome.absorb(&known, fails);
    let fails = run_tapes(ctx, "near_valid", n, 1500, &stats, |tape, rec| near_valid_case(ctx, tape, rec));
    outcome.absorb(&known, fails);
    let fails = run_tapes(ctx, "bytes", n / 2, 1200, &stats, |tape, rec| bytes_case(ctx, tape, rec));
    outcome.absorb(&known, fails);
    let fails = run_tapes_opts(ctx, "deep", ctx.tier.pick(640, 8_000), 64, 8, &stats, |tape, rec| deep_case(ctx, tape, rec));
    outcome.absorb(&known, fails);
    let fails = run_tapes_opts(ctx, "include_projects", ctx.tier.pick(1_000, 20_000), 1500, 16, &stats, |tape, rec| include_project_case(ctx, tape, rec));
    outcome.absorb(&known, fails);

    let mut fuzz_extra = json!({"stage": "not run in the quick tier"});
    if ctx.tier == Tier::Thorough {
        let seeds: Vec<Vec<u8>> = corpus_files().iter().filter_map(|f| std::fs::read(f).ok()).filter(|b| b.len() < 6000).collect();
        let mut summary = Vec::new();
        for (target, from_tape) in [("pipeline_bytes", false), ("pipeline_tape", true)] {
            let fo = run_fuzz_target(ctx, target, 8, if from_tape { 30_000 } else { 60_000 }, 4096, if from_tape { &[] } else { &seeds });
            stats.eval(fo.execs);
            stats.class_n(&format!("libfuzzer:{target}:executions"), fo.execs);
            let mut confirmed = 0;
            for a in &fo.artifacts {
                // the in-process replica is not `main`: only a crash of the real binary counts
                if let Err(b) = confirm_artifact(ctx, a, from_tape) {
                    confirmed += 1;
                    outcome.absorb(&known, vec![Failure { check: format!("fuzz_{target}"), tape: a.clone(), reason: b.reason, signature: b.signature, rendered: b.rendered }]);
                }
            }
            summary.push(json!({"target": target, "ran": fo.ran, "executions": fo.execs, "artifacts": fo.artifacts.len(), "confirmed_by_real_binary": confirmed, "note": fo.note}));
        }
        fuzz_extra = json!(summary);
    }
    finish(
        ctx,
        &stats,
        &outcome,
        EvidenceSpec {
            level: "exploration",
            rule: "the real release binary is run (RLIMIT_CPU 30 s in the quick and 120 s in the thorough tier, RLIMIT_AS 4 GiB, cleared environment) on generated projects of 1-3 files x random supported options (curve, level, verbose, SARIF, allow list): (a) byte strings (raw bytes, ASCII, token soup over the grammar's terminals), (b) grammar-valid files — `wild` files using every production with no semantic discipline and semantically valid files, both under random layouts with comments/CRLF/non-ASCII, (d) small inputs (< 8 KiB) with one deeply nested construct — 16 shapes (operator chains in both directions, Horner, conditional expressions, prefix operators, array indices, calls, if/else-if/blocks/loops, parentheses, array literals, tuples, anonymous components) at depth 10..400 (array indices 40, loops 12, anonymous components 60), (c) near-valid inputs = 1-3 token-level mutations (delete, duplicate, swap, replace/insert a terminal, truncate, drop a declaration keyword, splice raw or invalid UTF-8 bytes) of (b); plus replay of all committed seed/reproducer files under all three curves and nine directory-argument cases (nested directories, non-Circom files, symlink cycles). (e) the include projects of C19 (cycles, diamonds and self includes over relative paths, `-L` directories and `-L` files, symlinks, directory arguments, files with other extensions or unsupported pragmas) with only termination and exit status judged. Clean termination = exit 0 or 1 by itself, last stdout line is the summary, status matches the summary, no `panicked at` / stack overflow / allocation failure / signal; a resource-limit hit is re-run with 4x budget before it counts. Non-trivial = distinct input (content hash) that reached the analysis stage (>= 1 `analyzing` line).",
            assumptions: vec![
                "modest size: files <= 16 KiB; nesting depth <= 8 in the grammar generators and <= 400 in the nesting-depth domain (a single statement with >= 1000 operators overflowing the stack is recorded separately as a known finding)".into(),
                format!("unbounded running is approximated by a CPU budget of {} s ({} s on the re-run that every limit hit gets; {} s / {} s for the nesting-depth inputs); the slowest run of this process is reported in coverage.budgets, the documented time box is 2 x 10 s", first_budget(ctx, "grammar"), 4 * first_budget(ctx, "grammar"), first_budget(ctx, "deep"), 4 * first_budget(ctx, "deep")),
            ],
            extra: json!({"coverage_guided_stage": fuzz_extra}),
        },
        start,
    )
}


// ---------------------------------------------------------------------------
// In-process replica used by the libFuzzer targets (thorough tier)
// ---------------------------------------------------------------------------

/// Decode a choice tape into file contents the way the `grammar`/`near_valid` sub-checks do.
pub fn tape_to_source(tape: &[u8]) -> Vec<u8> {
    let mut t = Tape::new(tape);
    let (printed, _) = grammar_file(&mut t);
    if t.chance(100) {
        mutate_tokens(&mut t, &printed)
    } else {
        random_layout(&mut t, &printed).into_bytes()
    }
}

/// Whole pipeline in-process on one file: parse_files, every definition lifted and converted to
/// SSA, all analysis passes, conversion of every report to a diagnostic and to SARIF.
/// Runs on a thread with a large stack (deep nesting is the recorded finding F20, not re-reported here).
pub fn in_process(data: &[u8]) -> Result<(), String> {
    use program_structure::sarif_conversion::ToSarif;
    let dir = std::path::PathBuf::from(format!("/verif/target/scratch/fuzz-{}", std::process::id()));
    let _ = std::fs::create_dir_all(&dir);
    let path = dir.join("f.circom");
    std::fs::write(&path, data).map_err(|e| format!("INFRA write: {e}"))?;
    let curve = match data.first().copied().unwrap_or(0) % 3 {
        0 => program_structure::constants::Curve::Bn254,
        1 => program_structure::constants::Curve::Bls12_381,
        _ => program_structure::constants::Curve::Goldilocks,
    };
    let handle = std::thread::Builder::new()
        .stack_size(1 << 30)
        .spawn(move || -> Result<(), String> {
            install_panic_hook();
            let r = super::c03::reference(&[path], &[], &curve)?;
            catch(|| {
                for rep in &r.reports {
                    let _ = rep.to_diagnostic(true);
                }
                let _ = r.reports.to_sarif(&r.files);
            })
        })
        .map_err(|e| format!("INFRA spawn: {e}"))?;
    match handle.join() {
        Ok(r) => r,
        Err(_) => Err("analysis thread died".to_string()),
    }
}

/// Confirm a libFuzzer artifact through the real binary (the in-process replica has debug
/// assertions and is not `main`): returns Err only if the release binary misbehaves too.
pub fn confirm_artifact(ctx: &Ctx, bytes: &[u8], from_tape: bool) -> Verdict {
    let content = if from_tape { tape_to_source(bytes) } else { bytes.to_vec() };
    let dir = scratch(ctx, "artifact");
    let path = dir.join("a.circom");
    std::fs::write(&path, &content).map_err(|e| Bad::new(format!("INFRA write: {e}")))?;
    let r = file_case(ctx, &path.display().to_string());
    let _ = std::fs::remove_dir_all(&dir);
    r.map_err(|b| b.rendered(String::from_utf8_lossy(&content).to_string()))
}
