//! Shared set-up for the control-flow properties C10/C12/C13/C14: generate a
//! `cf` definition, render it with a random layout, lift it in-process.

use crate::engine::*;
use crate::gen::ast::*;
use crate::gen::print::{print_def, render, Rendered};
use crate::gen::prog::{gen_def, Profile};
use crate::gen::text::{random_trivia, LayoutOpts};
use crate::obs;
use program_structure::cfg::Cfg;
use program_structure::constants::Curve;
use program_structure::ir;
use program_structure::report::Report;

pub struct CfCase {
    pub def: Def,
    pub r: Rendered,
    pub template: bool,
}

pub fn cf_profile(t: &mut Tape) -> Profile {
    let template = t.chance(100);
    let mut p = Profile::cf(template);
    if t.chance(80) {
        // a variant with signals / more operators for variety
        p.signals = template;
        if template && t.chance(150) {
            // components with array ports indexed by (possibly redeclared) locals
            p.components = true;
            p.port_arrays = true;
            p.templates = vec![crate::gen::prog::TemplateSig { name: "Zt".into(), params: 0, inputs: vec![], outputs: vec![] }];
        }
        p.nested_signal_decls = template && t.chance(170);
        p.nested_signal_assign = true;
        p.ops = crate::gen::prog::OpsLevel::Arith;
    }
    if t.chance(60) {
        p.name_pool = vec!["x", "x_0"];
    }
    p.max_stmts = 6 + t.below(14);
    p.elementwise_first = true;
    p.all_compound_ops = true;
    p
}

pub fn gen_case(t: &mut Tape) -> CfCase {
    let p = cf_profile(t);
    let mut ids = Ids::default();
    let def = gen_def(t, &p, &mut ids, "F");
    let printed = print_def(&def, t.chance(40));
    let trivia = if t.chance(80) {
        random_trivia(&printed, t, LayoutOpts { comment_chance: 20, crlf: true }).0
    } else {
        crate::gen::print::plain_trivia(&printed)
    };
    let r = render(&printed, &trivia);
    CfCase { template: p.template, def, r }
}

pub enum Lift {
    Ok(Cfg, Vec<Report>),
    /// a failure that is the generator's fault (should not happen): reported as infrastructure noise
    Rejected(String),
    Panic(String),
}

pub fn lift(case: &CfCase) -> Lift {
    match obs::lift_def(&case.r.src, &Curve::Bn254) {
        Ok(l) => Lift::Ok(l.cfg, l.reports),
        Err(obs::LiftFail::Panic(p)) => Lift::Panic(p),
        Err(e) => Lift::Rejected(e.describe()),
    }
}

pub fn stmt_meta(s: &ir::Statement) -> &ir::Meta {
    use ir::Statement::*;
    match s {
        Declaration { meta, .. }
        | IfThenElse { meta, .. }
        | Return { meta, .. }
        | Substitution { meta, .. }
        | ConstraintEquality { meta, .. }
        | LogCall { meta, .. }
        | Assert { meta, .. } => meta,
    }
}

pub fn expr_meta(e: &ir::Expression) -> &ir::Meta {
    use ir::Expression::*;
    match e {
        InfixOp { meta, .. }
        | PrefixOp { meta, .. }
        | SwitchOp { meta, .. }
        | Variable { meta, .. }
        | Number(meta, _)
        | Call { meta, .. }
        | InlineArray { meta, .. }
        | Access { meta, .. }
        | Update { meta, .. }
        | Phi { meta, .. } => meta,
    }
}

pub fn dump_cfg(cfg: &Cfg) -> String {
    format!("{cfg:?}")
}

/// Count structural classes of a definition for the evidence histogram.
pub fn classify(def: &Def, rec: &Rec) -> (bool, bool) {
    let mut loops = 0;
    let mut ifs = 0;
    let mut nested_loop_in_if = false;
    let mut if_in_loop = false;
    let mut unbraced = 0;
    let mut empty_blocks = 0;
    fn go(
        s: &Stmt,
        in_loop: bool,
        in_if: bool,
        acc: &mut (usize, usize, bool, bool, usize, usize),
    ) {
        match s {
            Stmt::If { then, els, .. } => {
                acc.1 += 1;
                if in_loop {
                    acc.3 = true;
                }
                if !matches!(**then, Stmt::Block { .. }) {
                    acc.4 += 1;
                }
                go(then, in_loop, true, acc);
                if let Some(e) = els {
                    if !matches!(**e, Stmt::Block { .. }) {
                        acc.4 += 1;
                    }
                    go(e, in_loop, true, acc);
                }
            }
            Stmt::While { body, .. } | Stmt::For { body, .. } => {
                acc.0 += 1;
                if in_if {
                    acc.2 = true;
                }
                if !matches!(**body, Stmt::Block { .. }) {
                    acc.4 += 1;
                }
                go(body, true, in_if, acc);
            }
            Stmt::Block { stmts, .. } => {
                if stmts.is_empty() {
                    acc.5 += 1;
                }
                for st in stmts {
                    go(st, in_loop, in_if, acc);
                }
            }
            _ => {}
        }
    }
    let mut acc = (0, 0, false, false, 0, 0);
    go(&def.body, false, false, &mut acc);
    loops += acc.0;
    ifs += acc.1;
    nested_loop_in_if |= acc.2;
    if_in_loop |= acc.3;
    unbraced += acc.4;
    empty_blocks += acc.5;
    if loops > 0 {
        rec.class("def_with_loop");
    }
    if ifs > 0 {
        rec.class("def_with_branch");
    }
    if nested_loop_in_if {
        rec.class("def_with_loop_inside_branch");
    }
    if if_in_loop {
        rec.class("def_with_branch_inside_loop");
    }
    if unbraced > 0 {
        rec.class("def_with_unbraced_body");
    }
    if empty_blocks > 0 {
        rec.class("def_with_empty_block");
    }
    (loops > 0, ifs > 0)
}
