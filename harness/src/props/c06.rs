//! C06 — constant propagation is sound: a claimed constant holds in every run.

use super::semcase::*;
use crate::engine::*;
use crate::interp::Trace;
use crate::obs;
use circom_algebra::num_bigint::BigInt;
use num_bigint_dig::BigUint;
use num_traits::{One, Zero};
use program_structure::cfg::Cfg;
use program_structure::ir;
use program_structure::ir::value_meta::ValueReduction;
use serde_json::json;
use std::time::Instant;

pub fn lift_ssa(c: &SemCase) -> Result<Cfg, Bad> {
    let curve = obs::curve_by_name(c.prime_name);
    let l = match obs::lift_def(&c.r.src, &curve) {
        Ok(l) => l,
        Err(obs::LiftFail::Panic(p)) => return Err(Bad::new(format!("lifting panicked: {p}")).sig("SEM:lift-panic").rendered(c.r.src.clone())),
        Err(e) => return Err(Bad::new(format!("generated definition rejected: {}", e.describe())).sig("SEM:rejected").rendered(c.r.src.clone())),
    };
    // bound the number of propagation passes instead of relying on the 10 s wall-clock bail-out
    // (deterministic; a cut is harmless for soundness, which is what C20 checks)
    program_structure::cfg::verif_hooks::set_value_budget(Some(5000));
    program_structure::cfg::verif_hooks::set_degree_budget(Some(5000));
    let r = obs::to_ssa(l.cfg);
    program_structure::cfg::verif_hooks::set_value_budget(None);
    program_structure::cfg::verif_hooks::set_degree_budget(None);
    match r {
        Ok(s) => Ok(s),
        Err(obs::SsaFail::Error(r)) => Err(Bad::new(format!("SSA conversion rejected the generated definition: {}", r.message())).sig("SEM:ssa-rejected").rendered(c.r.src.clone())),
        Err(obs::SsaFail::Panic(p)) => Err(Bad::new(format!("into_ssa panicked: {p}")).sig("SEM:ssa-panic").rendered(c.r.src.clone())),
    }
}

fn canonical(v: &BigInt, p: &BigUint) -> BigUint {
    let pi = BigInt::from_biguint(num_bigint_dig::Sign::Plus, p.clone());
    let r = ((v % &pi) + &pi) % &pi;
    r.to_biguint().unwrap_or_else(BigUint::zero)
}

fn claim_holds(claim: &ValueReduction, actual: &BigUint, p: &BigUint) -> bool {
    match claim {
        ValueReduction::FieldElement { value } => &canonical(value, p) == actual,
        ValueReduction::Boolean { value } => {
            if *value {
                actual == &(BigUint::one() % p)
            } else {
                actual.is_zero()
            }
        }
    }
}

pub struct ValueStats {
    pub claims: u64,
    pub claims_checked: u64,
    pub claims_checked_multi: u64,
    pub unmapped: u64,
}

/// Check every value claim of the SSA CFG against the reference traces.
pub fn check_values(c: &SemCase, ix: &IrIndex, traces: &[Trace], ssa: &Cfg, ctx_label: &str) -> Result<ValueStats, Bad> {
    let mut st = ValueStats { claims: 0, claims_checked: 0, claims_checked_multi: 0, unmapped: 0 };
    let render = || format!("prime {}\n{}\n--- SSA CFG ---\n{:?}", c.prime_name, c.r.src, ssa);
    for b in ssa.iter() {
        for stmt in b.statements() {
            // statement-level value of substitutions
            if let ir::Statement::Substitution { meta, var, rhe, .. } = stmt {
                if !matches!(rhe, ir::Expression::Phi { .. }) {
                    if let Some(claim) = meta.value_knowledge().get_reduces_to() {
                        st.claims += 1;
                        if let Some(key) = ix.subst_key(c, meta, var) {
                            let mut n = 0;
                            for v in values(traces, key) {
                                n += 1;
                                if !claim_holds(claim, v, &c.prime) {
                                    return Err(Bad::new(format!(
                                        "{ctx_label}the assignment `{stmt:?}` is claimed to store the constant {claim:?} but the reference run stores {v}"
                                    ))
                                    .sig("C06:unsound-assignment-value")
                                    .rendered(render()));
                                }
                            }
                            if n > 0 {
                                st.claims_checked += 1;
                            }
                        }
                    }
                }
            }
            let mut bad: Option<Bad> = None;
            walk_ir_exprs(stmt, &mut |e| {
                if bad.is_some() {
                    return;
                }
                let Some(claim) = e.meta().value_knowledge().get_reduces_to() else { return };
                st.claims += 1;
                let Some(key) = ix.expr_key(c, e) else {
                    st.unmapped += 1;
                    if std::env::var("VERIF_DEBUG").is_ok() {
                        eprintln!("unmapped claim on {:?} at {}..{}", e, e.meta().start(), e.meta().end());
                    }
                    return;
                };
                let mut n = 0;
                for v in values(traces, key) {
                    n += 1;
                    if !claim_holds(claim, v, &c.prime) {
                        bad = Some(
                            Bad::new(format!(
                                "{ctx_label}expression `{e:?}` (bytes {}..{}) in `{stmt:?}` is claimed to be the constant {claim:?} but evaluates to {v} in a reference run",
                                e.meta().start(),
                                e.meta().end()
                            ))
                            .sig(format!("C06:unsound-constant:{}", match e {
                                ir::Expression::Variable { .. } => "variable",
                                ir::Expression::InfixOp { infix_op, .. } => match crate::irmatch::from_ir_infix(*infix_op) {
                                    crate::field::Op::ShiftL | crate::field::Op::ShiftR => "shift",
                                    crate::field::Op::Lt | crate::field::Op::Le | crate::field::Op::Gt | crate::field::Op::Ge => "comparison",
                                    crate::field::Op::BoolAnd | crate::field::Op::BoolOr => "boolean",
                                    _ => "infix",
                                },
                                ir::Expression::PrefixOp { .. } => "prefix",
                                ir::Expression::SwitchOp { .. } => "switch",
                                _ => "other",
                            }))
                            .rendered(render()),
                        );
                        return;
                    }
                }
                if n > 0 {
                    st.claims_checked += 1;
                }
                if n > 1 {
                    st.claims_checked_multi += 1;
                }
            });
            if let Some(b) = bad {
                return Err(b);
            }
        }
    }
    Ok(st)
}

/// CS0009 / CS0010 findings against the reference runs.
pub fn check_consumers(c: &SemCase, ix: &IrIndex, traces: &[Trace], ssa: &Cfg, ctx_label: &str, rec: &Rec) -> Verdict {
    let reports = match run_passes(ssa) {
        Ok(r) => r,
        Err(p) => return Err(Bad::new(format!("{ctx_label}an analysis pass panicked: {p}")).sig("SEM:pass-panic").rendered(c.r.src.clone())),
    };
    let render = || format!("prime {}\n{}", c.prime_name, c.r.src);
    // condition spans -> condition expression ids
    for r in &reports {
        if r.id() == "CS0009" {
            let Some(l) = r.primary().first() else { continue };
            let always_true = l.message.contains("always true");
            let (s, e) = trim_end(&c.blank, l.range.start, l.range.end);
            // find the generator condition with this span
            let mut cond_id = None;
            for (cid, _) in ix.conds.iter() {
                if c.r.span(*cid).map(|(a, b)| trim_end(&c.blank, a, b)) == Some((s, e)) {
                    cond_id = Some(*cid);
                }
            }
            let Some(cid) = cond_id else { continue };
            rec.class("CS0009_findings");
            for v in values(traces, ValKey::Expr(cid)) {
                rec.class("CS0009_condition_evaluations_checked");
                if always_true == v.is_zero() {
                    return Err(Bad::new(format!(
                        "{ctx_label}`constant branch condition`: the condition `{}` is reported as always {} but evaluates to {v} in a reference run",
                        c.r.src.get(s..e).unwrap_or("?"),
                        always_true
                    ))
                    .sig("C06:false-constant-condition")
                    .rendered(render()));
                }
            }
        }
    }
    // Num2Bits / Bits2Num not flagged under BN254 => the size is < 254 in every run
    if c.prime_name == "BN254" && c.template {
        let flagged: Vec<(usize, usize)> = reports
            .iter()
            .filter(|r| r.id() == "CS0010")
            .filter_map(|r| r.primary().first().map(|l| trim_end(&c.blank, l.range.start, l.range.end)))
            .collect();
        let mut bad = None;
        c.def.body.walk(&mut |s| {
            for e in s.exprs() {
                e.walk(&mut |x| {
                    if let crate::gen::ast::Expr::Call { id, name, args } = x {
                        if (name == "Num2Bits" || name == "Bits2Num") && args.len() == 1 {
                            let sp = c.r.span(*id).map(|(a, b)| trim_end(&c.blank, a, b));
                            let is_flagged = sp.map(|sp| flagged.contains(&sp)).unwrap_or(true);
                            rec.class(if is_flagged { "Num2Bits_flagged" } else { "Num2Bits_judged_safe" });
                            if !is_flagged {
                                for v in values(traces, ValKey::Expr(args[0].id())) {
                                    if v >= &BigUint::from(254u32) && bad.is_none() {
                                        bad = Some(format!("`{name}(…)` is judged safe (size less than the prime size) but its size evaluates to {v} in a reference run"));
                                    }
                                }
                            }
                        }
                    }
                });
            }
        });
        if let Some(m) = bad {
            return Err(Bad::new(format!("{ctx_label}{m}")).sig("C06:unsafe-size-judged-safe").rendered(render()));
        }
    }
    Ok(())
}

pub const VALUATIONS: usize = 12;

pub fn traces_for(c: &SemCase, t: &mut Tape, n: usize) -> Vec<Trace> {
    (0..n).map(|_| run_trace(c, &gen_inputs(t, c))).collect()
}

fn case(tape: &[u8], rec: &Rec) -> Verdict {
    let mut t = Tape::new(tape);
    let late = t.chance(70);
    let nested = t.chance(100);
    let c = gen_sem_case(&mut t, SemOpts { late_facts: late, nested_signal_assign: nested, ..SemOpts::default() });
    if nested && c.template {
        rec.class("templates_whose_signals_may_be_assigned_inside_branches_and_loops");
    }
    if late {
        rec.class("programs_biased_to_late_facts");
    }
    let ssa = lift_ssa(&c)?;
    let ix = build_index(&c);
    let traces = traces_for(&c, &mut t, VALUATIONS);
    rec.class("programs");
    rec.class(&format!("prime:{}", c.prime_name));
    let truncated = traces.iter().filter(|t| t.stopped.is_some()).count();
    rec.class_n("valuations", traces.len() as u64);
    rec.class_n("valuations_truncated_by_runtime_error_or_fuel", truncated as u64);
    for tr in &traces {
        if let Some(s) = &tr.stopped {
            rec.class(&format!("stop:{}", match s {
                crate::interp::Stop::DivisionByZero => "division_by_zero".to_string(),
                crate::interp::Stop::IndexOutOfRange => "index_out_of_range".to_string(),
                crate::interp::Stop::Fuel => "fuel".to_string(),
                crate::interp::Stop::Unsupported(w) => format!("unsupported:{}", w.split(' ').next().unwrap_or("")),
                crate::interp::Stop::TypeError(w) => format!("type:{w}"),
            }));
        }
    }
    let st = check_values(&c, &ix, &traces, &ssa, "")?;
    rec.class_n("claims", st.claims);
    rec.class_n("claims_checked_against_a_run", st.claims_checked);
    rec.class_n("claims_on_nodes_without_source_counterpart", st.unmapped);
    if st.claims_checked_multi > 0 {
        // at least one claimed constant on a node executed at least twice
        rec.nontrivial(fnv(c.r.src.as_bytes()));
    }
    check_consumers(&c, &ix, &traces, &ssa, "", rec)?;
    rec.sample(|| json!({"prime": c.prime_name, "definition": c.r.src, "claims": st.claims, "claims_checked": st.claims_checked,
        "params_of_first_valuation": "generated: boundary values 0,1,2,p-1,p/2,p/2+1,2^k, small, random"}));
    Ok(())
}


/// The same claims through the command line: the definition is written to a file (with or without a
/// main component after it) and analysed by the real binary under `--curve`; the `constant branch
/// condition` findings displayed must be the ones the in-process run under that curve yields.
fn cli_case(ctx: &Ctx, tape: &[u8], rec: &Rec) -> Verdict {
    let mut t = Tape::new(tape);
    let c = gen_sem_case(&mut t, SemOpts::default());
    let Ok(ssa) = lift_ssa(&c) else { return Ok(()) };
    let Ok(reports) = run_passes(&ssa) else { return Ok(()) };
    let line_col = |off: usize| {
        let before = &c.r.src[..off.min(c.r.src.len())];
        (1 + before.matches('\n').count(), 1 + before[before.rfind('\n').map(|i| i + 1).unwrap_or(0)..].chars().count())
    };
    let mut want: std::collections::BTreeSet<(usize, usize, bool)> = std::collections::BTreeSet::new();
    for r in &reports {
        if r.id() == "CS0009" {
            if let Some(l) = r.primary().first() {
                let (line, col) = line_col(l.range.start);
                want.insert((line, col, l.message.contains("always true")));
            }
        }
    }
    let with_main = t.chance(170);
    let mut src = c.r.src.clone();
    let own_lines = 1 + src.matches('\n').count();
    // the helper functions it calls and stubs for the templates it instantiates come after it
    src.push('\n');
    for h in &c.helpers {
        src.push_str(&crate::gen::print::render_plain(&crate::gen::print::print_def(h, false)).src);
        src.push('\n');
    }
    for name in &c.templates {
        src.push_str(&format!("template {name}(n) {{ signal input in; signal output out; out <== in; }}\n"));
    }
    if with_main {
        src.push_str("\ntemplate ZMain() { signal input a; signal output b; b <== a; }\ncomponent main = ZMain();\n");
    }
    let dir = ctx.scratch.join(format!("c06-{:?}", std::thread::current().id()).replace(['(', ')'], ""));
    let _ = std::fs::create_dir_all(&dir);
    let path = dir.join("a.circom");
    std::fs::write(&path, &src).map_err(|e| Bad::new(format!("INFRA write: {e}")))?;
    let mut o = crate::binrun::RunOpts::files(&[&path]).level("info");
    o.curve = Some(if t.chance(128) { c.prime_name.to_string() } else { c.prime_name.to_ascii_lowercase() });
    let started = Instant::now();
    let out = crate::binrun::run(&ctx.repo_bin, &o);
    let slow = started.elapsed().as_secs() >= 4;
    let _ = std::fs::remove_dir_all(&dir);
    let out = out.map_err(|e| Bad::new(format!("INFRA {e}")))?;
    let render = || format!("curve {}\n{src}\n--- stdout\n{}", c.prime_name, out.stdout);
    if out.signal.is_some() || !matches!(out.status, Some(0) | Some(1)) {
        return Err(Bad::new(format!("the run did not end normally: status {:?} signal {:?}", out.status, out.signal)).sig("C06:cli-crash").rendered(render()));
    }
    // `┌─ path:line:col` followed by the label of the finding
    let mut got: std::collections::BTreeSet<(usize, usize, bool)> = std::collections::BTreeSet::new();
    let mut loc: Option<(usize, usize)> = None;
    for l in out.stdout.lines() {
        if let Some(pos) = l.find("┌─ ") {
            let mut it = l[pos + "┌─ ".len()..].rsplitn(3, ':');
            let col = it.next().and_then(|x| x.trim().parse().ok());
            let line = it.next().and_then(|x| x.trim().parse().ok());
            loc = line.zip(col);
        } else if l.contains("This condition is always") {
            if let Some((line, col)) = loc.filter(|(line, _)| *line <= own_lines) {
                got.insert((line, col, l.contains("always true")));
            }
        }
    }
    rec.class("cli_programs");
    rec.class(&format!("cli_prime:{}", c.prime_name));
    if with_main {
        rec.class("cli_programs_with_main_component");
    }
    rec.class_n("cli_constant_condition_findings_compared", want.len() as u64);
    if !want.is_empty() {
        rec.nontrivial(fnv(src.as_bytes()));
    }
    if slow {
        // the binary's propagation may have been cut by its time box
        rec.class("cli_programs_not_compared_slow_run");
        return Ok(());
    }
    if got != want {
        return Err(Bad::new(format!(
            "under --curve {} the binary displays the constant-condition findings {:?} (line, column, always true), the analysis under that curve's prime yields {:?}",
            c.prime_name, got, want
        ))
        .sig("C06:cli-claims-differ")
        .rendered(render()));
    }
    Ok(())
}

pub fn replay(ctx: &Ctx, check: &str, tape: &[u8]) -> Verdict {
    let stats = Stats::new();
    let rec = Rec::new(&stats, false);
    match check {
        "value_claims" => case(tape, &rec),
        "cli_claims" => cli_case(ctx, tape, &rec),
        _ => Err(Bad::new(format!("unknown check {check}"))),
    }
}

/// Committed reproducer: a file holding one definition; lifted under BN254, the
/// `constant branch condition` findings must be consistent with the listed truth
/// values.  repro = "<file> <always true|always false|none>": the claim that must NOT be made.
fn replay_known(_ctx: &Ctx, k: &Known) -> Verdict {
    let mut it = k.repro.split_whitespace();
    let file = it.next().unwrap_or("");
    let forbidden = it.collect::<Vec<_>>().join(" ");
    let src = std::fs::read_to_string(file).map_err(|e| Bad::new(format!("INFRA read {file}: {e}")))?;
    let l = obs::lift_def(&src, &program_structure::constants::Curve::Bn254).map_err(|e| Bad::new(e.describe()).sig(k.signature.clone()))?;
    let ssa = match obs::to_ssa(l.cfg) {
        Ok(s) => s,
        Err(obs::SsaFail::Panic(p)) => return Err(Bad::new(format!("panic: {p}")).sig(k.signature.clone())),
        Err(obs::SsaFail::Error(_)) => return Ok(()),
    };
    let reports = run_passes(&ssa).map_err(|p| Bad::new(format!("panic: {p}")).sig(k.signature.clone()))?;
    for r in &reports {
        if r.id() == "CS0009" {
            if let Some(l) = r.primary().first() {
                if l.message.contains(&forbidden) {
                    return Err(Bad::new(format!("{file}: false claim `{}`", l.message)).sig(k.signature.clone()));
                }
            }
        }
    }
    Ok(())
}

pub fn run(ctx: &Ctx) -> i32 {
    let start = Instant::now();
    let stats = Stats::new();
    let mut outcome = Outcome::new();
    let known = load_known("C06");
    for k in &known {
        let r = replay_known(ctx, k);
        outcome.known_replay(k, r);
    }
    let fails = run_tapes_opts(ctx, "value_claims", ctx.tier.pick(12_000, 300_000), 4000, 250, &stats, case);
    outcome.absorb(&known, fails);
    let fails = run_tapes_opts(ctx, "cli_claims", ctx.tier.pick(1_500, 20_000), 4000, 250, &stats, |tape, rec| cli_case(ctx, tape, rec));
    outcome.absorb(&known, fails);
    finish(
        ctx,
        &stats,
        &outcome,
        EvidenceSpec {
            level: "exploration",
            rule: "executable functions and templates from the `sem` profile (all 23 operators, literals in [0,p) biased to boundary values, nested loops, branches, shadowing, arrays, compound assignments, pure helper functions, signals, Num2Bits/Bits2Num instantiations) are lifted and converted to SSA under a generated curve. A reference interpreter executes the generator's own AST under Circom's documented field semantics for 12 generated valuations of parameters and signals (boundary and random values). For every IR expression node and substitution carrying a constant (field element or boolean) that maps to a generator node by kind and source span, every value recorded at any dynamic evaluation of that node must equal the claimed constant (as a field element; booleans as 1/0). `constant branch condition` findings are checked against the recorded truth values of that condition, and a Num2Bits/Bits2Num size that is not flagged under BN254 must be < 254 in every run. Non-trivial = program with a claimed constant on a node that was evaluated at least twice; distinct by source hash. Valuations cut short by a runtime error (division by zero, fuel) still contribute their prefix. Second sub-check (`cli_claims`): definitions are written to a file, followed by their helper functions, stubs of the templates they instantiate and, in two thirds of the cases, a main component, and analysed by the real binary under `--curve <name>` (either case); the constant-condition findings it displays (line, column, always true/false) must equal those of the in-process analysis under that curve's prime.",
            assumptions: vec![
                "reference semantics: harness/src/field.rs (documentation-derived, cross-checked against circom_algebra by C16) and harness/src/interp.rs".into(),
                "locals are read only where definitely assigned (the known class F13, declared-but-unassigned locals merged at a join, is excluded by construction)".into(),
                "one-sided oracle: a sound claim can never fail; an unsound one is caught only if a generated valuation distinguishes it".into(),
            ],
            extra: json!({}),
        },
        start,
    )
}
