//! C18 — tuples and anonymous components are desugared completely and faithfully.

use super::c03::reference;
use crate::engine::*;
use crate::gen;
use program_structure::ast;
use program_structure::report::MessageCategory;
use serde_json::json;
use std::collections::BTreeMap;
use std::path::{Path, PathBuf};
use std::time::Instant;

// ---------------------------------------------------------------------------
// (a) completeness / totality on wild programs
// ---------------------------------------------------------------------------

/// Own walker: does the statement contain a tuple, an anonymous component or a multi-substitution?
fn sugar_in_expr(e: &ast::Expression) -> Option<&'static str> {
    use ast::Expression::*;
    match e {
        Tuple { .. } => Some("tuple"),
        AnonymousComponent { .. } => Some("anonymous component"),
        InfixOp { lhe, rhe, .. } => sugar_in_expr(lhe).or_else(|| sugar_in_expr(rhe)),
        PrefixOp { rhe, .. } | ParallelOp { rhe, .. } => sugar_in_expr(rhe),
        InlineSwitchOp { cond, if_true, if_false, .. } => sugar_in_expr(cond).or_else(|| sugar_in_expr(if_true)).or_else(|| sugar_in_expr(if_false)),
        Variable { access, .. } => access.iter().find_map(|a| match a {
            ast::Access::ArrayAccess(i) => sugar_in_expr(i),
            _ => None,
        }),
        Number(..) => None,
        Call { args, .. } => args.iter().find_map(sugar_in_expr),
        ArrayInLine { values, .. } => values.iter().find_map(sugar_in_expr),
    }
}

fn sugar_in_stmt(s: &ast::Statement) -> Option<&'static str> {
    use ast::Statement::*;
    match s {
        IfThenElse { cond, if_case, else_case, .. } => {
            sugar_in_expr(cond).or_else(|| sugar_in_stmt(if_case)).or_else(|| else_case.as_ref().and_then(|e| sugar_in_stmt(e)))
        }
        While { cond, stmt, .. } => sugar_in_expr(cond).or_else(|| sugar_in_stmt(stmt)),
        Return { value, .. } => sugar_in_expr(value),
        InitializationBlock { initializations, .. } => initializations.iter().find_map(sugar_in_stmt),
        Declaration { dimensions, .. } => dimensions.iter().find_map(sugar_in_expr),
        Substitution { access, rhe, .. } => access
            .iter()
            .find_map(|a| match a {
                ast::Access::ArrayAccess(i) => sugar_in_expr(i),
                _ => None,
            })
            .or_else(|| sugar_in_expr(rhe)),
        MultiSubstitution { .. } => Some("multi-substitution"),
        ConstraintEquality { lhe, rhe, .. } => sugar_in_expr(lhe).or_else(|| sugar_in_expr(rhe)),
        LogCall { args, .. } => args.iter().find_map(|a| match a {
            ast::LogArgument::LogExp(e) => sugar_in_expr(e),
            _ => None,
        }),
        Block { stmts, .. } => stmts.iter().find_map(sugar_in_stmt),
        Assert { arg, .. } => sugar_in_expr(arg),
    }
}

fn gen_sugar_in_def(d: &gen::ast::Def) -> bool {
    let mut found = false;
    d.body.walk(&mut |s| {
        if matches!(s, gen::ast::Stmt::TupleDecl { .. } | gen::ast::Stmt::ExprStmt { .. }) {
            found = true;
        }
        if let gen::ast::Stmt::Assign { lhs, .. } = s {
            if !matches!(lhs, gen::ast::Expr::Var { .. }) {
                found = true;
            }
        }
        for e in s.exprs() {
            e.walk(&mut |x| {
                if matches!(x, gen::ast::Expr::Tuple { .. } | gen::ast::Expr::Anon { .. }) {
                    found = true;
                }
            });
        }
    });
    found
}

fn scratch(ctx: &Ctx, tag: &str) -> PathBuf {
    let d = ctx.scratch.join(format!("{tag}-{:?}", std::thread::current().id()).replace(['(', ')'], ""));
    let _ = std::fs::remove_dir_all(&d);
    let _ = std::fs::create_dir_all(&d);
    d
}

fn completeness_case(ctx: &Ctx, tape: &[u8], rec: &Rec) -> Verdict {
    let mut t = Tape::new(tape);
    // wild definitions, one name each so that nothing is shadowed in the library
    let mut ids = gen::ast::Ids::default();
    let mut file = gen::ast::File::default();
    file.version = Some((2, 1, 0));
    let ndefs = 1 + t.below(4);
    let names = ["T", "f", "Num2Bits", "U"];
    for i in 0..ndefs {
        let mut w = gen::wild::Wild::new(&mut t, &mut ids);
        w.max_depth = 3;
        let d = w.def(names[i]);
        file.defs.push(d);
    }
    let printed = gen::print::print_file(&file, false);
    let mut src = gen::print::render_plain(&printed).src;
    // no, one or two main components in the run (the second in a second named file: an error, after
    // which the definitions are handed on as a library — desugared like any other)
    let mains = t.below(4).min(2);
    if mains >= 1 {
        if let Some(d) = file.defs.iter().find(|d| d.kind != gen::ast::DefKind::Function) {
            let args = vec!["1"; d.params.len()].join(", ");
            src.push_str(&format!("\ncomponent main = {}({args});\n", d.name));
        }
    }
    let dir = scratch(ctx, "c18a");
    let path = dir.join("w.circom");
    std::fs::write(&path, &src).map_err(|e| Bad::new(format!("INFRA write: {e}")))?;
    let mut paths = vec![path];
    if mains == 2 {
        let second = dir.join("w2.circom");
        std::fs::write(&second, "pragma circom 2.1.0;\ntemplate ZM() { signal input a; signal output b; b <== a; }\ncomponent main = ZM();\n")
            .map_err(|e| Bad::new(format!("INFRA write: {e}")))?;
        if t.chance(128) {
            paths.insert(0, second);
        } else {
            paths.push(second);
        }
        rec.class("wild_runs_with_two_main_components");
    }
    let res = completeness_in(&paths, &file, &src, rec);
    let _ = std::fs::remove_dir_all(&dir);
    res
}

fn completeness_in(paths: &[PathBuf], file: &gen::ast::File, src: &str, rec: &Rec) -> Verdict {
    use parser::ParseResult;
    let parsed = catch(|| parser::parse_files(paths, &[], &program_analysis::config::COMPILER_VERSION));
    let parsed = match parsed {
        Ok(p) => p,
        Err(p) => return Err(Bad::new(format!("parse_files panicked: {p}")).sig("C18:parse-panic").rendered(src.to_string())),
    };
    let (templates, functions, reports) = match parsed {
        ParseResult::Program(p, r) => (p.templates, p.functions, r),
        ParseResult::Library(l, r) => (l.templates, l.functions, r),
    };
    rec.class("wild_files");
    if reports.iter().any(|r| r.id() == "P1000") {
        rec.class("wild_files_rejected_by_parser");
        return Ok(());
    }
    for d in &file.defs {
        let sugar = gen_sugar_in_def(d);
        let is_fn = d.kind == gen::ast::DefKind::Function;
        if sugar {
            rec.class(if is_fn { "functions_with_sugar" } else { "templates_with_sugar" });
            rec.nontrivial(fnv(format!("{}/{}", src, d.name).as_bytes()));
        }
        if is_fn {
            match functions.get(&d.name) {
                Some(f) => {
                    if let Some(what) = sugar_in_stmt(f.get_body()) {
                        return Err(Bad::new(format!("function `{}` is handed to the analysis although it contains a {what}", d.name)).sig("C18:sugar-in-function").rendered(src.to_string()));
                    }
                    rec.class("functions_kept");
                }
                None => {
                    rec.class("functions_rejected");
                    let named = reports.iter().any(|r| *r.category() == MessageCategory::Error && matches!(r.id().as_str(), "TAC01" | "TAC02"));
                    if !named {
                        return Err(Bad::new(format!("function `{}` was dropped without a TAC01/TAC02 error", d.name)).sig("C18:function-dropped-silently").rendered(src.to_string()));
                    }
                }
            }
        } else {
            match templates.get(&d.name) {
                Some(tpl) => {
                    if let Some(what) = sugar_in_stmt(tpl.get_body()) {
                        return Err(Bad::new(format!("template `{}` is handed to the analysis although it still contains a {what}", d.name)).sig("C18:sugar-left-in-template").rendered(src.to_string()));
                    }
                    rec.class("templates_desugared");
                    // lifting and analysis of what is left never panic
                    let curve = program_structure::constants::Curve::Bn254;
                    let mut rs = Vec::new();
                    use program_structure::cfg::IntoCfg;
                    let r = catch(|| match tpl.into_cfg(&curve, &mut rs) {
                        Ok(cfg) => {
                            if let Ok(ssa) = cfg.into_ssa() {
                                let _ = super::semcase::run_passes(&ssa);
                            }
                        }
                        Err(_) => {}
                    });
                    if let Err(p) = r {
                        return Err(Bad::new(format!("lifting/analysing the desugared template `{}` panicked: {p}", d.name)).sig("C18:panic-after-desugaring").rendered(src.to_string()));
                    }
                }
                None => {
                    rec.class("templates_rejected");
                    let named = reports.iter().any(|r| *r.category() == MessageCategory::Error && matches!(r.id().as_str(), "TAC01" | "TAC02"));
                    if !named {
                        return Err(Bad::new(format!("template `{}` was dropped without a TAC01/TAC02 error", d.name)).sig("C18:template-dropped-silently").rendered(src.to_string()));
                    }
                }
            }
        }
    }
    rec.sample(|| json!({"kind": "completeness", "file": src}));
    Ok(())
}

// ---------------------------------------------------------------------------
// (b) faithfulness: sugared program vs hand-written expansion
// ---------------------------------------------------------------------------

const LIB: &str = "template A0() { signal output o; o <== 7; }\ntemplate A1(k) { signal input a; signal output o; o <== a * k; }\ntemplate A2(k) { signal input a; signal input b; signal output o; o <== a * b + k; }\ntemplate A22(k) { signal input a; signal input b; signal output o1; signal output o2; o1 <== a + b; o2 <== a * k; }\ntemplate AN2(k) { signal input a; signal input b; a * k === b; }\ntemplate B2(k) { signal input q, p; signal output z, y; z <== q * k; y <== p + k; }\n";

/// The same templates as an included (never named) file, two of them written with sugar of their own:
/// a named template that instantiates them needs them desugared as well.
const LIB_INCLUDED: &str = "pragma circom 2.1.0;\ntemplate AId() { signal input i; signal output o; o <== i; }\ntemplate A0() { signal output o; o <== 7; }\ntemplate A1(k) { signal input a; signal output o; signal m <== AId()(a); o <== m * k; }\ntemplate A2(k) { signal input a; signal input b; signal output o; o <== a * b + k; }\ntemplate A22(k) { signal input a; signal input b; signal output o1; signal output o2; (o1, o2) <== (a + b, a * k); }\ntemplate AN2(k) { signal input a; signal input b; a * k === b; }\ntemplate B2(k) { signal input q, p; signal output z, y; z <== q * k; y <== p + k; }\n";

struct Pair {
    /// Some(text): the helper templates live in an included file `zzlib.circom` with this content
    lib_file: Option<&'static str>,
    sugared: String,
    expanded: String,
    forms: Vec<&'static str>,
    in_loop: bool,
}

fn expr(t: &mut Tape, depth: usize) -> String {
    match if depth == 0 { t.below(3) } else { t.below(6) } {
        0 => format!("{}", t.below(9)),
        1 => format!("x{}", t.below(3)),
        2 => "n".to_string(),
        3 => format!("({} + {})", expr(t, depth - 1), expr(t, depth - 1)),
        4 => format!("({} * {})", expr(t, depth - 1), expr(t, depth - 1)),
        _ => format!("({} - {})", expr(t, depth - 1), expr(t, depth - 1)),
    }
}

fn gen_pair(t: &mut Tape) -> Pair {
    let mut s = String::new();
    let mut e = String::new();
    let mut forms = Vec::new();
    let items = 1 + t.below(5);
    let mut k = 0usize;
    let in_loop = t.chance(50);
    let mut item = |t: &mut Tape, s: &mut String, e: &mut String, forms: &mut Vec<&'static str>, k: &mut usize, allow_decl: bool| {
        *k += 1;
        let i = *k;
        let kk = 1 + t.below(5);
        let (e1, e2, e3) = (expr(t, 2), expr(t, 2), expr(t, 1));
        let op = if t.chance(170) { "<==" } else { "<--" };
        match t.below(if allow_decl { 15 } else { 11 }) {
            0 => {
                if t.chance(90) {
                    // the right-arrow spelling: `(e..) --> (x..)` / `(e..) ==> (x..)`
                    let rop = if op == "<==" { "==>" } else { "-->" };
                    forms.push("tuple assignment with _, right-arrow spelling");
                    s.push_str(&format!("    ({e1}, {e2}, {e3}) {rop} (ta{i}, _, tb{i});\n"));
                    e.push_str(&format!("    {e1} {rop} ta{i};\n    {e3} {rop} tb{i};\n"));
                } else {
                    forms.push("tuple assignment with _");
                    s.push_str(&format!("    (ta{i}, _, tb{i}) {op} ({e1}, {e2}, {e3});\n"));
                    e.push_str(&format!("    ta{i} {op} {e1};\n    tb{i} {op} {e3};\n"));
                }
            }
            1 => {
                forms.push("tuple assignment of variables");
                s.push_str(&format!("    (va{i}, vb{i}) = ({e1}, {e2});\n    ta{i} <== va{i} + vb{i};\n    tb{i} <== 1;\n"));
                e.push_str(&format!("    va{i} = {e1};\n    vb{i} = {e2};\n    ta{i} <== va{i} + vb{i};\n    tb{i} <== 1;\n"));
            }
            2 if t.chance(100) => {
                forms.push("tuple nested three levels deep");
                s.push_str(&format!("    (((ta{i}, tb{i}), va{i}), _) <== ((({e1}, {e2}), {e3}), 5);\n"));
                e.push_str(&format!("    ta{i} <== {e1};\n    tb{i} <== {e2};\n    va{i} <== {e3};\n"));
            }
            2 => {
                forms.push("nested tuple");
                s.push_str(&format!("    (ta{i}, (tb{i}, va{i})) <== ({e1}, ({e2}, {e3}));\n"));
                e.push_str(&format!("    ta{i} <== {e1};\n    tb{i} <== {e2};\n    va{i} <== {e3};\n"));
            }
            3 => {
                forms.push("anonymous component, positional");
                s.push_str(&format!("    ta{i} <== A2({kk})({e1}, {e2});\n    tb{i} <== 2;\n"));
                e.push_str(&format!("    zc{i} = A2({kk});\n    zc{i}.a <== {e1};\n    zc{i}.b <== {e2};\n    ta{i} <== zc{i}.o;\n    tb{i} <== 2;\n"));
            }
            4 => {
                forms.push("anonymous component, named inputs in reverse order");
                let op2 = if t.chance(128) { "<==" } else { "<--" };
                s.push_str(&format!("    ta{i} <== A2({kk})(b {op2} {e2}, a {op} {e1});\n    tb{i} <== 2;\n"));
                e.push_str(&format!("    zc{i} = A2({kk});\n    zc{i}.a {op} {e1};\n    zc{i}.b {op2} {e2};\n    ta{i} <== zc{i}.o;\n    tb{i} <== 2;\n"));
            }
            5 => {
                forms.push("anonymous component with two outputs into a tuple");
                s.push_str(&format!("    (ta{i}, tb{i}) <== A22({kk})({e1}, {e2});\n"));
                e.push_str(&format!("    zc{i} = A22({kk});\n    zc{i}.a <== {e1};\n    zc{i}.b <== {e2};\n    ta{i} <== zc{i}.o1;\n    tb{i} <== zc{i}.o2;\n"));
            }
            6 => {
                forms.push("anonymous component statement (template without outputs)");
                s.push_str(&format!("    AN2({kk})({e1}, {e2});\n    ta{i} <== 1;\n    tb{i} <== 2;\n"));
                e.push_str(&format!("    zc{i} = AN2({kk});\n    zc{i}.a <== {e1};\n    zc{i}.b <== {e2};\n    ta{i} <== 1;\n    tb{i} <== 2;\n"));
            }
            7 => {
                forms.push("parallel anonymous component");
                s.push_str(&format!("    ta{i} <== parallel A1({kk})({e1});\n    tb{i} <== 2;\n"));
                e.push_str(&format!("    zc{i} = parallel A1({kk});\n    zc{i}.a <== {e1};\n    ta{i} <== zc{i}.o;\n    tb{i} <== 2;\n"));
            }
            8 => {
                forms.push("anonymous component inside a tuple, single named input");
                s.push_str(&format!("    (ta{i}, tb{i}) <== ({e1}, A1({kk})(a {op} {e2}));\n"));
                e.push_str(&format!("    zc{i} = A1({kk});\n    zc{i}.a {op} {e2};\n    ta{i} <== {e1};\n    tb{i} <== zc{i}.o;\n"));
            }
            9 => {
                forms.push("anonymous component whose inputs and outputs are declared in one comma-separated statement, not alphabetically");
                s.push_str(&format!("    (ta{i}, tb{i}) <== B2({kk})({e1}, {e2});\n"));
                e.push_str(&format!("    zc{i} = B2({kk});\n    zc{i}.q <== {e1};\n    zc{i}.p <== {e2};\n    ta{i} <== zc{i}.z;\n    tb{i} <== zc{i}.y;\n"));
            }
            10 => {
                forms.push("second output of an anonymous component discarded with _");
                let par = if t.chance(80) { "parallel " } else { "" };
                s.push_str(&format!("    (ta{i}, _) <== {par}B2({kk})({e1}, {e2});\n    tb{i} <== 2;\n"));
                e.push_str(&format!("    zc{i} = {par}B2({kk});\n    zc{i}.q <== {e1};\n    zc{i}.p <== {e2};\n    ta{i} <== zc{i}.z;\n    tb{i} <== 2;\n"));
            }
            11 => {
                forms.push("tuple declaration of signals");
                s.push_str(&format!("    signal (td{i}, te{i}) {op} ({e1}, {e2});\n    ta{i} <== td{i};\n    tb{i} <== te{i};\n"));
                e.push_str(&format!("    signal td{i};\n    signal te{i};\n    td{i} {op} {e1};\n    te{i} {op} {e2};\n    ta{i} <== td{i};\n    tb{i} <== te{i};\n"));
            }
            12 => {
                forms.push("tuple declaration of variables");
                s.push_str(&format!("    var (vd{i}, ve{i}) = ({e1}, {e2});\n    ta{i} <== vd{i};\n    tb{i} <== ve{i};\n"));
                e.push_str(&format!("    var vd{i};\n    var ve{i};\n    vd{i} = {e1};\n    ve{i} = {e2};\n    ta{i} <== vd{i};\n    tb{i} <== ve{i};\n"));
            }
            13 => {
                forms.push("tuple declaration of components");
                let rest = format!("    zd{i}.a <== {e1};\n    zd{i}.b <== {e2};\n    ta{i} <== zd{i}.o1;\n    tb{i} <== ze{i}.o;\n");
                s.push_str(&format!("    component (zd{i}, ze{i}) = (A22({kk}), A0());\n{rest}"));
                e.push_str(&format!("    component zd{i};\n    component ze{i};\n    zd{i} = A22({kk});\n    ze{i} = A0();\n{rest}"));
            }
            _ => {
                forms.push("signal declaration initialised by an anonymous component without inputs");
                s.push_str(&format!("    signal td{i} <== A0()();\n    ta{i} <== td{i};\n    tb{i} <== 2;\n"));
                e.push_str(&format!("    signal td{i};\n    zc{i} = A0();\n    td{i} <== zc{i}.o;\n    ta{i} <== td{i};\n    tb{i} <== 2;\n"));
            }
        }
    };
    let mut body_s = String::new();
    let mut body_e = String::new();
    for _ in 0..items {
        let mut bs = String::new();
        let mut be = String::new();
        let wrap = t.below(4);
        // declarations are only generated at top level
        item(t, &mut bs, &mut be, &mut forms, &mut k, wrap != 1 && !(in_loop));
        match wrap {
            1 => {
                if t.chance(128) {
                    // an `if` with an `else` branch, each holding sugar of its own
                    let mut bs2 = String::new();
                    let mut be2 = String::new();
                    item(t, &mut bs2, &mut be2, &mut forms, &mut k, false);
                    forms.push("inside both branches of an if/else");
                    body_s.push_str(&format!("    if (n > 2) {{\n{bs}    }} else {{\n{bs2}    }}\n"));
                    body_e.push_str(&format!("    if (n > 2) {{\n{be}    }} else {{\n{be2}    }}\n"));
                } else {
                    forms.push("inside a branch");
                    body_s.push_str(&format!("    if (n > 2) {{\n{bs}    }}\n"));
                    body_e.push_str(&format!("    if (n > 2) {{\n{be}    }}\n"));
                }
            }
            _ => {
                body_s.push_str(&bs);
                body_e.push_str(&be);
            }
        }
    }
    // declarations of everything the items use
    let mut decl_s = String::from("    signal input x0;\n    signal input x1;\n    signal input x2;\n");
    let mut decl_e = decl_s.clone();
    for i in 1..=k {
        let d = format!("    signal ta{i};\n    signal tb{i};\n    var va{i};\n    var vb{i};\n");
        decl_s.push_str(&d);
        decl_e.push_str(&d);
        decl_e.push_str(&format!("    component zc{i};\n"));
    }
    if in_loop {
        s = format!("template Top(n) {{\n{decl_s}    for (var q = 0; q < 2; q++) {{\n{body_s}    }}\n}}\n");
        // array-of-components expansion is ambiguous across versions: the expansion keeps scalar components
        e = format!("template Top(n) {{\n{decl_e}    for (var q = 0; q < 2; q++) {{\n{body_e}    }}\n}}\n");
    } else {
        s = format!("template Top(n) {{\n{decl_s}{body_s}}}\n");
        e = format!("template Top(n) {{\n{decl_e}{body_e}}}\n");
    }
    if t.chance(64) {
        forms.push("helper templates in an included file, written with sugar themselves");
        let inc = "include \"zzlib.circom\";\n";
        return Pair { lib_file: Some(LIB_INCLUDED), sugared: format!("pragma circom 2.1.0;\n{inc}{s}"), expanded: format!("pragma circom 2.1.0;\n{inc}{e}"), forms, in_loop };
    }
    Pair { lib_file: None, sugared: format!("pragma circom 2.1.0;\n{LIB}{s}"), expanded: format!("pragma circom 2.1.0;\n{LIB}{e}"), forms, in_loop }
}

/// `A2_12_345` / `zc7` -> `COMP`
fn normalise(m: &str) -> String {
    let chars: Vec<char> = m.chars().collect();
    let mut out = String::new();
    let mut i = 0;
    let is_id = |c: char| c.is_ascii_alphanumeric() || c == '_' || c == '$';
    while i < chars.len() {
        if is_id(chars[i]) && (i == 0 || !is_id(chars[i - 1])) {
            let mut j = i;
            while j < chars.len() && is_id(chars[j]) {
                j += 1;
            }
            let word: String = chars[i..j].iter().collect();
            let parts: Vec<&str> = word.split('_').collect();
            let synth = parts.len() == 3 && matches!(parts[0], "A0" | "A1" | "A2" | "A22" | "AN2" | "B2") && parts[1].chars().all(|c| c.is_ascii_digit()) && parts[2].chars().all(|c| c.is_ascii_digit()) && !parts[1].is_empty() && !parts[2].is_empty();
            let hand = word.starts_with("zc") && word.len() > 2 && word[2..].chars().all(|c| c.is_ascii_digit());
            if synth || hand {
                out.push_str("COMP");
            } else {
                out.push_str(&word);
            }
            i = j;
        } else {
            out.push(chars[i]);
            i += 1;
        }
    }
    out
}

fn findings(path: &Path) -> Result<(BTreeMap<(String, String), usize>, Vec<String>), String> {
    let r = reference(&[path.to_path_buf()], &[], &program_structure::constants::Curve::Bn254)?;
    let mut m = BTreeMap::new();
    let mut errors = Vec::new();
    for rep in &r.reports {
        // findings of the helper templates are the same on both sides; keep everything
        // message plus the messages of the labels (they name the assigned signal / component port)
        let mut labels: Vec<String> = rep.primary().iter().chain(rep.secondary().iter()).map(|l| normalise(&l.message)).collect();
        labels.sort();
        *m.entry((rep.id(), format!("{} {:?}", normalise(rep.message()), labels))).or_insert(0) += 1;
        if *rep.category() == MessageCategory::Error {
            errors.push(format!("[{}] {}", rep.id(), rep.message()));
        }
    }
    Ok((m, errors))
}

/// A sugared program of the faithfulness sub-check (and the text of its included library file, if any).
pub fn sugared_program(t: &mut Tape) -> (String, Option<&'static str>) {
    let p = gen_pair(t);
    (p.sugared, p.lib_file)
}

fn faithfulness_case(ctx: &Ctx, tape: &[u8], rec: &Rec) -> Verdict {
    let mut t = Tape::new(tape);
    let p = gen_pair(&mut t);
    let dir = scratch(ctx, "c18b");
    let ps = dir.join("s.circom");
    let pe = dir.join("e.circom");
    std::fs::write(&ps, &p.sugared).map_err(|e| Bad::new(format!("INFRA write: {e}")))?;
    std::fs::write(&pe, &p.expanded).map_err(|e| Bad::new(format!("INFRA write: {e}")))?;
    if let Some(lib) = p.lib_file {
        std::fs::write(dir.join("zzlib.circom"), lib).map_err(|e| Bad::new(format!("INFRA write: {e}")))?;
    }
    let fs = findings(&ps);
    let fe = findings(&pe);
    let _ = std::fs::remove_dir_all(&dir);
    let render = || format!("--- sugared\n{}\n--- hand-written expansion\n{}", p.sugared, p.expanded);
    let (fs, es) = fs.map_err(|e| Bad::new(format!("analysing the sugared program panicked: {e}")).sig("C18:panic").rendered(render()))?;
    let (fe, ee) = fe.map_err(|e| Bad::new(format!("analysing the expansion panicked: {e}")).sig("C18:panic-expansion").rendered(render()))?;
    rec.class("pairs");
    for f in &p.forms {
        rec.class(&format!("form:{f}"));
    }
    rec.nontrivial(fnv(p.sugared.as_bytes()));
    rec.sample(|| json!({"kind": "faithfulness", "sugared": p.sugared, "expanded": p.expanded}));
    if !ee.is_empty() {
        // the hand-written expansion must be acceptable: otherwise the pair says nothing
        rec.class("pairs_discarded_expansion_rejected");
        return Ok(());
    }
    if !es.is_empty() {
        return Err(Bad::new(format!("the sugared program is rejected ({}) although its hand-written expansion is analysed", es.join("; "))).sig("C18:sugared-rejected").rendered(render()));
    }
    // the `parallel` prefix of an anonymous component changes how it is scheduled, not what is declared,
    // assigned or read: the findings with and without the prefix are the same (also inside loop bodies,
    // where the generated component is an element of an array indexed by a generated counter)
    if p.sugared.contains("parallel ") {
        let plain = p.sugared.replace("parallel ", "");
        let dir = scratch(ctx, "c18b");
        let pp = dir.join("p.circom");
        std::fs::write(&pp, &plain).map_err(|e| Bad::new(format!("INFRA write: {e}")))?;
        if let Some(lib) = p.lib_file {
            std::fs::write(dir.join("zzlib.circom"), lib).map_err(|e| Bad::new(format!("INFRA write: {e}")))?;
        }
        let fp = findings(&pp);
        let _ = std::fs::remove_dir_all(&dir);
        let (fp, ep) = fp.map_err(|e| Bad::new(format!("analysing the program without `parallel` panicked: {e}")).sig("C18:panic").rendered(render()))?;
        rec.class(if p.in_loop { "pairs_with_parallel_prefix_in_loop_body" } else { "pairs_with_parallel_prefix" });
        if ep.is_empty() && fp != fs {
            let only_s: Vec<_> = fs.iter().filter(|(k, n)| fp.get(*k).copied().unwrap_or(0) < **n).map(|(k, _)| k.clone()).collect();
            let only_p: Vec<_> = fp.iter().filter(|(k, n)| fs.get(*k).copied().unwrap_or(0) < **n).map(|(k, _)| k.clone()).collect();
            return Err(Bad::new(format!(
                "the findings change when the `parallel` prefix of the anonymous components is removed: only with the prefix {only_s:?}; only without {only_p:?}"
            ))
            .sig("C18:parallel-prefix-changes-findings")
            .rendered(render()));
        }
    }
    if p.in_loop {
        rec.class("pairs_in_loop_weak_relation");
        // weaker relation: findings of the expansion about user-written statements are also reported for the sugared form
        for ((id, msg), n) in &fe {
            if matches!(id.as_str(), "CS0005" | "CS0013" | "CS0003" | "CS0004") && !msg.contains("COMP") {
                if fs.get(&(id.clone(), msg.clone())).copied().unwrap_or(0) < *n {
                    return Err(Bad::new(format!("inside a loop: the expansion yields [{id}] `{msg}` x{n}, the sugared form fewer")).sig("C18:loop-finding-lost").rendered(render()));
                }
            }
        }
        return Ok(());
    }
    if fs != fe {
        let only_s: Vec<_> = fs.iter().filter(|(k, n)| fe.get(*k).copied().unwrap_or(0) < **n).map(|(k, n)| (k.clone(), *n - fe.get(k).copied().unwrap_or(0))).collect();
        let only_e: Vec<_> = fe.iter().filter(|(k, n)| fs.get(*k).copied().unwrap_or(0) < **n).map(|(k, n)| (k.clone(), *n - fs.get(k).copied().unwrap_or(0))).collect();
        return Err(Bad::new(format!(
            "the findings of the sugared program differ from those of its hand-written expansion: only sugared {only_s:?}; only expansion {only_e:?}"
        ))
        .sig("C18:findings-differ")
        .rendered(render()));
    }
    Ok(())
}

pub fn replay(ctx: &Ctx, check: &str, tape: &[u8]) -> Verdict {
    let stats = Stats::new();
    let rec = Rec::new(&stats, false);
    match check {
        "completeness" => completeness_case(ctx, tape, &rec),
        "faithfulness" => faithfulness_case(ctx, tape, &rec),
        _ => Err(Bad::new(format!("unknown check {check}"))),
    }
}

/// repro = file: every template must be analysed (no error report) — used for the loop-counter finding.
fn replay_known(_ctx: &Ctx, k: &Known) -> Verdict {
    let r = reference(&[PathBuf::from(&k.repro)], &[], &program_structure::constants::Curve::Bn254).map_err(|p| Bad::new(format!("panic: {p}")).sig(k.signature.clone()))?;
    if let Some(e) = r.reports.iter().find(|r| *r.category() == MessageCategory::Error && !r.message().contains("not allowed in functions")) {
        return Err(Bad::new(format!("{}: [{}] {}", k.repro, e.id(), e.message())).sig(k.signature.clone()));
    }
    Ok(())
}

pub fn run(ctx: &Ctx) -> i32 {
    let start = Instant::now();
    let stats = Stats::new();
    let mut outcome = Outcome::new();
    let known = load_known("C18");
    for k in &known {
        let r = replay_known(ctx, k);
        outcome.known_replay(k, r);
    }
    let fails = run_tapes_opts(ctx, "completeness", ctx.tier.pick(8_000, 200_000), 1500, 500, &stats, |tape, rec| completeness_case(ctx, tape, rec));
    outcome.absorb(&known, fails);
    let fails = run_tapes_opts(ctx, "faithfulness", ctx.tier.pick(5_000, 120_000), 600, 500, &stats, |tape, rec| faithfulness_case(ctx, tape, rec));
    outcome.absorb(&known, fails);
    let programs = stats.class_count("wild_files") + stats.class_count("pairs");
    finish(
        ctx,
        &stats,
        &outcome,
        EvidenceSpec {
            level: "translation_validation",
            rule: "(a) completeness: files of 1-4 `wild` definitions (tuples and anonymous components in every syntactic position: assignment sides, nested tuples, declarations, conditions, indices, assert/log/return arguments, call arguments, loop bodies, parallel prefix, arities 0-3, positional and named inputs, `_`; also inside functions) go through parse_files; an own walker over the public AST checks that no template body handed on contains a tuple, an anonymous component or a multi-substitution, that a function containing one is absent and a TAC01/TAC02 error is reported, that a dropped template comes with such an error, and that lifting, SSA conversion and all passes on what is left do not panic. (b) faithfulness: pairs (sugared template, hand-written expansion as defined in the property: declared component initialised with T(p), inputs assigned in declaration order or by name with the given operators, outputs read in declaration order, tuples element-wise in order skipping `_`) over 12 sugar forms, at top level and inside branches; both are analysed in-process and the multisets of (id, message with component names normalised) must be equal; inside loops only the weaker relation of DESIGN.md (sugared form analysed; user-statement findings of the expansion also reported). Non-trivial = wild definition that contains sugar / every pair; distinct by source hash.",
            assumptions: vec![
                "pairs whose hand-written expansion is itself rejected are discarded and counted".into(),
                "loop positions: equality is not asserted (the explicit form of a fresh component per iteration differs across Circom 2.0.0-2.1.4)".into(),
            ],
            extra: json!({"programs": programs}),
        },
        start,
    )
}
