//! C08 — every `<--` signal assignment is reported exactly once.

use super::c03::reference;
use super::semcase::trim_end;
use crate::engine::*;
use crate::field::Op;
use crate::gen::ast::*;
use crate::gen::print::{plain_trivia, print_file, render, Rendered};
use crate::gen::text::{random_trivia, LayoutOpts};
use serde_json::json;
use std::collections::{BTreeMap, BTreeSet};
use std::path::PathBuf;
use std::time::Instant;

/// One expected finding: the id of the generator node it is anchored at and the assigned signal.
#[derive(Clone, Debug)]
struct Expected {
    anchor: Id,
    /// signal name (None for inputs of anonymous components, whose name is synthetic)
    signal: Option<String>,
    /// textual access (`[i]`, `[2]`, `.a`) for the lower-bound rule
    access: String,
    /// block the signal is declared in, when another signal of the same name lives in a sibling block
    scope: Option<usize>,
}

#[derive(Clone, Debug)]
struct ConstraintStmt {
    id: Id,
    /// (signal name, textual access) occurrences that count for the lower bound
    mentions: Vec<(String, String)>,
    /// all identifiers occurring anywhere in the statement (upper bound)
    names: BTreeSet<String>,
    /// see `Expected::scope`
    scope: Option<usize>,
}

struct G<'a, 'b> {
    t: &'a mut Tape<'b>,
    ids: Ids,
    expected: Vec<Expected>,
    constraints: Vec<ConstraintStmt>,
    inputs: Vec<String>,
    /// scalar signals assigned so far (usable in later constraints)
    assigned: Vec<String>,
    counter: usize,
    loop_vars: Vec<String>,
    forms: Vec<&'static str>,
}

impl<'a, 'b> G<'a, 'b> {
    fn var(&mut self, name: &str) -> Expr {
        Expr::Var { id: self.ids.next(), name: name.to_string(), access: vec![] }
    }
    fn num(&mut self, v: u64) -> Expr {
        num(&mut self.ids, v)
    }
    fn fresh(&mut self, p: &str) -> String {
        self.counter += 1;
        // identifiers may start with underscores (`_` alone is the wildcard of tuple assignments)
        let lead = match self.t.below(12) {
            0 => "_",
            1 => "__",
            _ => "",
        };
        if !lead.is_empty() {
            self.forms.push("identifier starting with an underscore");
        }
        format!("{lead}{p}{}", self.counter)
    }

    /// Right-hand side over inputs, parameters and loop variables; collects identifiers used.
    fn rhs(&mut self, depth: usize) -> Expr {
        match if depth == 0 { self.t.below(3) } else { self.t.below(7) } {
            0 => {
                let v = self.t.below(9) as u64;
                self.num(v)
            }
            1 => {
                let n = self.inputs[self.t.below(self.inputs.len())].clone();
                self.var(&n)
            }
            2 => {
                if !self.loop_vars.is_empty() && self.t.chance(128) {
                    let n = self.loop_vars[self.t.below(self.loop_vars.len())].clone();
                    self.var(&n)
                } else {
                    self.var("n")
                }
            }
            3 | 4 => {
                let op = *self.t.pick(&[Op::Add, Op::Mul, Op::Sub, Op::Mul, Op::Div, Op::BitAnd, Op::Lt, Op::ShiftR]);
                let l = self.rhs(depth - 1);
                let r = self.rhs(depth - 1);
                infix(&mut self.ids, op, l, r)
            }
            5 => {
                let e = self.rhs(depth - 1);
                Expr::Prefix { id: self.ids.next(), op: crate::field::UnOp::Neg, e: Box::new(e) }
            }
            _ => {
                let c = self.var("n");
                let a = self.rhs(depth - 1);
                let b = self.rhs(depth - 1);
                Expr::Ternary { id: self.ids.next(), c: Box::new(c), a: Box::new(a), b: Box::new(b) }
            }
        }
    }

    fn names_of(e: &Expr, out: &mut BTreeSet<String>) {
        e.walk(&mut |x| {
            if let Expr::Var { name, .. } = x {
                out.insert(name.clone());
            }
        });
    }

    /// A constraint statement mentioning some already assigned scalar signal (or an input).
    fn constraint(&mut self) -> Stmt {
        let id = self.ids.next();
        let mut pool = self.assigned.clone();
        pool.extend(self.inputs.iter().cloned());
        let s = pool[self.t.below(pool.len())].clone();
        let mut sv = self.var(&s);
        if self.t.chance(70) {
            // the mention sits in one arm of a conditional expression
            let c = self.var("n");
            let o = self.rhs(1);
            let (a, b) = if self.t.chance(128) { (sv, o) } else { (o, sv) };
            sv = Expr::Ternary { id: self.ids.next(), c: Box::new(c), a: Box::new(a), b: Box::new(b) };
            self.forms.push("constraint mentioning the signal inside a conditional expression");
        }
        let other = self.rhs(1);
        let (l, r) = if self.t.chance(128) {
            (sv, other)
        } else {
            let e = self.rhs(1);
            (e, infix(&mut self.ids, Op::Add, other, sv))
        };
        let mut names = BTreeSet::new();
        Self::names_of(&l, &mut names);
        Self::names_of(&r, &mut names);
        // scalar occurrences with empty access
        let mentions = names.iter().map(|n| (n.clone(), String::new())).collect();
        self.constraints.push(ConstraintStmt { id, mentions, names, scope: None });
        Stmt::ConstraintEq { id, l, r }
    }

    /// `sig <== e;` on a fresh scalar signal: a constraint statement whose target counts as a mention.
    fn constrained_decl(&mut self, out: &mut Vec<Stmt>) {
        let name = self.fresh("c");
        let sid = self.ids.next();
        out.push(Stmt::Decl {
            id: self.ids.next(),
            kind: DeclKind::Signal(SigKind::Intermediate, vec![]),
            syms: vec![DeclSym { id: sid, sub_id: self.ids.next(), name: name.clone(), dims: vec![], init: None }],
            init_op: AssignOp::Constrain,
        });
        let id = self.ids.next();
        let mut pool = self.assigned.clone();
        pool.extend(self.inputs.iter().cloned());
        let s = pool[self.t.below(pool.len())].clone();
        let sv = self.var(&s);
        let other = self.rhs(1);
        let rhs = infix(&mut self.ids, Op::Add, sv, other);
        let mut names = BTreeSet::new();
        Self::names_of(&rhs, &mut names);
        let mut mentions: Vec<(String, String)> = names.iter().map(|n| (n.clone(), String::new())).collect();
        mentions.push((name.clone(), String::new()));
        names.insert(name.clone());
        self.constraints.push(ConstraintStmt { id, mentions, names, scope: None });
        let lhs = self.var(&name);
        out.push(Stmt::Assign { id, lhs, op: AssignOp::Constrain, rhs, reversed: self.t.chance(60) });
        self.assigned.push(name);
    }

    fn decl_signal(&mut self, name: &str, kind: SigKind, dim: Option<u64>, out: &mut Vec<Stmt>) {
        let dims = match dim {
            Some(n) => vec![self.num(n)],
            None => vec![],
        };
        out.push(Stmt::Decl {
            id: self.ids.next(),
            kind: DeclKind::Signal(kind, vec![]),
            syms: vec![DeclSym { id: self.ids.next(), sub_id: self.ids.next(), name: name.to_string(), dims, init: None }],
            init_op: AssignOp::Constrain,
        });
    }

    /// One `<--` form; declarations it needs go to `decls` (top of the template), the statement is returned.
    fn signal_assign(&mut self, decls: &mut Vec<Stmt>, in_loop: Option<(String, u64)>) -> Vec<Stmt> {
        let form = self.t.below(11);
        match form {
            // scalar, both spellings
            0 | 1 => {
                let s = self.fresh("s");
                let kind = if self.t.chance(128) { SigKind::Output } else { SigKind::Intermediate };
                self.decl_signal(&s, kind, None, decls);
                let id = self.ids.next();
                let lhs = self.var(&s);
                let rhs = self.rhs(2);
                self.expected.push(Expected { anchor: id, signal: Some(s.clone()), access: String::new(), scope: None });
                if in_loop.is_none() {
                    self.assigned.push(s);
                }
                self.forms.push(if form == 1 { "scalar -->" } else { "scalar <--" });
                vec![Stmt::Assign { id, lhs, op: AssignOp::Signal, rhs, reversed: form == 1 }]
            }
            // array element: loop variable or literal index
            2 | 3 => {
                let a = self.fresh("arr");
                let len = in_loop.as_ref().map(|l| l.1).unwrap_or(3);
                self.decl_signal(&a, SigKind::Output, Some(len), decls);
                let id = self.ids.next();
                let (ix, text) = match &in_loop {
                    Some((v, _)) if form == 2 => (self.var(v), format!("[{v}]")),
                    _ => {
                        let k = self.t.below(len as usize) as u64;
                        (self.num(k), format!("[{k}]"))
                    }
                };
                let lhs = Expr::Var { id: self.ids.next(), name: a.clone(), access: vec![Access::Index(ix)] };
                let rhs = self.rhs(2);
                self.expected.push(Expected { anchor: id, signal: Some(a), access: text, scope: None });
                self.forms.push("array element");
                vec![Stmt::Assign { id, lhs, op: AssignOp::Signal, rhs, reversed: self.t.chance(60) }]
            }
            // declaration with `<--` initialiser (top level only: a declaration in a loop is not Circom)
            4 if in_loop.is_none() => {
                // `signal d1 <-- e1, d2 <-- e2;` — one to three symbols share the statement's extent
                let id = self.ids.next();
                let n = 1 + self.t.below(3);
                let mut syms = Vec::new();
                for _ in 0..n {
                    let s = self.fresh("d");
                    let rhs = self.rhs(2);
                    self.expected.push(Expected { anchor: id, signal: Some(s.clone()), access: String::new(), scope: None });
                    self.assigned.push(s.clone());
                    syms.push(DeclSym { id: self.ids.next(), sub_id: self.ids.next(), name: s, dims: vec![], init: Some(rhs) });
                }
                self.forms.push(if n > 1 { "declaration with several `<--` initialisers" } else { "declaration with `<--` initialiser" });
                vec![Stmt::Decl { id, kind: DeclKind::Signal(SigKind::Intermediate, vec![]), syms, init_op: AssignOp::Signal }]
            }
            // component input (with the declaration moved to the top of the template the block that holds
            // the `<--` port assignment may contain nothing else, also inside a loop or branch)
            5 => {
                let c = self.fresh("comp");
                let k = self.num(2);
                let init = Expr::Call { id: self.ids.next(), name: "Sub".into(), args: vec![k] };
                let d = Stmt::Decl {
                    id: self.ids.next(),
                    kind: DeclKind::Component,
                    syms: vec![DeclSym { id: self.ids.next(), sub_id: self.ids.next(), name: c.clone(), dims: vec![], init: Some(init) }],
                    init_op: AssignOp::Var,
                };
                let id = self.ids.next();
                let lhs = Expr::Var { id: self.ids.next(), name: c.clone(), access: vec![Access::Field("a".into())] };
                // a right-hand side without any signal of the template in a third of the cases
                let rhs = if self.t.chance(85) {
                    let k = self.t.below(9) as u64;
                    let l = self.var("n");
                    let r = self.num(k);
                    infix(&mut self.ids, Op::Add, l, r)
                } else {
                    self.rhs(2)
                };
                self.expected.push(Expected { anchor: id, signal: Some(c.clone()), access: ".a".into(), scope: None });
                let id2 = self.ids.next();
                let lhs2 = Expr::Var { id: self.ids.next(), name: c, access: vec![Access::Field("b".into())] };
                let rhs2 = self.rhs(1);
                if in_loop.is_some() || self.t.chance(60) {
                    // declaration to the top; only the `<--` port assignment stays in place
                    decls.push(d);
                    // (at the top of the template no loop variable is in scope)
                    let _ = rhs2;
                    let first_input = self.inputs[0].clone();
                    let rhs2 = self.var(&first_input);
                    decls.push(Stmt::Assign { id: id2, lhs: lhs2, op: AssignOp::Constrain, rhs: rhs2, reversed: false });
                    self.forms.push("component input, alone in its block");
                    return vec![Stmt::Assign { id, lhs, op: AssignOp::Signal, rhs, reversed: false }];
                }
                self.forms.push("component input");
                vec![d, Stmt::Assign { id, lhs, op: AssignOp::Signal, rhs, reversed: false }, Stmt::Assign { id: id2, lhs: lhs2, op: AssignOp::Constrain, rhs: rhs2, reversed: false }]
            }
            // tuple assignment with `_`
            6 => {
                let s1 = self.fresh("t");
                let s2 = self.fresh("t");
                self.decl_signal(&s1, SigKind::Intermediate, None, decls);
                self.decl_signal(&s2, SigKind::Output, None, decls);
                let v1 = self.var(&s1);
                let v2 = self.var(&s2);
                self.expected.push(Expected { anchor: v1.id(), signal: Some(s1.clone()), access: String::new(), scope: None });
                self.expected.push(Expected { anchor: v2.id(), signal: Some(s2.clone()), access: String::new(), scope: None });
                let under = Expr::Underscore { id: self.ids.next() };
                let lhs = Expr::Tuple { id: self.ids.next(), elems: vec![v1, under, v2] };
                let (e1, e2, e3) = (self.rhs(1), self.rhs(1), self.rhs(1));
                let rhs = Expr::Tuple { id: self.ids.next(), elems: vec![e1, e2, e3] };
                self.assigned.push(s1);
                self.assigned.push(s2);
                // `(e1, e2, e3) --> (s1, _, s2)` as well
                let reversed = self.t.chance(100);
                self.forms.push(if reversed { "tuple -->" } else { "tuple <--" });
                vec![Stmt::Assign { id: self.ids.next(), lhs, op: AssignOp::Signal, rhs, reversed }]
            }
            // tuple declaration form
            7 if in_loop.is_none() => {
                let s1 = self.fresh("u");
                let s2 = self.fresh("u");
                let id = self.ids.next();
                self.expected.push(Expected { anchor: id, signal: Some(s1.clone()), access: String::new(), scope: None });
                self.expected.push(Expected { anchor: id, signal: Some(s2.clone()), access: String::new(), scope: None });
                let (e1, e2) = (self.rhs(1), self.rhs(1));
                let rhs = Expr::Tuple { id: self.ids.next(), elems: vec![e1, e2] };
                self.assigned.push(s1.clone());
                self.assigned.push(s2.clone());
                self.forms.push("tuple declaration");
                vec![Stmt::TupleDecl {
                    id,
                    kind: DeclKind::Signal(SigKind::Intermediate, vec![]),
                    syms: vec![
                        DeclSym { id: self.ids.next(), sub_id: self.ids.next(), name: s1, dims: vec![], init: None },
                        DeclSym { id: self.ids.next(), sub_id: self.ids.next(), name: s2, dims: vec![], init: None },
                    ],
                    init: Some((AssignOp::Signal, rhs)),
                }]
            }
            // anonymous component with named inputs, one or both with `<--`
            8 => {
                let s = self.fresh("z");
                self.decl_signal(&s, SigKind::Intermediate, None, decls);
                let two = self.t.chance(128);
                let k = self.num(2);
                let (e1, e2) = (self.rhs(1), self.rhs(1));
                let call_id = self.ids.next();
                let single = self.t.chance(90);
                let (tname, inputs, names) = if single {
                    ("One".to_string(), vec![e1], vec![(AssignOp::Signal, "a".to_string())])
                } else {
                    let op2 = if two { AssignOp::Signal } else { AssignOp::Constrain };
                    // named inputs may be given in either order
                    if self.t.chance(128) {
                        ("Sub1".to_string(), vec![e1, e2], vec![(AssignOp::Signal, "a".to_string()), (op2, "b".to_string())])
                    } else {
                        ("Sub1".to_string(), vec![e2, e1], vec![(op2, "b".to_string()), (AssignOp::Signal, "a".to_string())])
                    }
                };
                let nsig = names.iter().filter(|(op, _)| *op == AssignOp::Signal).count();
                for _ in 0..nsig {
                    self.expected.push(Expected { anchor: call_id, signal: None, access: String::new(), scope: None });
                }
                let params = if tname == "One" { vec![] } else { vec![k] };
                self.forms.push(if nsig == 2 { "anonymous component, two `<--` inputs" } else { "anonymous component, one `<--` input" });
                let anon = Expr::Anon { id: call_id, name: tname, params, inputs, names: Some(names) };
                let anon = if self.t.chance(50) {
                    self.forms.push("parallel anonymous component with named `<--` inputs");
                    Expr::Parallel { id: self.ids.next(), e: Box::new(anon) }
                } else {
                    anon
                };
                let lhs = self.var(&s);
                let id = self.ids.next();
                // `s <== T()(…)` is itself a constraint statement mentioning s
                let mut names_set = BTreeSet::new();
                names_set.insert(s.clone());
                self.constraints.push(ConstraintStmt { id, mentions: vec![(s.clone(), String::new())], names: names_set, scope: None });
                self.assigned.push(s);
                vec![Stmt::Assign { id, lhs, op: AssignOp::Constrain, rhs: anon, reversed: false }]
            }
            // an anonymous component with a `<--` input nested in a `<--` input of another anonymous
            // component whose template has two outputs (tuple destination) or none (statement form)
            9 => {
                let e1 = self.rhs(1);
                let e2 = self.rhs(1);
                let inner_id = self.ids.next();
                let inner = Expr::Anon { id: inner_id, name: "One".into(), params: vec![], inputs: vec![e1], names: Some(vec![(AssignOp::Signal, "a".to_string())]) };
                let outer_id = self.ids.next();
                self.expected.push(Expected { anchor: outer_id, signal: None, access: String::new(), scope: None });
                self.expected.push(Expected { anchor: inner_id, signal: None, access: String::new(), scope: None });
                if self.t.chance(128) {
                    self.forms.push("nested anonymous components, outer template with two outputs");
                    let outer = Expr::Anon {
                        id: outer_id,
                        name: "Two".into(),
                        params: vec![],
                        inputs: vec![inner, e2],
                        names: Some(vec![(AssignOp::Signal, "a".to_string()), (AssignOp::Constrain, "b".to_string())]),
                    };
                    let s1 = self.fresh("n");
                    let s2 = self.fresh("n");
                    self.decl_signal(&s1, SigKind::Intermediate, None, decls);
                    self.decl_signal(&s2, SigKind::Intermediate, None, decls);
                    let v1 = self.var(&s1);
                    let v2 = self.var(&s2);
                    let lhs = Expr::Tuple { id: self.ids.next(), elems: vec![v1, v2] };
                    let id = self.ids.next();
                    let mut names_set = BTreeSet::new();
                    names_set.insert(s1.clone());
                    names_set.insert(s2.clone());
                    self.constraints.push(ConstraintStmt { id, mentions: vec![(s1.clone(), String::new()), (s2.clone(), String::new())], names: names_set, scope: None });
                    self.assigned.push(s1);
                    self.assigned.push(s2);
                    vec![Stmt::Assign { id, lhs, op: AssignOp::Constrain, rhs: outer, reversed: false }]
                } else {
                    self.forms.push("nested anonymous components, outer template without outputs");
                    let _ = e2;
                    let outer = Expr::Anon { id: outer_id, name: "Zero".into(), params: vec![], inputs: vec![inner], names: Some(vec![(AssignOp::Signal, "a".to_string())]) };
                    vec![Stmt::ExprStmt { id: self.ids.next(), e: outer }]
                }
            }
            // two signals of one name declared in the two branches of an `if`, each assigned with `<--` and
            // constrained inside its own branch
            10 if self.loop_vars.is_empty() => {
                let w = self.fresh("w");
                let mut branches = Vec::new();
                for _ in 0..2 {
                    let scope = self.ids.next();
                    let mut stmts = Vec::new();
                    self.decl_signal(&w, SigKind::Intermediate, None, &mut stmts);
                    let id = self.ids.next();
                    let lhs = self.var(&w);
                    let input = self.inputs[self.t.below(self.inputs.len())].clone();
                    let l = self.var(&input);
                    let k = 1 + self.t.below(5) as u64;
                    let r = self.num(k);
                    let rhs = infix(&mut self.ids, Op::ShiftR, l, r);
                    self.expected.push(Expected { anchor: id, signal: Some(w.clone()), access: String::new(), scope: Some(scope) });
                    stmts.push(Stmt::Assign { id, lhs, op: AssignOp::Signal, rhs, reversed: self.t.chance(60) });
                    for _ in 0..1 + self.t.below(2) {
                        let cid = self.ids.next();
                        let wv = self.var(&w);
                        let o = self.rhs(1);
                        let e = self.rhs(1);
                        let sum = infix(&mut self.ids, Op::Add, o, wv);
                        let mut names = BTreeSet::new();
                        Self::names_of(&sum, &mut names);
                        Self::names_of(&e, &mut names);
                        let mentions = names.iter().map(|n| (n.clone(), String::new())).collect();
                        self.constraints.push(ConstraintStmt { id: cid, mentions, names, scope: Some(scope) });
                        stmts.push(Stmt::ConstraintEq { id: cid, l: e, r: sum });
                    }
                    branches.push(Stmt::Block { id: scope, stmts });
                }
                let nv = self.var("n");
                let k = self.num(2);
                let cond = infix(&mut self.ids, Op::Eq, nv, k);
                let els = branches.pop().map(Box::new);
                let then = Box::new(branches.pop().unwrap());
                self.forms.push("same-named signals declared in sibling branches");
                vec![Stmt::If { id: self.ids.next(), cond, then, els }]
            }
            _ => {
                let s = self.fresh("s");
                self.decl_signal(&s, SigKind::Intermediate, None, decls);
                let id = self.ids.next();
                let lhs = self.var(&s);
                let rhs = self.rhs(1);
                self.expected.push(Expected { anchor: id, signal: Some(s), access: String::new(), scope: None });
                vec![Stmt::Assign { id, lhs, op: AssignOp::Signal, rhs, reversed: false }]
            }
        }
    }
}

impl<'a, 'b> G<'a, 'b> {
    /// A sequence of statements; `in_loop` = innermost loop variable and bound, `depth` = nesting depth.
    fn items(&mut self, decls: &mut Vec<Stmt>, in_loop: Option<(String, u64)>, depth: usize, nested: &mut usize) -> Vec<Stmt> {
        let mut body: Vec<Stmt> = Vec::new();
        let n = if depth == 0 { 2 + self.t.below(7) } else { 1 + self.t.below(3) };
        for _ in 0..n {
            match self.t.below(8) {
                0 if depth == 0 => {
                    let c = self.constraint();
                    body.push(c);
                }
                1 if depth == 0 => self.constrained_decl(&mut body),
                2 | 0 if depth < 3 => {
                    // a for loop (possibly nested)
                    let v = self.fresh("i");
                    let bound = 1 + self.t.below(3) as u64;
                    self.loop_vars.push(v.clone());
                    let inner = self.items(decls, Some((v.clone(), bound)), depth + 1, nested);
                    self.loop_vars.pop();
                    let zero = self.num(0);
                    let init = Stmt::Decl {
                        id: self.ids.next(),
                        kind: DeclKind::Var,
                        syms: vec![DeclSym { id: self.ids.next(), sub_id: self.ids.next(), name: v.clone(), dims: vec![], init: Some(zero) }],
                        init_op: AssignOp::Var,
                    };
                    let iv = self.var(&v);
                    let b = self.num(bound);
                    let cond = infix(&mut self.ids, Op::Lt, iv, b);
                    let step = Stmt::IncDec { id: self.ids.next(), name: v, access: vec![], inc: true };
                    let blk = Stmt::Block { id: self.ids.next(), stmts: inner };
                    body.push(Stmt::For { id: self.ids.next(), init: Box::new(init), cond, step: Box::new(step), body: Box::new(blk) });
                }
                3 | 1 if depth < 3 => {
                    // a branch on a parameter (possibly nested)
                    let nv = self.var("n");
                    let k = self.num(1);
                    let cond = infix(&mut self.ids, Op::Gt, nv, k);
                    let inl = in_loop.clone().or(Some(("n".into(), 3)));
                    let then = self.items(decls, inl.clone(), depth + 1, nested);
                    let els = if self.t.chance(128) {
                        let mut e = self.items(decls, inl, depth + 1, nested);
                        let bare_ok = e.len() == 1 && matches!(e[0], Stmt::Assign { .. } | Stmt::If { .. } | Stmt::For { .. } | Stmt::ExprStmt { .. });
                        if bare_ok && self.t.chance(170) {
                            // `else stmt;` / `else if (..) {..}`: an else-case that is not a block
                            self.forms.push("else-case without braces");
                            e.pop().map(Box::new)
                        } else {
                            Some(Box::new(Stmt::Block { id: self.ids.next(), stmts: e }))
                        }
                    } else {
                        None
                    };
                    let then = Stmt::Block { id: self.ids.next(), stmts: then };
                    body.push(Stmt::If { id: self.ids.next(), cond, then: Box::new(then), els });
                }
                _ => {
                    if depth > 0 {
                        *nested += 1;
                    }
                    let st = self.signal_assign(decls, in_loop.clone());
                    body.extend(st);
                }
            }
        }
        body
    }
}

const HELPERS: &str = "\ntemplate Sub(k) { signal input a; signal input b; signal output x; x <== a + b * k; }\ntemplate Sub1(k) { signal input a; signal input b; signal output x; x <== a * k + b; }\ntemplate One() { signal input a; signal output o; o <== a; }\ntemplate Two() { signal input a; signal input b; signal output p; signal output q; p <== a; q <== b; }\ntemplate Zero() { signal input a; a === a; }\n";

struct Case {
    src: String,
    r: Rendered,
    blank: String,
    expected: Vec<Expected>,
    constraints: Vec<ConstraintStmt>,
    custom: bool,
    nested: usize,
    forms: Vec<&'static str>,
}

fn gen_case(t: &mut Tape) -> Case {
    let custom = t.chance(25);
    let mut g = G { t, ids: Ids::default(), expected: vec![], constraints: vec![], inputs: vec![], assigned: vec![], counter: 0, loop_vars: vec![], forms: vec![] };
    let mut decls: Vec<Stmt> = Vec::new();
    let nin = 1 + g.t.below(3);
    for i in 0..nin {
        let n = format!("in{i}");
        g.decl_signal(&n, SigKind::Input, None, &mut decls);
        g.inputs.push(n);
    }
    let parallel = !custom && g.t.chance(50);
    let with_main = g.t.chance(110);
    if parallel {
        g.forms.push("template parallel");
    }
    if with_main {
        g.forms.push("file with a main component");
    }
    let mut nested = 0;
    let body = g.items(&mut decls, None, 0, &mut nested);
    let mut stmts = decls;
    stmts.extend(body);
    let def = Def {
        id: g.ids.next(),
        params_id: g.ids.next(),
        kind: DefKind::Template { custom, parallel },
        name: "Top".into(),
        params: vec!["n".into()],
        body: Stmt::Block { id: g.ids.next(), stmts },
    };
    let mut file = File::default();
    file.version = Some((2, 1, 0));
    file.custom_templates = custom;
    file.defs.push(def);
    let printed = print_file(&file, false);
    let trivia = if g.t.chance(80) {
        random_trivia(&printed, g.t, LayoutOpts { comment_chance: 20, crlf: false }).0
    } else {
        plain_trivia(&printed)
    };
    let r = render(&printed, &trivia);
    // the main component has to come last in the file
    let src = format!("{}{}{}", r.src, HELPERS, if with_main { "\ncomponent main = Top(3);\n" } else { "" });
    let blank = match super::c05::comment_mask(src.as_bytes()) {
        Ok(mask) => String::from_utf8_lossy(&src.bytes().enumerate().map(|(i, c)| if mask[i] && c != b'\n' { b' ' } else { c }).collect::<Vec<u8>>()).to_string(),
        Err(_) => src.clone(),
    };
    Case { src, r, blank, expected: g.expected, constraints: g.constraints, custom, nested, forms: g.forms }
}

fn case(ctx: &Ctx, tape: &[u8], rec: &Rec) -> Verdict {
    let mut t = Tape::new(tape);
    let c = gen_case(&mut t);
    let dir = ctx.scratch.join(format!("c08-{:?}", std::thread::current().id()).replace(['(', ')'], ""));
    let _ = std::fs::create_dir_all(&dir);
    let path = dir.join("a.circom");
    std::fs::write(&path, &c.src).map_err(|e| Bad::new(format!("INFRA write: {e}")))?;
    let named: Vec<PathBuf> = vec![path];
    let reference = reference(&named, &[], &program_structure::constants::Curve::Bn254);
    let _ = std::fs::remove_dir_all(&dir);
    let reference = match reference {
        Ok(r) => r,
        Err(p) => return Err(Bad::new(format!("analysis panicked: {p}")).sig("C08:panic").rendered(c.src.clone())),
    };
    rec.class(if c.custom { "custom_templates" } else { "templates" });
    let span = |id: Id| c.r.span(id).map(|(a, b)| trim_end(&c.blank, a, b));
    // findings about the template under test (the helper templates contain no `<--`)
    let findings: Vec<_> = reference.reports.iter().filter(|r| matches!(r.id().as_str(), "CS0005" | "CS0013")).collect();
    let errors: Vec<_> = reference.reports.iter().filter(|r| *r.category() == program_structure::report::MessageCategory::Error).collect();
    if !errors.is_empty() {
        return Err(Bad::new(format!("the generated template was rejected: [{}] {}", errors[0].id(), errors[0].message())).sig("C08:rejected").rendered(c.src.clone()));
    }
    if c.custom {
        if !findings.is_empty() {
            return Err(Bad::new(format!("a custom template yields {} `<--` findings", findings.len())).sig("C08:custom-template-finding").rendered(c.src.clone()));
        }
        return Ok(());
    }
    rec.class_n("expected_findings", c.expected.len() as u64);
    for f in &c.forms {
        rec.class(&format!("form:{f}"));
    }
    if c.expected.len() >= 3 && c.nested >= 1 {
        rec.nontrivial(fnv(c.src.as_bytes()));
    }
    rec.sample(|| json!({"template": c.src, "signal_assignments": c.expected.len()}));
    // bijection by anchor span
    let mut want: BTreeMap<(usize, usize), Vec<&Expected>> = BTreeMap::new();
    for e in &c.expected {
        let Some(sp) = span(e.anchor) else { continue };
        want.entry(sp).or_default().push(e);
    }
    let mut got: BTreeMap<(usize, usize), Vec<&program_structure::report::Report>> = BTreeMap::new();
    for r in &findings {
        let Some(l) = r.primary().first() else {
            return Err(Bad::new(format!("[{}] finding without a location", r.id())).sig("C08:no-location").rendered(c.src.clone()));
        };
        got.entry(trim_end(&c.blank, l.range.start, l.range.end)).or_default().push(r);
    }
    for (sp, es) in &want {
        let n = got.get(sp).map(|v| v.len()).unwrap_or(0);
        if n != es.len() {
            return Err(Bad::new(format!(
                "the statement `{}` holds {} signal assignment(s) with `<--` but {} finding(s) are anchored at it",
                c.src.get(sp.0..sp.1).unwrap_or("?"),
                es.len(),
                n
            ))
            .sig(if n < es.len() { "C08:missing-finding" } else { "C08:duplicate-finding" })
            .rendered(c.src.clone()));
        }
    }
    for (sp, rs) in &got {
        if !want.contains_key(sp) {
            return Err(Bad::new(format!(
                "a `{}` finding is anchored at `{}`, which is not a `<--` assignment",
                rs[0].id(),
                c.src.get(sp.0..sp.1).unwrap_or("?")
            ))
            .sig("C08:finding-elsewhere")
            .rendered(c.src.clone()));
        }
    }
    // names and secondary labels
    for (sp, es) in &want {
        let rs = &got[sp];
        for e in es {
            let Some(sig) = &e.signal else { continue };
            // some finding at this anchor names the signal in its label
            let named: Vec<_> = rs.iter().filter(|r| r.primary()[0].message.contains(&format!("`{sig}"))).collect();
            if named.is_empty() {
                return Err(Bad::new(format!(
                    "no finding anchored at `{}` names the assigned signal `{sig}` (labels: {:?})",
                    c.src.get(sp.0..sp.1).unwrap_or("?"),
                    rs.iter().map(|r| r.primary()[0].message.clone()).collect::<Vec<_>>()
                ))
                .sig("C08:wrong-signal-named")
                .rendered(c.src.clone()));
            }
            let r = named[0];
            if r.id() == "CS0005" {
                let secondary: BTreeSet<(usize, usize)> = r.secondary().iter().map(|l| trim_end(&c.blank, l.range.start, l.range.end)).collect();
                rec.class("CS0005_secondary_sets_checked");
                // lower bound: constraint statements mentioning the signal with the identical access
                for cs in &c.constraints {
                    let Some(csp) = span(cs.id) else { continue };
                    let must = cs.mentions.iter().any(|(n, a)| n == sig && *a == e.access) && (e.scope.is_none() || cs.scope == e.scope);
                    if must && !secondary.contains(&csp) {
                        return Err(Bad::new(format!(
                            "`<--` finding for `{sig}{}`: the constraint statement `{}` mentions the signal but is not among the secondary locations",
                            e.access,
                            c.src.get(csp.0..csp.1).unwrap_or("?")
                        ))
                        .sig("C08:constraint-not-listed")
                        .rendered(c.src.clone()));
                    }
                }
                // upper bound: only constraint statements that mention the signal's name at all
                for s2 in &secondary {
                    let ok = c.constraints.iter().any(|cs| span(cs.id) == Some(*s2) && cs.names.contains(sig) && (e.scope.is_none() || cs.scope == e.scope));
                    if !ok {
                        return Err(Bad::new(format!(
                            "`<--` finding for `{sig}`: secondary location `{}` is not a constraint statement mentioning `{sig}`",
                            c.src.get(s2.0..s2.1).unwrap_or("?")
                        ))
                        .sig("C08:bogus-secondary")
                        .rendered(c.src.clone()));
                    }
                }
            }
        }
    }
    Ok(())
}

pub fn replay(ctx: &Ctx, check: &str, tape: &[u8]) -> Verdict {
    let stats = Stats::new();
    let rec = Rec::new(&stats, false);
    match check {
        "signal_assignments" => case(ctx, tape, &rec),
        _ => Err(Bad::new(format!("unknown check {check}"))),
    }
}

/// repro = "<file> <count>": number of CS0005/CS0013 findings the file must yield.
fn replay_known(_ctx: &Ctx, k: &Known) -> Verdict {
    let mut it = k.repro.split_whitespace();
    let file = PathBuf::from(it.next().unwrap_or(""));
    let count: usize = it.next().and_then(|s| s.parse().ok()).unwrap_or(1);
    let r = reference(&[file.clone()], &[], &program_structure::constants::Curve::Bn254).map_err(|p| Bad::new(format!("panic: {p}")).sig(k.signature.clone()))?;
    let n = r.reports.iter().filter(|r| matches!(r.id().as_str(), "CS0005" | "CS0013")).count();
    if n != count {
        return Err(Bad::new(format!("{}: {n} `<--` findings, expected {count}", file.display())).sig(k.signature.clone()));
    }
    Ok(())
}

pub fn run(ctx: &Ctx) -> i32 {
    let start = Instant::now();
    let stats = Stats::new();
    let mut outcome = Outcome::new();
    let known = load_known("C08");
    for k in &known {
        let r = replay_known(ctx, k);
        outcome.known_replay(k, r);
    }
    let fails = run_tapes_opts(ctx, "signal_assignments", ctx.tier.pick(20_000, 300_000), 1500, 500, &stats, |tape, rec| case(ctx, tape, rec));
    outcome.absorb(&known, fails);
    finish(
        ctx,
        &stats,
        &outcome,
        EvidenceSpec {
            level: "exploration",
            rule: "templates generated by a dedicated profile: `<--` and `-->` on scalars, on array elements indexed by loop variables or literals, on component inputs, as declaration initialisers, in tuple assignments with `_`, in tuple declarations, and as named inputs of anonymous components (one or two, either order), at top level and nested in `for` loops and if/else branches, interleaved with `===` and `<==` statements that mention assigned signals; custom templates as negative cases. The file is parsed with parse_files (so tuples and anonymous components are desugared), every definition is lifted and all passes run (in-process collector). By construction the generator knows the element-wise `<--` assignments and their extents; CS0005/CS0013 findings must be in bijection with them by primary-label extent (statement; declaration; tuple element variable; anonymous call), name the assigned signal, and for CS0005 the secondary labels must contain every generated constraint statement that mentions the signal with the identical access and only constraint statements mentioning the signal's name; no such finding for custom templates. Non-trivial = template with >= 3 `<--` assignments of which >= 1 inside a loop or branch; distinct by source hash.",
            assumptions: vec!["either `signal assignment` (CS0005) or `unnecessary signal assignment` (CS0013) is accepted for each `<--`; which of the two is C07's business".into()],
            extra: json!({}),
        },
        start,
    )
}
