//! C09 — `value never read` / `no side effect` claims about variables are true.

use super::c06::lift_ssa;
use super::semcase::*;
use crate::engine::*;
use crate::gen::ast::*;
use crate::interp::{Inputs, Perturb};
use num_bigint_dig::BigUint;
use serde_json::json;
use std::time::Instant;

#[derive(Clone, Debug)]
enum Target {
    Stmt(Id, String),
    Param(usize),
}

/// Locate the assignment (or parameter) a CS0006/7/8 finding talks about.
fn locate(c: &SemCase, r: &program_structure::report::Report) -> Option<Target> {
    let l = r.primary().first()?;
    let name_full = r.message().split('`').nth(1)?.to_string();
    let name = name_full.split(['[', '.']).next().unwrap_or(&name_full).to_string();
    let sp = trim_end(&c.blank, l.range.start, l.range.end);
    let span = |id: Id| c.r.span(id).map(|(a, b)| trim_end(&c.blank, a, b));
    if r.message().contains("parameter") {
        if span(c.def.params_id) == Some(sp) {
            return c.def.params.iter().position(|p| *p == name).map(Target::Param);
        }
        return None;
    }
    let mut found = None;
    c.def.body.walk(&mut |s| match s {
        Stmt::Decl { id, kind: DeclKind::Var, syms, .. } => {
            if span(*id) == Some(sp) {
                if let Some(sym) = syms.iter().find(|x| x.name == name && x.init.is_some()) {
                    found = Some(Target::Stmt(sym.sub_id, name.clone()));
                }
            }
        }
        Stmt::Assign { id, lhs: Expr::Var { name: n, .. }, op: AssignOp::Var, .. } => {
            if span(*id) == Some(sp) && *n == name {
                found = Some(Target::Stmt(*id, name.clone()));
            }
        }
        Stmt::Compound { id, name: n, .. } | Stmt::IncDec { id, name: n, .. } => {
            if span(*id) == Some(sp) && *n == name {
                found = Some(Target::Stmt(*id, name.clone()));
            }
        }
        _ => {}
    });
    found
}

fn is_local_or_param(c: &SemCase, name: &str) -> bool {
    // signals are outside the claim checked here
    !signal_decls(&c.def).iter().any(|(n, _, _)| n == name)
}

fn case(tape: &[u8], rec: &Rec) -> Verdict {
    let mut t = Tape::new(tape);
    let late = t.chance(70);
    let c = gen_sem_case(&mut t, SemOpts { c09_domain: true, late_facts: late, ..Default::default() });
    let ssa = lift_ssa(&c)?;
    let reports = match run_passes(&ssa) {
        Ok(r) => r,
        Err(p) => return Err(Bad::new(format!("an analysis pass panicked: {p}")).sig("SEM:pass-panic").rendered(c.r.src.clone())),
    };
    rec.class("programs");
    let findings: Vec<_> = reports.iter().filter(|r| matches!(r.id().as_str(), "CS0006" | "CS0007" | "CS0008")).collect();
    if findings.is_empty() {
        return Ok(());
    }
    let inputs: Vec<Inputs> = (0..8).map(|_| gen_inputs(&mut t, &c)).collect();
    let base: Vec<_> = inputs.iter().map(|i| run_trace(&c, i)).collect();
    for r in findings {
        let name_full = r.message().split('`').nth(1).unwrap_or("").to_string();
        let name = name_full.split(['[', '.']).next().unwrap_or("").to_string();
        if !is_local_or_param(&c, &name) {
            rec.class("finding_about_signal_skipped");
            continue;
        }
        let Some(target) = locate(&c, r) else {
            rec.class("finding_not_located_skipped");
            continue;
        };
        rec.class(&format!("findings:{}", r.id()));
        let mut executed = false;
        for (vi, inp) in inputs.iter().enumerate() {
            if base[vi].stopped.is_some() {
                rec.class("pairs_discarded_runtime_error");
                continue;
            }
            if let Target::Stmt(id, _) = &target {
                // sub_id / stmt id executed?  (declarations record their initialiser under sub_id in stmt_vals)
                if !base[vi].stmt_vals.contains_key(id) {
                    continue;
                }
            }
            executed = true;
            for _ in 0..3 {
                let replacement = {
                    let mut bytes = [0u8; 33];
                    for b in bytes.iter_mut() {
                        *b = t.byte();
                    }
                    match t.below(4) {
                        0 => BigUint::from(0u32),
                        1 => BigUint::from(1u32),
                        2 => &c.prime - BigUint::from(1u32),
                        _ => BigUint::from_bytes_le(&bytes) % &c.prime,
                    }
                };
                let perturb = match &target {
                    Target::Stmt(id, var) => Perturb { stmt: Some(*id), var: Some(var.clone()), param: None, replacement: replacement.clone() },
                    Target::Param(i) => Perturb { stmt: None, var: None, param: Some(*i), replacement: replacement.clone() },
                };
                let inp2 = Inputs {
                    prime: inp.prime.clone(),
                    params: inp.params.clone(),
                    signals: inp.signals.clone(),
                    ports: inp.ports.clone(),
                    fuel: inp.fuel,
                    perturb,
                    signals_fixed: false,
                };
                let pert = run_trace(&c, &inp2);
                if pert.stopped.is_some() {
                    rec.class("pairs_discarded_runtime_error");
                    continue;
                }
                rec.class("perturbed_runs_compared");
                if pert.effects != base[vi].effects {
                    // first difference
                    let k = pert.effects.iter().zip(base[vi].effects.iter()).position(|(a, b)| a != b).unwrap_or(pert.effects.len().min(base[vi].effects.len()));
                    return Err(Bad::new(format!(
                        "[{}] `{}` (label `{}`): replacing the flagged value by {replacement} changes an effect: baseline {:?}, perturbed {:?} (effect #{k}); parameters {:?}",
                        r.id(),
                        r.message(),
                        c.r.src.get(r.primary()[0].range.start..r.primary()[0].range.end).unwrap_or("?"),
                        base[vi].effects.get(k),
                        pert.effects.get(k),
                        inp.params.iter().map(|p| p.to_string()).collect::<Vec<_>>()
                    ))
                    .sig(format!("C09:false-claim:{}", r.id()))
                    .rendered(format!("prime {}\n{}\n--- SSA CFG ---\n{:?}", c.prime_name, c.r.src, ssa)));
                }
            }
        }
        if executed {
            rec.nontrivial(fnv(format!("{}/{:?}", c.r.src, target).as_bytes()));
        }
    }
    rec.sample(|| json!({"prime": c.prime_name, "definition": c.r.src, "findings": reports.iter().filter(|r| matches!(r.id().as_str(), "CS0006" | "CS0007" | "CS0008")).map(|r| r.message().clone()).collect::<Vec<_>>()}));
    Ok(())
}

pub fn replay(_ctx: &Ctx, check: &str, tape: &[u8]) -> Verdict {
    let stats = Stats::new();
    let rec = Rec::new(&stats, false);
    match check {
        "side_effect_claims" => case(tape, &rec),
        _ => Err(Bad::new(format!("unknown check {check}"))),
    }
}

pub fn run(ctx: &Ctx) -> i32 {
    let start = Instant::now();
    let stats = Stats::new();
    let mut outcome = Outcome::new();
    let known = load_known("C09");
    let fails = run_tapes_opts(ctx, "side_effect_claims", ctx.tier.pick(12_000, 250_000), 4000, 250, &stats, case);
    outcome.absorb(&known, fails);
    finish(
        ctx,
        &stats,
        &outcome,
        EvidenceSpec {
            level: "exploration",
            rule: "executable functions and templates built from locals, parameters, input/output signals, loops, branches, asserts and returns (no components, no intermediate signals; all operators, shadowing, arrays, helper functions) are lifted, converted to SSA and analysed by all passes. For every CS0006/CS0007/CS0008 finding about a local or parameter the flagged assignment is identified by (label extent, variable name) — or the parameter by the parameter-list label and its name — and the reference interpreter is re-run on 8 valuations x 3 replacement values (0, 1, p-1, random) with the value stored by every dynamic instance of that assignment (or the parameter's initial value) replaced; the effect traces of baseline and perturbed run must be identical: values assigned to input/output signal elements, values of constraints mentioning a signal, asserted values, return value, array dimensions, and the sequence of branch/loop decisions. Pairs where either run stops with a runtime error are discarded and counted. Non-trivial = finding whose flagged statement was executed in at least one valuation; distinct by (source, target).",
            assumptions: vec![
                "metamorphic, one-sided: a true claim can never fail; a false one is caught only if some generated valuation and replacement value makes the difference visible".into(),
            ],
            extra: json!({}),
        },
        start,
    )
}
