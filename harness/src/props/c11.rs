//! C11 — curve-dependent checks follow the documented table and thresholds exactly.

use super::c03::{crashed, run_bin};
use crate::binrun::{self, RunOpts};
use crate::engine::*;
use crate::field;
use num_bigint_dig::BigUint;
use num_traits::One;
use serde_json::json;
use std::collections::BTreeSet;
use std::path::PathBuf;
use std::time::Instant;

/// The documented table (doc/analysis_passes.md), names as Circomlib spells them.
/// (name, marked for Goldilocks, marked for BLS12-381)
const TABLE: [(&str, bool, bool); 26] = [
    ("AliasCheck", true, true),
    ("BabyPbk", true, false),
    ("Bits2Num_strict", true, true),
    ("Num2Bits_strict", true, true),
    ("CompConstant", true, true),
    ("EdDSAVerifier", true, true),
    ("EdDSAMiMCVerifier", true, true),
    ("EdDSAMiMCSpongeVerifier", true, true),
    ("EdDSAPoseidonVerifier", true, true),
    ("EscalarMulAny", true, false),
    ("MiMC7", true, false),
    ("MultiMiMC7", true, false),
    ("MiMCFeistel", true, false),
    ("MiMCSponge", true, false),
    ("Pedersen", true, false),
    ("Bits2Point_Strict", true, true),
    ("Point2Bits_Strict", true, true),
    ("PoseidonEx", true, false),
    ("Poseidon", true, false),
    ("Sign", true, true),
    ("SMTHash1", true, false),
    ("SMTHash2", true, false),
    ("SMTProcessor", true, true),
    ("SMTProcessorLevel", true, false),
    ("SMTVerifier", true, true),
    ("SMTVerifierLevel", true, false),
];

/// Names that are not in the table (never flagged).  The doc's lower-case spelling of
/// `Bits2Point_strict` / `Point2Bits_strict` is ambiguous and deliberately left out of both sets.
const NEAR_MISSES: [&str; 24] = [
    "aliascheck", "ALIASCHECK", "AliasCheck2", "MyAliasCheck", "Aliascheck", "babyPbk", "BabyPbk_", "Num2Bits", "Bits2Num",
    "Num2bits_strict", "num2bits_strict", "Num2Bits_Strict", "Bits2Num_Strict", "CompConstants", "EdDSA", "MiMC", "MiMC5",
    "Poseidon2", "poseidon", "PoseidonEx2", "sign", "Signs", "SMTHash3", "SMTVerifierLevels",
];

const CURVES: [&str; 3] = ["BN254", "BLS12_381", "GOLDILOCKS"];

fn marked(name: &str, curve: &str) -> bool {
    TABLE.iter().any(|(n, g, b)| *n == name && match curve {
        "GOLDILOCKS" => *g,
        "BLS12_381" => *b,
        _ => false,
    })
}

fn prime_of(curve: &str) -> BigUint {
    match curve {
        "GOLDILOCKS" => field::goldilocks(),
        "BLS12_381" => field::bls12_381(),
        _ => field::bn254(),
    }
}

/// Is every k-bit value non-negative in the field: 2^k - 1 <= floor(p/2)?
fn range_check_ok(k: u64, curve: &str) -> bool {
    let p = prime_of(curve);
    if k > 400 {
        return false;
    }
    (BigUint::one() << k as usize) - BigUint::one() <= (p >> 1usize)
}

fn spelling(t: &mut Tape, curve: &str) -> String {
    curve.chars().map(|c| if t.chance(128) { c.to_ascii_lowercase() } else { c.to_ascii_uppercase() }).collect()
}

struct Line {
    text: String,
    /// expected ids at this line: (id, required?) — required: Some(true) must, Some(false) must not, None either
    expect: Vec<(&'static str, Option<bool>)>,
}

fn scratch(ctx: &Ctx, tag: &str) -> PathBuf {
    let d = ctx.scratch.join(format!("{tag}-{:?}", std::thread::current().id()).replace(['(', ')'], ""));
    let _ = std::fs::remove_dir_all(&d);
    let _ = std::fs::create_dir_all(&d);
    d
}

/// Build the file, run the binary under `curve_arg`, compare per line.
fn run_lines(ctx: &Ctx, header: &str, lines: &[Line], footer: &str, curve: &str, curve_arg: &str, tag: &str) -> Verdict {
    let mut src = String::from(header);
    let first_line = src.matches('\n').count() + 1;
    for l in lines {
        src.push_str(&l.text);
        src.push('\n');
    }
    src.push_str(footer);
    let dir = scratch(ctx, tag);
    let path = dir.join("c.circom");
    std::fs::write(&path, &src).map_err(|e| Bad::new(format!("INFRA write: {e}")))?;
    std::fs::write(dir.join("zzstubs.circom"), stubs()).map_err(|e| Bad::new(format!("INFRA write: {e}")))?;
    let mut o = RunOpts::files(&[&path]).verbose().level("info");
    o.curve = Some(curve_arg.to_string());
    o.cpu_secs = 120;
    let b = run_bin(ctx, &o);
    let _ = std::fs::remove_dir_all(&dir);
    let b = b?;
    let render = || format!("curve {curve} (spelled {curve_arg})\n{src}");
    if b.out.status == Some(2) {
        return Err(Bad::new(format!("the curve name `{curve_arg}` was rejected: {}", b.out.stderr.lines().next().unwrap_or(""))).sig("C11:curve-name-rejected").rendered(render()));
    }
    if crashed(&b.out) {
        return Err(Bad::new(format!("run crashed: {:?} {}", b.out.status, b.out.stderr.lines().next().unwrap_or(""))).sig("C11:crash").rendered(render()));
    }
    if b.parsed.diags.iter().any(|d| d.severity == "error") {
        return Err(Bad::new(format!("the generated file was rejected: {:?}", b.parsed.diags.iter().find(|d| d.severity == "error"))).sig("C11:rejected").rendered(render()));
    }
    // ids per line
    for (i, l) in lines.iter().enumerate() {
        // a logical line may span several physical lines
        let start = first_line + lines[..i].iter().map(|x| x.text.matches('\n').count() + 1).sum::<usize>();
        let end = start + l.text.matches('\n').count();
        for (id, req) in &l.expect {
            let n = b.parsed.diags.iter().filter(|d| d.id.as_deref() == Some(*id) && d.loc.as_ref().map(|x| x.1 >= start && x.1 <= end).unwrap_or(false)).count();
            match req {
                Some(true) if n != 1 => {
                    return Err(Bad::new(format!("under {curve}: `{}` must be flagged with {id} exactly once, got {n}", l.text.trim())).sig(format!("C11:missing:{id}")).rendered(render()));
                }
                Some(false) if n != 0 => {
                    return Err(Bad::new(format!("under {curve}: `{}` must not be flagged with {id}, got {n}", l.text.trim())).sig(format!("C11:spurious:{id}")).rendered(render()));
                }
                _ => {}
            }
        }
    }
    Ok(())
}

/// One-input, one-output stubs for every name used by the anonymous-component forms (the desugarer
/// needs a definition; the passes only look at the name and the arguments of the instantiation).
fn stubs() -> String {
    let mut names: Vec<&str> = TABLE.iter().map(|x| x.0).chain(NEAR_MISSES.iter().copied()).chain(["Num2Bits", "Bits2Num"]).collect();
    names.sort();
    names.dedup();
    let mut s = String::from("pragma circom 2.0.0;\n");
    for n in names {
        s.push_str(&format!("template {n}(k) {{ signal input in; signal output out; out <== in; }}\n"));
    }
    s
}

const HEADER: &str = "pragma circom 2.0.0;\ninclude \"zzstubs.circom\";\nfunction zf(x) {\n    return x + 250;\n}\ntemplate Top(n) {\n    signal input a;\n    signal input b;\n";

/// The ways an instantiation can be written: declaration with initialiser, declaration then
/// assignment, element of a component array, element assigned in a loop.
fn inst(form: usize, var: &str, call: &str) -> String {
    if form >= 4 {
        // anonymous component (the stub definitions come from an included, unnamed file), at top level
        // or as an element assigned in a loop
        return if form == 4 {
            format!("    signal zq{var};\n    zq{var} <== {call}(a);")
        } else {
            format!("    signal zq{var}[2];\n    for (var j{var} = 0; j{var} < 2; j{var}++) {{\n        zq{var}[j{var}] <== {call}(a);\n    }}")
        };
    }
    match form % 4 {
        0 => format!("    component {var} = {call};"),
        1 => format!("    component {var};\n    {var} = {call};"),
        2 => format!("    component {var}[2];\n    {var}[1] = {call};"),
        _ => format!("    component {var}[2];\n    for (var j{var} = 0; j{var} < 2; j{var}++) {{\n        {var}[j{var}] = {call};\n    }}"),
    }
}

fn name_line(i: usize, name: &str, curve: &str) -> Line {
    name_line_as(i, name, curve, 0)
}

fn name_line_as(i: usize, name: &str, curve: &str, form: usize) -> Line {
    Line { text: inst(form, &format!("c{i}"), &format!("{name}(2)")), expect: vec![("CS0016", Some(marked(name, curve)))] }
}

#[derive(Clone, Copy)]
enum SizeForm {
    Literal,
    Arithmetic,
    ShiftExpr,
    Variable,
    Parameter,
    FunctionCall,
    /// `c ? n : other` with a constant numeric condition (1 or 0 held by a variable): the size is n
    TernaryTrue,
    TernaryFalse,
}

fn size_line(i: usize, template: &str, n: u64, form: SizeForm, curve: &str) -> Line {
    size_line_as(i, template, n, form, curve, 0)
}

fn size_line_as(i: usize, template: &str, n: u64, form: SizeForm, curve: &str, inst_form: usize) -> Line {
    let v = format!("s{i}");
    let (text, constant, value) = match form {
        SizeForm::Literal => (inst(inst_form, &v, &format!("{template}({n})")), true, Some(n)),
        SizeForm::Arithmetic => {
            let a = n / 2;
            (inst(inst_form, &v, &format!("{template}({a} + {})", n - a)), true, Some(n))
        }
        SizeForm::ShiftExpr => {
            // (n << 1) >> 1
            (inst(inst_form, &v, &format!("{template}(({n} << 1) >> 1)")), true, Some(n))
        }
        SizeForm::Variable => (format!("    var zv{i} = {n};\n{}", inst(inst_form, &v, &format!("{template}(zv{i})"))), true, Some(n)),
        SizeForm::Parameter => (inst(inst_form, &v, &format!("{template}(n)")), false, None),
        SizeForm::FunctionCall => (inst(inst_form, &v, &format!("{template}(zf({n}))")), false, Some(n + 250)),
        SizeForm::TernaryTrue | SizeForm::TernaryFalse => {
            // the branch not taken lies on the other side of the 254 boundary
            let other = if n >= 254 { 8 } else { 300 };
            let (c, a, b) = if matches!(form, SizeForm::TernaryTrue) { (1, n, other) } else { (0, other, n) };
            (format!("    var zw{i} = {c};\n{}", inst(inst_form, &v, &format!("{template}(zw{i} ? {a} : {b})"))), true, Some(n))
        }
    };
    let expect = if curve == "BN254" {
        match (constant, value) {
            // compile-time constant by literal arithmetic: flagged iff not < 254
            (true, Some(v)) => Some(v >= 254),
            // not a compile-time constant for the tool: must be flagged when the run-time value is >= 254, either otherwise
            (false, Some(v)) if v >= 254 => Some(true),
            (false, Some(_)) => None,
            // parameter: never provable
            (false, None) => Some(true),
            _ => None,
        }
    } else {
        Some(false)
    };
    Line { text, expect: vec![("CS0010", expect)] }
}

/// LessThan whose first input is range-checked by Num2Bits(k) (or not at all).
fn less_than_lines(i: usize, k: Option<u64>, constant: bool, curve: &str) -> Line {
    less_than_lines_shadowed(i, k, constant, curve, false)
}

/// `shadowed`: a nested block declares a second component of the same name, a `Num2Bits` of a size on the
/// other side of the curve's threshold, fed by another signal; it says nothing about the first one's input.
fn less_than_lines_shadowed(i: usize, k: Option<u64>, constant: bool, curve: &str, shadowed: bool) -> Line {
    less_than_lines_full(i, k, constant, curve, shadowed, false)
}

fn less_than_lines_full(i: usize, k: Option<u64>, constant: bool, curve: &str, shadowed: bool, second: bool) -> Line {
    let mut text = format!("    signal input q{i};\n");
    let mut ok = false;
    if let Some(k) = k {
        if constant {
            text.push_str(&format!("    component nb{i} = Num2Bits({k});\n    nb{i}.in <== q{i};\n"));
            ok = range_check_ok(k, curve);
            if second {
                // a second range check of the same signal, of a size on the other side of the threshold:
                // the input counts as checked if either of them is tight enough
                let other = if ok { 300 } else { 8 };
                let (first, then) = if i % 2 == 0 { (k, other) } else { (other, k) };
                text = format!("    signal input q{i};\n    component nb{i} = Num2Bits({first});\n    nb{i}.in <== q{i};\n    component nc{i} = Num2Bits({then});\n    nc{i}.in <== q{i};\n");
                ok = true;
            }
            if shadowed {
                let other = if ok { 300 } else { 8 };
                text.push_str(&format!(
                    "    signal input r{i};\n    if (n > 1) {{\n        component nb{i} = Num2Bits({other});\n        nb{i}.in <== r{i};\n    }}\n"
                ));
            }
        } else {
            text.push_str(&format!("    component nb{i} = Num2Bits(n);\n    nb{i}.in <== q{i};\n"));
        }
    }
    text.push_str(&format!("    component lt{i} = LessThan(8);\n    lt{i}.in[0] <== q{i};\n    lt{i}.in[1] <== q{i};"));
    Line { text, expect: vec![("CS0014", Some(!ok))] }
}

// ---------------------------------------------------------------------------
// Exhaustive part (fixed enumeration, independent of the seed)
// ---------------------------------------------------------------------------

fn exhaustive(ctx: &Ctx, stats: &Stats) -> Vec<Failure> {
    #[derive(Clone)]
    struct Job {
        curve: &'static str,
        kind: &'static str,
        lo: u64,
        hi: u64,
    }
    let mut jobs = Vec::new();
    let chunk = ctx.tier.pick(301, 301) as u64;
    for curve in CURVES {
        jobs.push(Job { curve, kind: "table", lo: 0, hi: 0 });
        for kind in ["num2bits-literal", "bits2num-literal", "num2bits-arith", "num2bits-shift", "num2bits-var", "num2bits-fn", "lessthan"] {
            let step = if ctx.tier == Tier::Quick && !kind.ends_with("literal") && kind != "lessthan" { 3 } else { 1 };
            let _ = step;
            let mut lo = 0;
            while lo <= 300 {
                jobs.push(Job { curve, kind, lo, hi: (lo + chunk - 1).min(300) });
                lo += chunk;
            }
        }
    }
    let fails = run_items(ctx, &jobs, |_, job| {
        let mut lines = Vec::new();
        match job.kind {
            "table" => {
                for (i, (name, _, _)) in TABLE.iter().enumerate() {
                    lines.push(name_line(i, name, job.curve));
                    for f in 1..6 {
                        lines.push(name_line_as(1000 * f + i, name, job.curve, f));
                    }
                }
                for (i, name) in NEAR_MISSES.iter().enumerate() {
                    lines.push(name_line(100 + i, name, job.curve));
                }
            }
            "lessthan" => {
                for k in job.lo..=job.hi {
                    lines.push(less_than_lines(k as usize, Some(k), true, job.curve));
                }
                lines.push(less_than_lines(1000, None, true, job.curve));
                lines.push(less_than_lines(1001, Some(8), false, job.curve));
            }
            kind => {
                let (template, form) = match kind {
                    "num2bits-literal" => ("Num2Bits", SizeForm::Literal),
                    "bits2num-literal" => ("Bits2Num", SizeForm::Literal),
                    "num2bits-arith" => ("Num2Bits", SizeForm::Arithmetic),
                    "num2bits-shift" => ("Bits2Num", SizeForm::ShiftExpr),
                    "num2bits-var" => ("Num2Bits", SizeForm::Variable),
                    _ => ("Num2Bits", SizeForm::FunctionCall),
                };
                let quick_sparse = ctx.tier == Tier::Quick && !matches!(kind, "num2bits-literal" | "bits2num-literal");
                for n in job.lo..=job.hi {
                    if quick_sparse && !(n % 7 == 0 || (245..=262).contains(&n) || n <= 3) {
                        continue;
                    }
                    lines.push(size_line(n as usize, template, n, form, job.curve));
                    // the other ways of writing the instantiation: all of them around the boundary, one elsewhere
                    for f in 1..6usize {
                        if (250..=258).contains(&n) || n as usize % 5 + 1 == f {
                            lines.push(size_line_as(10_000 * f + n as usize, template, n, form, job.curve, f));
                        }
                    }
                }
                lines.push(size_line(2000, template, 0, SizeForm::Parameter, job.curve));
            }
        }
        stats.eval(lines.len() as u64);
        stats.class_n(&format!("exhaustive:{}", job.kind), lines.len() as u64);
        for l in &lines {
            stats.nontrivial(fnv(format!("{}/{}", job.curve, l.text).as_bytes()));
        }
        run_lines(ctx, HEADER, &lines, "}\n", job.curve, job.curve, &format!("c11x-{}", job.kind))?;
        if matches!(job.kind, "table" | "num2bits-literal" | "bits2num-literal" | "lessthan") {
            // the same instantiations inside `template parallel Top` of a file with a main component
            // (programs with a main component are assembled by another code path)
            let header = HEADER.replace("template Top(n)", "template parallel Top(n)");
            stats.class_n("exhaustive:parallel_template_with_main_component", lines.len() as u64);
            run_lines(ctx, &header, &lines, "}\ncomponent main = Top(3);\n", job.curve, job.curve, &format!("c11y-{}", job.kind))?;
        }
        Ok(())
    });
    fails
        .into_iter()
        .map(|(i, b)| Failure {
            check: "exhaustive".into(),
            tape: format!("{} {} {} {}", jobs[i].curve, jobs[i].kind, jobs[i].lo, jobs[i].hi).into_bytes(),
            reason: b.reason,
            signature: b.signature,
            rendered: b.rendered,
        })
        .collect()
}

// ---------------------------------------------------------------------------
// Curve-name spellings
// ---------------------------------------------------------------------------

fn curve_names(ctx: &Ctx, stats: &Stats) -> Vec<Failure> {
    let dir = scratch(ctx, "c11n");
    let path = dir.join("c.circom");
    let _ = std::fs::write(&path, "pragma circom 2.0.0;\ntemplate T() { signal input a; signal output b; b <== a; }\n");
    let mut out = Vec::new();
    // all case variants of the three names are accepted
    let mut accepted: Vec<String> = Vec::new();
    for name in CURVES {
        let letters: Vec<usize> = name.char_indices().filter(|(_, c)| c.is_ascii_alphabetic()).map(|(i, _)| i).collect();
        let total = 1usize << letters.len();
        let stride = if total > 256 { total / 128 } else { 1 };
        let mut m = 0;
        while m < total {
            let mut s: Vec<char> = name.chars().collect();
            for (bit, idx) in letters.iter().enumerate() {
                if m >> bit & 1 == 1 {
                    s[*idx] = s[*idx].to_ascii_lowercase();
                }
            }
            accepted.push(s.into_iter().collect());
            m += stride;
        }
        accepted.push(name.to_ascii_lowercase());
    }
    let rejected = ["BN128", "bn-254", "BN254 ", "bls12-381", "bls12381", "BLS12_381_", "goldilock", "GOLDILOCKS64", "", "secp256k1", "254", "bn_254", "ＢＮ254"];
    let res_ok = run_items(ctx, &accepted, |_, name| {
        stats.eval(1);
        stats.class("curve_spellings_accepted_checked");
        let mut o = RunOpts::files(&[&path]);
        o.curve = Some(name.clone());
        let b = binrun::run(&ctx.repo_bin, &o).map_err(|e| Bad::new(format!("INFRA {e}")))?;
        if !matches!(b.status, Some(0) | Some(1)) {
            return Err(Bad::new(format!("the curve spelling `{name}` is rejected (exit {:?})", b.status)).sig("C11:curve-name-rejected"));
        }
        Ok(())
    });
    let mut rej: Vec<String> = rejected.iter().map(|s| s.to_string()).collect();
    // every single-character edit (insertion, deletion, replacement over a small ASCII alphabet) of the
    // three names, unless the result is again a curve name up to case
    for name in CURVES {
        let chars: Vec<char> = name.chars().collect();
        let alphabet = ['_', '-', '.', ' ', '0', '1', 'a', 'Z'];
        let mut push = |v: Vec<char>| {
            let cand: String = v.into_iter().collect();
            if !CURVES.iter().any(|c| c.eq_ignore_ascii_case(&cand)) && !cand.starts_with('-') {
                rej.push(cand);
            }
        };
        for i in 0..=chars.len() {
            for a in alphabet {
                let mut v = chars.clone();
                v.insert(i, a);
                push(v);
            }
        }
        for i in 0..chars.len() {
            let mut v = chars.clone();
            v.remove(i);
            push(v);
            for a in alphabet {
                if !a.eq_ignore_ascii_case(&chars[i]) {
                    let mut v = chars.clone();
                    v[i] = a;
                    push(v);
                }
            }
        }
    }
    rej.sort();
    rej.dedup();
    let res_bad = run_items(ctx, &rej, |_, name| {
        stats.eval(1);
        stats.class("curve_spellings_rejected_checked");
        let mut o = RunOpts::files(&[&path]);
        o.curve = Some(name.clone());
        let b = binrun::run(&ctx.repo_bin, &o).map_err(|e| Bad::new(format!("INFRA {e}")))?;
        if b.status != Some(2) {
            return Err(Bad::new(format!("the curve name `{name}` is accepted (exit {:?}); only BN254, BLS12_381 and GOLDILOCKS are curve names", b.status)).sig("C11:curve-name-accepted"));
        }
        Ok(())
    });
    for (i, b) in res_ok {
        out.push(Failure { check: "curve_names".into(), tape: accepted[i].clone().into_bytes(), reason: b.reason, signature: b.signature, rendered: String::new() });
    }
    for (i, b) in res_bad {
        out.push(Failure { check: "curve_names".into(), tape: rej[i].clone().into_bytes(), reason: b.reason, signature: b.signature, rendered: String::new() });
    }
    let _ = std::fs::remove_dir_all(&dir);
    out
}

// ---------------------------------------------------------------------------
// Generated part: random mixes, surrounding program shape, random spelling
// ---------------------------------------------------------------------------

fn random_parts(tape: &[u8], rec: &Rec) -> Result<(String, Vec<Line>, &'static str, &'static str, String), Bad> {
    let mut t = Tape::new(tape);
    let curve = CURVES[t.below(3)];
    let arg = spelling(&mut t, curve);
    let n = 2 + t.below(10);
    let mut lines = Vec::new();
    for i in 0..n {
        let l = match t.below(6) {
            0 | 1 => {
                let name = if t.chance(150) { TABLE[t.below(TABLE.len())].0 } else { NEAR_MISSES[t.below(NEAR_MISSES.len())] };
                name_line_as(i, name, curve, t.below(6))
            }
            2 | 3 => {
                let size = match t.below(4) {
                    0 => 250 + t.below(10) as u64,
                    1 => t.below(301) as u64,
                    2 => [0u64, 1, 253, 254, 255, 256, 300][t.below(7)],
                    _ => t.below(64) as u64,
                };
                let form = [SizeForm::Literal, SizeForm::Arithmetic, SizeForm::ShiftExpr, SizeForm::Variable, SizeForm::Parameter, SizeForm::FunctionCall, SizeForm::TernaryTrue, SizeForm::TernaryFalse][t.below(8)];
                size_line_as(i, if t.chance(128) { "Num2Bits" } else { "Bits2Num" }, size, form, curve, t.below(6))
            }
            _ => {
                let k = match t.below(4) {
                    0 => None,
                    1 => Some([61u64, 62, 63, 64, 251, 252, 253, 254, 255][t.below(9)]),
                    _ => Some(t.below(301) as u64),
                };
                let constant = t.chance(220);
                let shadowed = t.chance(64);
                if shadowed && constant && k.is_some() {
                    rec.class("less_than_input_checked_by_a_component_whose_name_is_shadowed");
                }
                let second = !shadowed && t.chance(64);
                if second && constant && k.is_some() {
                    rec.class("less_than_input_checked_by_two_num2bits_of_different_sizes");
                }
                less_than_lines_full(i, k, constant, curve, shadowed, second)
            }
        };
        rec.nontrivial(fnv(format!("{curve}/{}", l.text).as_bytes()));
        lines.push(l);
    }
    rec.class(&format!("random:{curve}"));
    // surrounding shape: unrelated statements before/after
    let mut header = String::from(HEADER);
    if t.chance(128) {
        header.push_str("    var zz = 0;\n    for (var zi = 0; zi < 3; zi++) {\n        zz += zi;\n    }\n");
    }
    let with_main = t.chance(100);
    if t.chance(80) {
        header = header.replace("template Top(n)", "template parallel Top(n)");
    }
    let footer = match (t.chance(128), with_main) {
        (true, false) => "    signal output zo;\n    zo <== a * b;\n}\n",
        (false, false) => "}\n",
        (true, true) => "    signal output zo;\n    zo <== a * b;\n}\ncomponent main = Top(3);\n",
        (false, true) => "}\ncomponent main = Top(3);\n",
    };
    rec.sample(|| json!({"curve": curve, "curve_argument": arg, "lines": lines.iter().map(|l| l.text.clone()).collect::<Vec<_>>()}));
    Ok((header, lines, footer, curve, arg))
}

fn random_case(ctx: &Ctx, tape: &[u8], rec: &Rec) -> Verdict {
    let (header, lines, footer, curve, arg) = random_parts(tape, rec)?;
    run_lines(ctx, &header, &lines, footer, curve, &arg, "c11r")
}

/// The program of a random case as text (main file, included stub file, curve argument): C17 runs it
/// repeatedly (range checks, comparisons and marked templates fill the hash maps of the curve-dependent passes).
pub fn random_source(tape: &[u8], rec: &Rec) -> Result<(String, String, String), Bad> {
    let (header, lines, footer, _, arg) = random_parts(tape, rec)?;
    let mut src = header;
    for l in &lines {
        src.push_str(&l.text);
        src.push('\n');
    }
    src.push_str(footer);
    Ok((src, stubs(), arg))
}

pub fn replay(ctx: &Ctx, check: &str, tape: &[u8]) -> Verdict {
    let stats = Stats::new();
    let rec = Rec::new(&stats, false);
    match check {
        "random_mix" => random_case(ctx, tape, &rec),
        "exhaustive" | "curve_names" => {
            // re-run the fixed enumeration
            let mut fails = exhaustive(ctx, &stats);
            fails.extend(curve_names(ctx, &stats));
            match fails.into_iter().next() {
                None => Ok(()),
                Some(f) => Err(Bad::new(f.reason).sig(f.signature).rendered(f.rendered)),
            }
        }
        _ => Err(Bad::new(format!("unknown check {check}"))),
    }
}

pub fn run(ctx: &Ctx) -> i32 {
    let start = Instant::now();
    let stats = Stats::new();
    let mut outcome = Outcome::new();
    let known = load_known("C11");
    let _ = BTreeSet::<u8>::new();
    let fails = exhaustive(ctx, &stats);
    outcome.absorb(&known, fails);
    let fails = curve_names(ctx, &stats);
    outcome.absorb(&known, fails);
    stats.sample(json!({"exhaustive": "26 table names + 24 near-miss names x 3 curves; Num2Bits/Bits2Num sizes 0..300 as literals (every size) and as literal arithmetic / shift expression / variable with literal initialiser / function call (every size in thorough, every 7th plus 245..262 in quick) x 3 curves; LessThan with Num2Bits(k), k = 0..300, x 3 curves"}));
    let fails = run_tapes_opts(ctx, "random_mix", ctx.tier.pick(1_500, 30_000), 200, 200, &stats, |tape, rec| random_case(ctx, tape, rec));
    outcome.absorb(&known, fails);
    finish(
        ctx,
        &stats,
        &outcome,
        EvidenceSpec {
            level: "exploration",
            rule: "instantiations are generated one per source line inside a template and the real binary is run with --curve; findings are matched to instantiations by line. Oracle = the table transcribed from doc/analysis_passes.md with Circomlib's spelling (CS0016 exactly for marked (template, curve) pairs, never under BN254, never for 24 near-miss names), CS0010 under BN254 exactly when the size is not a literal-arithmetic constant < 254 (sizes that are constant only through a function call: must be flagged when the value is >= 254, either otherwise; parameters: always flagged) and never under the other curves, CS0014 for a LessThan input exactly when there is no Num2Bits(k) on it with constant k and 2^k - 1 <= floor(p/2) computed from the reference primes. Exhaustive part: see sample 0 (independent of the seed). Curve names: all (or 128 evenly spaced) case variants of the three names must be accepted, 13 other strings rejected with clap's status 2. Generated part: random mixes of 2-11 instantiations with random curve, random spelling of its name and random surrounding statements. One evaluation = one instantiation line (exhaustive part) or one generated file; distinct by (curve, line text).",
            assumptions: vec![
                "the doc's lower-case `Bits2Point_strict` / `Point2Bits_strict` are in neither set (ambiguous between documented and near miss)".into(),
                "`compile-time constant` = literals, literal arithmetic and variables with literal initialisers, as doc/analysis_passes.md describes constant propagation".into(),
            ],
            extra: json!({"exhaustive": true, "exhaustive_scope": "table x curves, sizes 0..300 (literal form) x curves, LessThan k = 0..300 x curves; other size forms are sampled in the quick tier"}),
        },
        start,
    )
}
