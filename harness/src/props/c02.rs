//! C02 — no silent failure: unanalysable input is never reported as clean (fault enumeration).

use super::c03::{crashed, run_bin, BinResult};
use crate::binrun::RunOpts;
use crate::engine::*;
use crate::gen::proj::{gen_project, GenProject, ProjOpts};
use serde_json::json;
use std::path::{Path, PathBuf};
use std::time::Instant;

#[derive(Clone, Debug)]
enum Fault {
    MissingPath,
    /// a path that does not exist and does not end in `.circom` is named instead of the target file
    MissingOther(usize),
    /// the named path is a symlink `*.circom` to a file without extension that holds a lexical error
    SymlinkToBlob,
    /// a block comment opened at the end of the file and never closed (text `usize` of UNTERMINATED, no final newline)
    Unterminated(usize),
    DanglingSymlink,
    InvalidUtf8,
    VersionTooNew(usize),
    VersionTooOld(usize),
    /// character no Circom token contains, inserted before token `usize`
    Lexical(usize, &'static str),
    /// unmatched closer inserted before token `usize`
    Unmatched(usize, &'static str),
    /// the `usize`-th `;` token removed
    DroppedSemicolon(usize),
    /// faulty statement inserted at the start of the body of definition `usize`
    Statement(usize, &'static str, &'static [&'static str]),
    DuplicateParam(usize),
    DuplicateDefinition(usize),
    /// `true`: the two entry points hold nothing but a pragma, an include and their main component
    TwoMainsTwoFiles(bool),
    SecondMainSameFile,
    /// the clean project plus `usize` named paths that do not exist
    MissingMany(usize),
}

impl Fault {
    fn class(&self) -> String {
        match self {
            Fault::MissingPath => "missing_path".into(),
            Fault::MissingOther(k) => format!("missing_path:{}", MISSING_NAMES[*k]),
            Fault::Unterminated(k) => format!("unterminated_comment:{}", UNTERMINATED[*k].replace('\n', "\\n")),
            Fault::DanglingSymlink => "dangling_symlink".into(),
            Fault::SymlinkToBlob => "symlink_to_file_without_extension".into(),
            Fault::InvalidUtf8 => "invalid_utf8".into(),
            Fault::VersionTooNew(k) => format!("version_too_new:{}", TOO_NEW[*k].join(".")),
            Fault::VersionTooOld(k) => format!("version_too_old:{}", TOO_OLD[*k].join(".")),
            Fault::Lexical(..) => "lexical_error".into(),
            Fault::Unmatched(..) => "unmatched_closer".into(),
            Fault::DroppedSemicolon(..) => "dropped_semicolon".into(),
            Fault::Statement(_, s, _) => format!("statement:{s}"),
            Fault::DuplicateParam(..) => "duplicate_parameter".into(),
            Fault::DuplicateDefinition(..) => "duplicate_definition".into(),
            Fault::TwoMainsTwoFiles(false) => "two_mains_two_files".into(),
            Fault::TwoMainsTwoFiles(true) => "two_mains_two_files_without_definitions".into(),
            Fault::MissingMany(n) => format!("missing_paths_{n}"),
            Fault::SecondMainSameFile => "second_main_same_file".into(),
        }
    }
    fn expected_ids(&self) -> &'static [&'static str] {
        match self {
            Fault::MissingPath | Fault::MissingOther(_) | Fault::MissingMany(_) | Fault::DanglingSymlink | Fault::InvalidUtf8 => &["P1000"],
            Fault::VersionTooNew(_) | Fault::VersionTooOld(_) => &["P1003"],
            Fault::Lexical(..) | Fault::Unmatched(..) | Fault::DroppedSemicolon(..) | Fault::SecondMainSameFile | Fault::Unterminated(_) | Fault::SymlinkToBlob => &["P1000"],
            Fault::Statement(_, _, ids) => ids,
            Fault::DuplicateParam(..) => &["CS0002"],
            Fault::DuplicateDefinition(..) => &["T2008"],
            Fault::TwoMainsTwoFiles(_) => &["P1002"],
        }
    }
    /// true when the expected diagnostic must be located in the faulted file
    fn located(&self) -> bool {
        !matches!(
            self,
            Fault::MissingPath | Fault::MissingOther(_) | Fault::DanglingSymlink | Fault::SymlinkToBlob | Fault::InvalidUtf8 | Fault::VersionTooNew(_) | Fault::VersionTooOld(_) | Fault::TwoMainsTwoFiles(_) | Fault::MissingMany(_)
        )
    }
}

/// Names of paths that do not exist (none ends in `.circom`; the last lies in a directory that does not exist).
const MISSING_NAMES: [&str; 5] = ["zzmissing", "zzmissing.txt", "zzmissing.circom.bak", "zzmissing.", "zznodir/zzfile"];

/// Block comments that are never closed, at the very end of the file (no final newline).
const UNTERMINATED: [&str; 6] = ["/*", "/**", "/* x *", "/* x\n *", "/*/", "/* x"];

/// Versions outside the supported range 2.0.0 ..= 2.1.4 (each component above / below in turn).
const TOO_NEW: [[&str; 3]; 7] = [["2", "1", "5"], ["2", "1", "40"], ["2", "2", "0"], ["2", "10", "0"], ["3", "0", "0"], ["3", "1", "2"], ["10", "0", "4"]];
const TOO_OLD: [[&str; 3]; 4] = [["1", "9", "9"], ["1", "0", "4"], ["0", "5", "46"], ["1", "1", "5"]];

/// Faulty statements for templates: (text, expected ids).  `One`/`Two` are helper templates appended to the file.
const TEMPLATE_STMTS: [(&str, &[&str]); 22] = [
    ("var (zq1, zq2) = (1, 2, 3);", &["TAC02"]),
    ("var zq1; var zq2; (zq1, zq2) = (1, 2, 3);", &["TAC02"]),
    ("var zq1 = 0; if ((zq1, 1)) { zq1 = 2; }", &["TAC02"]),
    ("var zq1 = 0; (zq1, 1) === (1, 1);", &["TAC02"]),
    ("var zq1[(1, 2)];", &["TAC02"]),
    ("var zq1 = (1, 2) + 1;", &["TAC02"]),
    ("var zq1 = 1; assert((zq1, 2));", &["TAC02"]),
    ("signal zs1; zs1 <== ZzNope()(1);", &["TAC01"]),
    ("signal zs1; zs1 <== ZzOne()(1, 2);", &["TAC01"]),
    ("signal zs1; zs1 <== ZzTwo()(a <== 1);", &["TAC01"]),
    ("signal zs1; zs1 <== ZzTwo()(a <== 1, b <== 2, a <== 3);", &["TAC01"]),
    ("signal zs1; zs1 <== ZzTwo()(c <== 3, a <== 1, b <== 2);", &["TAC01"]),
    ("signal zs1; zs1 <== ZzTwo()(a <== 1, c <== 2);", &["TAC01"]),
    ("signal zs1; zs1 <== ZzTwo()(1);", &["TAC01"]),
    ("signal zs1; signal zs2; (zs1, zs2) <== ZzTwo()(1, 2);", &["TAC01", "TAC02"]),
    ("signal (zs1, zs2, zs3) <== (1, 2);", &["TAC01", "TAC02"]),
    ("signal zs1; if (ZzOne()(1) == 1) { zs1 <== 1; }", &["TAC01"]),
    ("signal zs1; zs1 <== 1; ZzOne()(zs1) === 1;", &["TAC01"]),
    ("signal zs1; zs1 <== 1; log(ZzOne()(zs1));", &["TAC01"]),
    ("var zq1[ZzOne()(1)];", &["TAC01"]),
    ("signal zs1; zs1 <== 1; assert(ZzOne()(zs1) == 1);", &["TAC01"]),
    ("var zq1 = zundefined_fn_var + 1; var zq2 = zq3;", &["T2003", "CS0002", "P1000", "TAC01", "TAC02"]),
];

/// Faulty statements for functions.
const FUNCTION_STMTS: [(&str, &[&str]); 4] = [
    ("var zq1 = (1, 2);", &["TAC02", "TAC01"]),
    ("var (zq1, zq2) = (1, 2);", &["TAC02", "TAC01"]),
    ("var zq1 = ZzOne()(1);", &["TAC02", "TAC01"]),
    ("1 + 2 = 3;", &["TAC02", "TAC01"]),
];

const HELPERS: &str = "\ntemplate ZzOne() { signal input a; signal output o; o <== a; }\ntemplate ZzTwo() { signal input a; signal input b; signal output o; o <== a + b; }\n";

fn scratch(ctx: &Ctx, tag: &str) -> PathBuf {
    let d = ctx.scratch.join(format!("{tag}-{:?}", std::thread::current().id()).replace(['(', ')'], ""));
    let _ = std::fs::remove_dir_all(&d);
    let _ = std::fs::create_dir_all(&d);
    d
}

/// Source of the faulted file, or None if the fault does not apply to this project.
fn apply(p: &GenProject, target: usize, fault: &Fault) -> Option<Vec<u8>> {
    let f = &p.files[target];
    let toks = &f.r.toks;
    let src = &f.r.src;
    match fault {
        Fault::MissingPath | Fault::MissingOther(_) | Fault::MissingMany(_) | Fault::DanglingSymlink | Fault::TwoMainsTwoFiles(_) => Some(src.clone().into_bytes()),
        Fault::InvalidUtf8 => {
            let mut b = src.clone().into_bytes();
            let at = b.len() / 2;
            b.insert(at, 0xff);
            b.insert(at, 0xc3);
            Some(b)
        }
        Fault::VersionTooNew(_) | Fault::VersionTooOld(_) => {
            // tokens: `pragma circom` a . b . c ;
            if f.printed.tokens.first().map(|t| t.as_str()) != Some("pragma circom") || toks.len() < 7 {
                return None;
            }
            let v = match fault {
                Fault::VersionTooNew(k) => TOO_NEW[*k],
                Fault::VersionTooOld(k) => TOO_OLD[*k],
                _ => unreachable!(),
            };
            let mut out = String::new();
            let mut pos = 0;
            for (k, ti) in [1usize, 3, 5].iter().enumerate() {
                out.push_str(&src[pos..toks[*ti].0]);
                out.push_str(v[k]);
                pos = toks[*ti].1;
            }
            out.push_str(&src[pos..]);
            Some(out.into_bytes())
        }
        Fault::SymlinkToBlob => Some(format!("@ {src}").into_bytes()),
        Fault::Unterminated(k) => Some(format!("{}\n{}", src.trim_end(), UNTERMINATED[*k]).into_bytes()),
        Fault::Lexical(k, c) | Fault::Unmatched(k, c) => {
            let at = toks.get(*k).map(|t| t.0).unwrap_or(src.len());
            let mut s = src[..at].to_string();
            s.push_str(c);
            s.push(' ');
            s.push_str(&src[at..]);
            Some(s.into_bytes())
        }
        Fault::DroppedSemicolon(k) => {
            let semis: Vec<usize> = f.printed.tokens.iter().enumerate().filter(|(_, t)| t.as_str() == ";").map(|(i, _)| i).collect();
            let i = *semis.get(*k)?;
            let (s, e) = toks[i];
            let mut out = src[..s].to_string();
            out.push(' ');
            out.push_str(&src[e..]);
            Some(out)
            .map(String::into_bytes)
        }
        Fault::Statement(d, stmt, _) => {
            let def = f.ast.defs.get(*d)?;
            // position right after the `{` of the body
            let body = f.r.tight_span(def.body.id())?;
            let at = body.0 + 1;
            let mut s = src[..at].to_string();
            s.push(' ');
            s.push_str(stmt);
            s.push(' ');
            s.push_str(&src[at..]);
            // the helper templates live in a file of their own that is only included (never named)
            let inc_at = f.ast.defs.first().and_then(|d| f.r.tight_span(d.id)).map(|sp| sp.0).unwrap_or(0);
            let inc_at = if inc_at > at { inc_at + stmt.len() + 2 } else { inc_at };
            s.insert_str(inc_at.min(s.len()), "include \"zzlib.circom\";\n");
            Some(s.into_bytes())
        }
        Fault::DuplicateParam(d) => {
            let def = f.ast.defs.get(*d)?;
            if def.params.is_empty() {
                return None;
            }
            let sp = f.r.tight_span(def.params_id)?;
            let mut s = src[..sp.1].to_string();
            s.push_str(&format!(" , {}", def.params[0]));
            s.push_str(&src[sp.1..]);
            Some(s.into_bytes())
        }
        Fault::DuplicateDefinition(d) => {
            let def = f.ast.defs.get(*d)?;
            let sp = f.r.tight_span(def.id)?;
            let copy = src[sp.0..sp.1].to_string();
            let mut s = src[..sp.1].to_string();
            s.push('\n');
            s.push_str(&copy);
            s.push('\n');
            s.push_str(&src[sp.1..]);
            Some(s.into_bytes())
        }
        Fault::SecondMainSameFile => {
            let mut s = src.clone();
            s.push_str("\ntemplate ZzLocal() { signal input a; signal output o; o <== a; }\n");
            if f.ast.main.is_none() {
                s.push_str("\ncomponent main = ZzLocal();\n");
            }
            s.push_str("\ncomponent main = ZzLocal();\n");
            Some(s.into_bytes())
        }
    }
}

fn has_error_with_id(b: &BinResult, ids: &[&str], file: Option<&Path>) -> bool {
    b.parsed.diags.iter().any(|d| {
        d.severity == "error"
            && d.id.as_deref().map(|i| ids.contains(&i)).unwrap_or(false)
            && match (file, &d.loc) {
                (Some(f), Some((df, _, _))) => std::fs::canonicalize(df).ok() == std::fs::canonicalize(f).ok(),
                (Some(_), None) => false,
                (None, _) => true,
            }
    })
}

fn case(ctx: &Ctx, tape: &[u8], rec: &Rec) -> Verdict {
    let mut t = Tape::new(tape);
    let mut o = ProjOpts { max_files: 2, max_defs: 2, comments: false, main_component: true, clean: true, bom_chance: 0, sugar_chance: 0, name_more_chance: 140, reverse_chance: 128 };
    if t.chance(80) {
        o.comments = true;
    }
    let p = gen_project(&mut t, o);
    let dir = scratch(ctx, "c02");
    let r = case_in(ctx, &p, &mut t, rec, &dir);
    let _ = std::fs::remove_dir_all(&dir);
    r
}

fn case_in(ctx: &Ctx, p: &GenProject, t: &mut Tape, rec: &Rec, dir: &Path) -> Verdict {
    let named = p.write(dir).map_err(|e| Bad::new(format!("INFRA write: {e}")))?;
    // the baseline must be clean at --level error (checked, not assumed)
    let base = RunOpts::files(&named).verbose().level("error");
    let b = run_bin(ctx, &base)?;
    if crashed(&b.out) {
        rec.class("baseline_crashed_skipped");
        return Ok(());
    }
    if b.out.status != Some(0) || b.parsed.summary.as_deref() != Some("No issues found.") {
        rec.class("baseline_not_clean_skipped");
        return Ok(());
    }
    rec.class("clean_baselines");
    // converse: every definition of every named file was analysed
    for i in &p.named {
        for d in &p.files[*i].ast.defs {
            let needle = format!("'{}'", d.name);
            if !b.parsed.log.iter().any(|l| l.starts_with("analyzing ") && l.contains(&needle)) {
                return Err(Bad::new(format!("`No issues found.` although definition {} of a named file was never analysed", d.name))
                    .sig("C02:clean-without-analysis")
                    .rendered(p.describe()));
            }
        }
    }
    // enumerate faults
    let target = p.named[t.below(p.named.len())];
    let f = &p.files[target];
    let ntok = f.r.toks.len();
    let mut faults: Vec<Fault> = vec![Fault::MissingPath, Fault::DanglingSymlink, Fault::SymlinkToBlob, Fault::InvalidUtf8];
    faults.extend((0..MISSING_NAMES.len()).map(Fault::MissingOther));
    faults.extend((0..UNTERMINATED.len()).map(Fault::Unterminated));
    faults.extend((0..TOO_NEW.len()).map(Fault::VersionTooNew));
    faults.extend((0..TOO_OLD.len()).map(Fault::VersionTooOld));
    let positions: Vec<usize> = if ntok <= 40 {
        (1..ntok).collect()
    } else {
        (0..14).map(|_| 1 + t.below(ntok - 1)).collect()
    };
    for k in &positions {
        // not inside the `pragma circom a.b.c` header (position 0 is before everything)
        faults.push(Fault::Lexical(*k, ["@", "#", "'", "`"][t.below(4)]));
        faults.push(Fault::Unmatched(*k, [")", "]", "}"][t.below(3)]));
    }
    let nsemi = f.printed.tokens.iter().filter(|x| x.as_str() == ";").count();
    for k in 0..nsemi.min(8) {
        faults.push(Fault::DroppedSemicolon(if nsemi <= 8 { k } else { t.below(nsemi) }));
    }
    for (d, def) in f.ast.defs.iter().enumerate() {
        let is_fn = matches!(def.kind, crate::gen::ast::DefKind::Function);
        if is_fn {
            let (s, ids) = FUNCTION_STMTS[t.below(FUNCTION_STMTS.len())];
            faults.push(Fault::Statement(d, s, ids));
        } else {
            for _ in 0..3 {
                let (s, ids) = TEMPLATE_STMTS[t.below(TEMPLATE_STMTS.len() - 1)];
                faults.push(Fault::Statement(d, s, ids));
            }
        }
        faults.push(Fault::DuplicateParam(d));
        faults.push(Fault::DuplicateDefinition(d));
    }
    faults.push(Fault::TwoMainsTwoFiles(false));
    faults.push(Fault::TwoMainsTwoFiles(true));
    if t.chance(40) {
        faults.push(Fault::MissingMany([255, 256, 257, 512][t.below(4)]));
    }
    faults.push(Fault::SecondMainSameFile);

    for fault in &faults {
        let Some(bytes) = apply(p, target, fault) else { continue };
        let fdir = dir.join("faulted");
        let _ = std::fs::remove_dir_all(&fdir);
        let _ = std::fs::create_dir_all(&fdir);
        std::fs::write(fdir.join("zzlib.circom"), format!("pragma circom 2.0.0;{HELPERS}")).map_err(|e| Bad::new(format!("INFRA write: {e}")))?;
        for (i, file) in p.files.iter().enumerate() {
            if i != target {
                std::fs::write(fdir.join(&file.rel), &file.r.src).map_err(|e| Bad::new(format!("INFRA write: {e}")))?;
            }
        }
        let tpath = fdir.join(&p.files[target].rel);
        let mut named2: Vec<PathBuf> = p.named.iter().map(|i| fdir.join(&p.files[*i].rel)).collect();
        match fault {
            Fault::MissingPath => {}
            Fault::MissingOther(k) => {
                // the target is replaced on the command line by a path that does not exist
                for n in named2.iter_mut() {
                    if *n == tpath {
                        *n = fdir.join(MISSING_NAMES[*k]);
                    }
                }
            }
            Fault::DanglingSymlink => {
                let _ = std::os::unix::fs::symlink(fdir.join("does-not-exist.circom"), &tpath);
            }
            Fault::SymlinkToBlob => {
                let blob = fdir.join("zzblob-5f3a9c1e");
                std::fs::write(&blob, &bytes).map_err(|e| Bad::new(format!("INFRA write: {e}")))?;
                let _ = std::fs::remove_file(&tpath);
                let _ = std::os::unix::fs::symlink(&blob, &tpath);
            }
            Fault::TwoMainsTwoFiles(bare) => {
                std::fs::write(&tpath, &bytes).map_err(|e| Bad::new(format!("INFRA write: {e}")))?;
                let m1 = fdir.join("zmain1.circom");
                let m2 = fdir.join("zmain2.circom");
                let template = "template ZzM() { signal input a; signal output o; o <== a; }\n";
                if *bare {
                    std::fs::write(fdir.join("zzmlib.circom"), format!("pragma circom 2.0.0;\n{template}{}", template.replace("ZzM", "ZzN")))
                        .map_err(|e| Bad::new(format!("INFRA write: {e}")))?;
                }
                let body = if *bare {
                    "pragma circom 2.0.0;\ninclude \"zzmlib.circom\";\ncomponent main = ZzM();\n".to_string()
                } else {
                    format!("pragma circom 2.0.0;\n{template}component main = ZzM();\n")
                };
                std::fs::write(&m1, &body).map_err(|e| Bad::new(format!("INFRA write: {e}")))?;
                std::fs::write(&m2, body.replace("ZzM", "ZzN")).map_err(|e| Bad::new(format!("INFRA write: {e}")))?;
                // drop a main of the project itself so that exactly these two (or three) compete
                named2.push(m1);
                named2.push(m2);
            }
            Fault::MissingMany(n) => {
                std::fs::write(&tpath, &bytes).map_err(|e| Bad::new(format!("INFRA write: {e}")))?;
                for i in 0..*n {
                    named2.push(fdir.join(format!("zz-missing-{i}.circom")));
                }
            }
            _ => std::fs::write(&tpath, &bytes).map_err(|e| Bad::new(format!("INFRA write: {e}")))?,
        }
        for level in ["info", "warning", "error"] {
            let mut o = RunOpts::files(&named2).verbose().level(level);
            o.cpu_secs = 60;
            if level == "warning" {
                // with a SARIF path that cannot be written (missing directory) the failure is still an error
                o.sarif = Some(fdir.join("zz-no-such-dir").join("out.sarif"));
            }
            let b = run_bin(ctx, &o)?;
            rec.class(&format!("fault:{}", fault.class()));
            let key = format!("{}/{:?}/{level}", p.hash(), fault);
            rec.nontrivial(fnv(key.as_bytes()));
            if crashed(&b.out) {
                rec.class("faulted_run_crashed_skipped");
                continue;
            }
            let rendered = || format!("fault: {fault:?} in {} at --level {level}\n--- faulted file\n{}\n--- stdout\n{}", p.files[target].rel, String::from_utf8_lossy(&bytes), b.out.stdout);
            if b.out.status == Some(0) {
                return Err(Bad::new(format!(
                    "fault `{}` injected into {} but the run exits 0 with `{}`",
                    fault.class(),
                    p.files[target].rel,
                    b.parsed.summary.clone().unwrap_or_default()
                ))
                .sig(format!("C02:silent:{}", fault.class().split(':').next().unwrap_or("")))
                .rendered(rendered()));
            }
            let loc = if fault.located() { Some(tpath.as_path()) } else { None };
            if !has_error_with_id(&b, fault.expected_ids(), loc) {
                return Err(Bad::new(format!(
                    "fault `{}` injected into {}: no error-level diagnostic with id in {:?}{} is displayed at --level {level} (displayed: {:?})",
                    fault.class(),
                    p.files[target].rel,
                    fault.expected_ids(),
                    if fault.located() { " located in the faulted file" } else { "" },
                    b.parsed.diags.iter().map(|d| (d.severity.clone(), d.id.clone(), d.loc.as_ref().map(|l| l.0.clone()))).collect::<Vec<_>>()
                ))
                .sig(format!("C02:no-error:{}", fault.class().split(':').next().unwrap_or("")))
                .rendered(rendered()));
            }
        }
    }
    // A second definition of a name of one named file in another named file: an error, whatever the order.
    if p.named.len() >= 2 {
        let a = p.named[0];
        let b = p.named[1];
        if !p.files[a].ast.defs.is_empty() {
            let d = &p.files[a].ast.defs[t.below(p.files[a].ast.defs.len())];
            let params = d.params.join(", ");
            let text = if matches!(d.kind, crate::gen::ast::DefKind::Function) {
                format!("\nfunction {}({params}) {{\n    return 1;\n}}\n", d.name)
            } else {
                format!("\ntemplate {}({params}) {{\n    signal input zdi;\n    signal output zdo;\n    zdo <== zdi;\n}}\n", d.name)
            };
            let fdir = dir.join("faulted");
            let _ = std::fs::remove_dir_all(&fdir);
            let _ = std::fs::create_dir_all(&fdir);
            for (k, f) in p.files.iter().enumerate() {
                let mut src = f.r.src.clone();
                if k == b {
                    let at = f.ast.main.as_ref().and_then(|m| f.r.span(m.id)).map(|s| s.0).unwrap_or(src.len());
                    src.insert_str(at, &text);
                }
                std::fs::write(fdir.join(&f.rel), src).map_err(|e| Bad::new(format!("INFRA write: {e}")))?;
            }
            for order in [false, true] {
                let mut named2: Vec<PathBuf> = p.named.iter().map(|i| fdir.join(&p.files[*i].rel)).collect();
                if order {
                    named2.reverse();
                }
                let o = RunOpts::files(&named2).verbose().level("error");
                let bres = run_bin(ctx, &o)?;
                rec.class("fault:duplicate_definition_in_second_named_file");
                rec.nontrivial(fnv(format!("{}/dup2/{}/{order}", p.hash(), d.name).as_bytes()));
                if crashed(&bres.out) {
                    rec.class("faulted_run_crashed_skipped");
                    continue;
                }
                if bres.out.status == Some(0) || !bres.parsed.diags.iter().any(|x| x.severity == "error") {
                    return Err(Bad::new(format!(
                        "`{}` is defined in the two named files {} and {}: no error is displayed (exit {:?}, `{}`)",
                        d.name,
                        p.files[a].rel,
                        p.files[b].rel,
                        bres.out.status,
                        bres.parsed.summary.clone().unwrap_or_default()
                    ))
                    .sig("C02:silent:duplicate_definition_in_second_named_file")
                    .rendered(format!("{}\n--- added to {}\n{text}\n--- stdout\n{}", p.describe(), p.files[b].rel, bres.out.stdout)));
                }
            }
        }
    }
    // A second definition of a name of the named file, placed in a file that is only included: either
    // the duplicate is reported as an error, or every definition of the named files is still analysed.
    for (ni, &n) in p.named.iter().enumerate() {
        let _ = ni;
        let includer = &p.files[n];
        let Some(inc) = includer.ast.includes.first() else { continue };
        let inc_name = inc.path.trim_start_matches("./").to_string();
        let Some(j) = p.files.iter().position(|f| f.rel == inc_name) else { continue };
        if p.named.contains(&j) || includer.ast.defs.is_empty() {
            continue;
        }
        let d = &includer.ast.defs[t.below(includer.ast.defs.len())];
        let params = d.params.join(", ");
        let text = if matches!(d.kind, crate::gen::ast::DefKind::Function) {
            format!("\nfunction {}({params}) {{\n    return 1;\n}}\n", d.name)
        } else {
            format!("\ntemplate {}({params}) {{\n    signal input zdi;\n    signal output zdo;\n    zdo <== zdi;\n}}\n", d.name)
        };
        let fdir = dir.join("faulted");
        let _ = std::fs::remove_dir_all(&fdir);
        let _ = std::fs::create_dir_all(&fdir);
        for (k, f) in p.files.iter().enumerate() {
            let mut src = f.r.src.clone();
            if k == j {
                let at = f.ast.main.as_ref().and_then(|m| f.r.span(m.id)).map(|s| s.0).unwrap_or(src.len());
                src.insert_str(at, &text);
            }
            std::fs::write(fdir.join(&f.rel), src).map_err(|e| Bad::new(format!("INFRA write: {e}")))?;
        }
        let named2: Vec<PathBuf> = p.named.iter().map(|i| fdir.join(&p.files[*i].rel)).collect();
        for level in ["info", "error"] {
            let o = RunOpts::files(&named2).verbose().level(level);
            let b = run_bin(ctx, &o)?;
            rec.class("fault:duplicate_definition_in_included_file");
            rec.nontrivial(fnv(format!("{}/dupinc/{}/{level}", p.hash(), d.name).as_bytes()));
            if crashed(&b.out) {
                rec.class("faulted_run_crashed_skipped");
                continue;
            }
            let reported = b.out.status != Some(0) && b.parsed.diags.iter().any(|x| x.severity == "error");
            let all_analysed = p.named.iter().all(|i| {
                p.files[*i].ast.defs.iter().all(|d| {
                    let needle = format!("'{}'", d.name);
                    b.parsed.log.iter().any(|l| l.starts_with("analyzing ") && l.contains(&needle))
                })
            });
            if !reported && !all_analysed {
                return Err(Bad::new(format!(
                    "`{}` of the named file {} is also defined in the included file {}: no error is displayed (exit {:?}, `{}`) and the definitions of the named file were not all analysed",
                    d.name,
                    includer.rel,
                    p.files[j].rel,
                    b.out.status,
                    b.parsed.summary.clone().unwrap_or_default()
                ))
                .sig("C02:silent:duplicate_definition_in_included_file")
                .rendered(format!("{}\n--- added to {}\n{text}\n--- stdout\n{}", p.describe(), p.files[j].rel, b.out.stdout)));
            }
        }
    }
    rec.sample(|| json!({"project": p.describe().chars().take(800).collect::<String>(), "faults": faults.iter().map(|f| f.class()).collect::<Vec<_>>()}));
    Ok(())
}

fn replay_known(ctx: &Ctx, k: &Known) -> Verdict {
    if k.check == "analysed-or-error" {
        // repro = one file: either an error is displayed, or every definition of the file is analysed
        let file = PathBuf::from(&k.repro);
        let o = RunOpts::files(&[&file]).verbose().level("info");
        let b = run_bin(ctx, &o)?;
        if crashed(&b.out) {
            return Err(Bad::new(format!("{}: crashed", k.repro)).sig("C02:crash"));
        }
        let reported = b.out.status != Some(0) && b.parsed.diags.iter().any(|d| d.severity == "error");
        let text = std::fs::read_to_string(&file).unwrap_or_default();
        let names: Vec<String> = text
            .lines()
            .filter_map(|l| l.trim_start().strip_prefix("template ").or_else(|| l.trim_start().strip_prefix("function ")))
            .filter_map(|rest| rest.split('(').next().map(|n| n.trim().to_string()))
            .collect();
        let all = names.iter().all(|n| b.parsed.log.iter().any(|l| l.starts_with("analyzing ") && l.contains(&format!("'{n}'"))));
        if !reported && !all {
            return Err(Bad::new(format!("{}: no error displayed and not every definition of the file analysed ({names:?})", k.repro)).sig(k.signature.clone()));
        }
        return Ok(());
    }
    // repro = "<files...>" : must exit non-zero with an error-level diagnostic at --level error
    let files: Vec<PathBuf> = k.repro.split_whitespace().map(PathBuf::from).collect();
    let o = RunOpts::files(&files).verbose().level("error");
    let b = run_bin(ctx, &o)?;
    if crashed(&b.out) {
        return Err(Bad::new(format!("{}: crashed", k.repro)).sig("C02:crash"));
    }
    if b.out.status == Some(0) || !b.parsed.diags.iter().any(|d| d.severity == "error") {
        return Err(Bad::new(format!("{}: exits {:?} with `{}` and no error diagnostic", k.repro, b.out.status, b.parsed.summary.clone().unwrap_or_default())).sig(k.signature.clone()));
    }
    Ok(())
}

pub fn replay(ctx: &Ctx, check: &str, tape: &[u8]) -> Verdict {
    let stats = Stats::new();
    let rec = Rec::new(&stats, false);
    match check {
        "faults" => case(ctx, tape, &rec),
        _ => Err(Bad::new(format!("unknown check {check}"))),
    }
}

pub fn run(ctx: &Ctx) -> i32 {
    let start = Instant::now();
    let stats = Stats::new();
    let mut outcome = Outcome::new();
    let known = load_known("C02");
    for k in &known {
        let r = replay_known(ctx, k);
        outcome.known_replay(k, r);
    }
    let fails = run_tapes_opts(ctx, "faults", ctx.tier.pick(120, 2_500), 2000, 40, &stats, |tape, rec| case(ctx, tape, rec));
    outcome.absorb(&known, fails);
    let faulted_runs: u64 = ["missing_path", "dangling_symlink", "invalid_utf8", "version_too_new", "version_too_old", "lexical_error", "unmatched_closer", "dropped_semicolon", "duplicate_parameter", "duplicate_definition", "two_mains_two_files", "second_main_same_file"]
        .iter()
        .map(|c| stats.class_family_count(&format!("fault:{c}")))
        .sum();
    finish(
        ctx,
        &stats,
        &outcome,
        EvidenceSpec {
            level: "fault_enumeration",
            rule: "a generated project (1-2 files, 1-2 small definitions each, optional main component) is first run at --level error and kept only if it is clean (exit 0, `No issues found.`, every definition of every named file has its `analyzing` line — this is the converse clause). Then one fault at a time is injected into a named file and the real binary is run at --level info, warning and error: missing path, dangling symlink, invalid UTF-8 (stand-in for unreadable: the sandbox runs as root), version pragma above 2.1.4 / below 2.0.0, a character no token contains (@ # ' `) and an unmatched ) ] } before every token of files with <= 40 tokens (14 sampled positions otherwise), every `;` dropped (up to 8), an invalid tuple or anonymous component statement (16 template forms, 4 function forms incl. a non-variable assignment target) at the start of each definition body, a repeated parameter, a duplicated definition, two main components in two files (entry points with or without definitions of their own) / in one file, in a sixth of the projects 255, 256, 257 or 512 further named paths that do not exist, a path that does not exist under five names that do not end in `.circom`, and a second definition of a name of the named file inside a file that is only included (there the oracle is: error displayed, or every definition of the named files still analysed). Oracle: exit status != 0 and an error-level diagnostic whose id is in the expected set for the fault class, located in the faulted file where the fault leaves a file to point into. Non-trivial = distinct (project, fault, position, level); one evaluation = one project with all its faults.",
            assumptions: vec!["message wording is not inspected; only severity, id and file".into()],
            extra: json!({"faulted_binary_runs_core_classes": faulted_runs}),
        },
        start,
    )
}
