//! C17 — findings are a function of the sources: deterministic, order-independent.

use super::c03::{crashed, run_bin};
use crate::binrun::{self, RunOpts};
use crate::engine::*;
use crate::gen::print::{plain_trivia, print_file, render};
use crate::gen::proj::{gen_project, GenProject, ProjOpts};
use serde_json::json;
use std::collections::BTreeMap;
use std::path::{Path, PathBuf};
use std::time::Instant;

/// Finding normalised modulo positions: (rule id, level, message, labelled texts, related texts).
type Norm = (String, String, String, Vec<String>, Vec<String>);
/// Finding with positions.
type Exact = (String, String, String, Vec<(String, u64, u64, u64, u64)>, Vec<(String, u64, u64, u64, u64)>);

fn offset_of(src: &str, line: u64, col: u64) -> usize {
    let mut off = 0usize;
    for (i, l) in src.split_inclusive('\n').enumerate() {
        if (i + 1) as u64 == line {
            let mut c = 1u64;
            for (bi, _) in l.char_indices() {
                if c == col {
                    return off + bi;
                }
                c += 1;
            }
            return off + l.len();
        }
        off += l.len();
    }
    src.len()
}

fn norm_text(src: &str, region: &(String, u64, u64, u64, u64)) -> String {
    let s = offset_of(src, region.1, region.2);
    let e = offset_of(src, region.3, region.4).max(s);
    let raw = src.get(s..e).unwrap_or("");
    // comments blanked, whitespace collapsed
    let blank = super::c05::blank_comments(raw).unwrap_or_else(|| raw.to_string());
    blank.split_whitespace().collect::<Vec<_>>().join(" ")
}

/// `Name_<line>_<offset>` (anonymous components, synthesised counters) -> `Name_L_O`
fn norm_message(m: &str) -> String {
    let mut out = String::new();
    let b: Vec<char> = m.chars().collect();
    let mut i = 0;
    while i < b.len() {
        if b[i] == '_' && i + 1 < b.len() && b[i + 1].is_ascii_digit() {
            // _digits_digits ?
            let mut j = i + 1;
            while j < b.len() && b[j].is_ascii_digit() {
                j += 1;
            }
            if j < b.len() && b[j] == '_' && j + 1 < b.len() && b[j + 1].is_ascii_digit() {
                let mut k = j + 1;
                while k < b.len() && b[k].is_ascii_digit() {
                    k += 1;
                }
                out.push_str("_L_O");
                i = k;
                continue;
            }
        }
        out.push(b[i]);
        i += 1;
    }
    out
}

struct Observed {
    exact: BTreeMap<Exact, usize>,
    norm: BTreeMap<Norm, usize>,
    /// (norm, file name, primary start line)
    located: Vec<(Norm, String, u64)>,
    shown: BTreeMap<super::c03::Shown, usize>,
    status: Option<i32>,
}

fn multiset<T: Ord>(v: impl IntoIterator<Item = T>) -> BTreeMap<T, usize> {
    let mut m = BTreeMap::new();
    for x in v {
        *m.entry(x).or_insert(0) += 1;
    }
    m
}

fn observe(ctx: &Ctx, files: &[PathBuf], dir: &Path) -> Result<Option<Observed>, Bad> {
    let mut o = RunOpts::files(files).verbose().level("info");
    o.sarif = Some(dir.join("out.sarif"));
    let b = run_bin(ctx, &o)?;
    if crashed(&b.out) {
        return Ok(None);
    }
    let mut exact = Vec::new();
    let mut norm = Vec::new();
    let mut located = Vec::new();
    if let Some(text) = &b.out.sarif_text {
        if !b.parsed.diags.is_empty() {
            let doc = binrun::parse_sarif(text).map_err(|e| Bad::new(e).sig("C17:sarif-parse"))?;
            let mut cache: BTreeMap<String, String> = BTreeMap::new();
            for r in &doc.results {
                let mut texts = |regs: &Vec<(String, u64, u64, u64, u64)>| -> Vec<String> {
                    let mut v: Vec<String> = regs
                        .iter()
                        .map(|reg| {
                            let path = reg.0.trim_start_matches("file://").to_string();
                            let src = cache.entry(path.clone()).or_insert_with(|| std::fs::read_to_string(&path).unwrap_or_default());
                            norm_text(src, reg)
                        })
                        .collect();
                    v.sort();
                    v
                };
                let n: Norm = (r.rule_id.clone(), r.level.clone(), norm_message(&r.message), texts(&r.locations), texts(&r.related));
                let mut locs = r.locations.clone();
                locs.sort();
                let mut rel = r.related.clone();
                rel.sort();
                exact.push((r.rule_id.clone(), r.level.clone(), r.message.clone(), locs, rel));
                if let Some(l) = r.locations.first() {
                    located.push((n.clone(), l.0.trim_start_matches("file://").to_string(), l.1));
                } else {
                    located.push((n.clone(), String::new(), 0));
                }
                norm.push(n);
            }
        }
    }
    Ok(Some(Observed { exact: multiset(exact), norm: multiset(norm), located, shown: b.shown.clone(), status: b.out.status }))
}

fn scratch(ctx: &Ctx, tag: &str) -> PathBuf {
    let d = ctx.scratch.join(format!("{tag}-{:?}", std::thread::current().id()).replace(['(', ')'], ""));
    let _ = std::fs::remove_dir_all(&d);
    let _ = std::fs::create_dir_all(&d);
    d
}

fn diff<T: Ord + Clone>(a: &BTreeMap<T, usize>, b: &BTreeMap<T, usize>) -> (Vec<T>, Vec<T>) {
    let mut x = Vec::new();
    let mut y = Vec::new();
    for (k, n) in a {
        if b.get(k).copied().unwrap_or(0) < *n {
            x.push(k.clone());
        }
    }
    for (k, n) in b {
        if a.get(k).copied().unwrap_or(0) < *n {
            y.push(k.clone());
        }
    }
    (x, y)
}

fn case(ctx: &Ctx, tape: &[u8], rec: &Rec) -> Verdict {
    let mut t = Tape::new(tape);
    let p = gen_project(&mut t, ProjOpts { max_defs: 5, sugar_chance: 60, ..ProjOpts::default() });
    let dir = scratch(ctx, "c17");
    let r = case_in(ctx, &p, &mut t, rec, &dir).map_err(|b| if b.rendered.is_empty() { b.rendered(p.describe()) } else { b });
    let _ = std::fs::remove_dir_all(&dir);
    r
}

/// Projects in which two named files define the same name (an error the tool reports): repeated
/// runs and both orders of the file arguments must still display the same findings.
fn duplicate_case(ctx: &Ctx, tape: &[u8], rec: &Rec) -> Verdict {
    let mut t = Tape::new(tape);
    let with_main = t.chance(100);
    let mut p = gen_project(&mut t, ProjOpts { max_files: 3, max_defs: 3, main_component: with_main, clean: true, ..ProjOpts::default() });
    if p.files.len() < 2 {
        rec.class("duplicate_projects_single_file_skipped");
        return Ok(());
    }
    // a second, different definition of a name of file i is added to file j (before its main component, if any)
    let i = t.below(p.files.len());
    let j = (i + 1 + t.below(p.files.len() - 1)) % p.files.len();
    let k = t.below(p.files[i].ast.defs.len());
    let d = &p.files[i].ast.defs[k];
    let is_template = matches!(d.kind, crate::gen::ast::DefKind::Template { .. });
    let params = d.params.join(", ");
    let text = if is_template {
        format!("\ntemplate {}({params}) {{\n    signal input zdi;\n    signal output zdo;\n    var zdv = 3;\n    zdo <-- zdi * zdi;\n}}\n", d.name)
    } else {
        format!("\nfunction {}({params}) {{\n    var zdv = 3;\n    return 1;\n}}\n", d.name)
    };
    let src = &p.files[j].r.src;
    let at = p.files[j].ast.main.as_ref().and_then(|m| p.files[j].r.span(m.id)).map(|s| s.0).unwrap_or(src.len());
    p.files[j].r.src = format!("{}{text}{}", &src[..at], &src[at..]);
    p.named = (0..p.files.len()).collect();
    let dir = scratch(ctx, "c17d");
    let res = (|| -> Verdict {
        let named = p.write(&dir).map_err(|e| Bad::new(format!("INFRA write: {e}")))?;
        let Some(first) = observe(ctx, &named, &dir)? else {
            rec.class("crashed_skipped");
            return Ok(());
        };
        rec.class("duplicate_projects");
        rec.nontrivial(p.hash());
        for k in 0..ctx.tier.pick(7, 19) {
            let Some(again) = observe(ctx, &named, &dir)? else { continue };
            rec.class("repeat_runs");
            if again.exact != first.exact || again.shown != first.shown || again.status != first.status {
                let (a, b) = diff(&first.exact, &again.exact);
                return Err(Bad::new(format!(
                    "project with a duplicated definition name: run {} of the same command displays different findings: only in the first run {a:?}; only in the later run {b:?}",
                    k + 2
                ))
                .sig("C17:nondeterministic-duplicate-definition"));
            }
        }
        Ok(())
    })()
    .map_err(|b| if b.rendered.is_empty() { b.rendered(p.describe()) } else { b });
    let _ = std::fs::remove_dir_all(&dir);
    res
}

/// Two independent named files with the same layout (the second is a copy of the first whose definition
/// names are changed to other names of the same length): analysed together, in either order, they
/// display exactly the findings of each file analysed alone.
fn twin_case(ctx: &Ctx, tape: &[u8], rec: &Rec) -> Verdict {
    let mut t = Tape::new(tape);
    let p = gen_project(&mut t, ProjOpts { max_files: 1, max_defs: 3, main_component: false, sugar_chance: 60, ..ProjOpts::default() });
    let f = &p.files[0];
    // names are `T0x<k>` / `f0x<k>`: the twin uses `T7x<k>` / `f7x<k>` (same lengths, so every offset is the same)
    let mut twin = f.r.src.clone();
    for d in &f.ast.defs {
        let new_name = d.name.replacen('0', "7", 1);
        twin = replace_word(&twin, &d.name, &new_name);
    }
    if twin.len() != f.r.src.len() {
        return Ok(());
    }
    // variants: the first template of both files is a `template parallel`; the twin file ends with a
    // main component instantiating one of its own templates (a run with exactly one main component is
    // assembled by another code path; what is found in the other file must not depend on it)
    let mut original = f.r.src.clone();
    let first_template = f.ast.defs.iter().find(|d| !matches!(d.kind, crate::gen::ast::DefKind::Function));
    if let Some(d) = first_template {
        if t.chance(110) && matches!(d.kind, crate::gen::ast::DefKind::Template { custom: false, parallel: false }) {
            let twin_name = d.name.replacen('0', "7", 1);
            let a2 = original.replacen(&format!("template {}", d.name), &format!("template parallel {}", d.name), 1);
            let b2 = twin.replacen(&format!("template {twin_name}"), &format!("template parallel {twin_name}"), 1);
            if a2.len() == b2.len() && a2.len() != original.len() {
                original = a2;
                twin = b2;
                rec.class("twin_pairs_with_a_parallel_template");
            }
        }
        if t.chance(128) && f.ast.main.is_none() {
            let twin_name = d.name.replacen('0', "7", 1);
            twin.push_str(&format!("\ncomponent main = {twin_name}({});\n", vec!["2"; d.params.len()].join(", ")));
            rec.class("twin_pairs_where_one_file_has_the_main_component");
        }
    }
    let dir = scratch(ctx, "c17t");
    let res = (|| -> Verdict {
        let a = dir.join("a.circom");
        let b = dir.join("b.circom");
        std::fs::write(&a, &original).map_err(|e| Bad::new(format!("INFRA write: {e}")))?;
        std::fs::write(&b, &twin).map_err(|e| Bad::new(format!("INFRA write: {e}")))?;
        let Some(oa) = observe(ctx, &[a.clone()], &dir)? else { return Ok(()) };
        let Some(ob) = observe(ctx, &[b.clone()], &dir)? else { return Ok(()) };
        rec.class("twin_file_pairs");
        if !oa.exact.is_empty() {
            rec.nontrivial(fnv(original.as_bytes()));
        }
        let mut want = oa.exact.clone();
        for (k, n) in &ob.exact {
            *want.entry(k.clone()).or_insert(0) += n;
        }
        // what is printed on stdout, besides what is written to the SARIF file
        let mut want_shown = oa.shown.clone();
        for (k, n) in &ob.shown {
            *want_shown.entry(k.clone()).or_insert(0) += n;
        }
        for files in [vec![a.clone(), b.clone()], vec![b.clone(), a.clone()]] {
            let Some(both) = observe(ctx, &files, &dir)? else { continue };
            rec.class("twin_runs");
            if both.shown != want_shown {
                let (lost, gained) = diff(&want_shown, &both.shown);
                return Err(Bad::new(format!(
                    "two independent files analysed together do not display the findings of each file alone: lost {lost:?}; gained {gained:?}"
                ))
                .sig("C17:files-not-independent"));
            }
            if both.exact != want {
                let (lost, gained) = diff(&want, &both.exact);
                return Err(Bad::new(format!(
                    "two independent files analysed together do not display the findings of each file alone: lost {lost:?}; gained {gained:?}"
                ))
                .sig("C17:files-not-independent"));
            }
        }
        Ok(())
    })()
    .map_err(|e| if e.rendered.is_empty() { e.rendered(format!("--- a.circom\n{original}\n--- b.circom\n{twin}")) } else { e });
    let _ = std::fs::remove_dir_all(&dir);
    res
}

/// Replace the identifier `from` by `to` (whole words only).
fn replace_word(text: &str, from: &str, to: &str) -> String {
    let is_id = |c: char| c.is_ascii_alphanumeric() || c == '_' || c == '$';
    let mut out = String::with_capacity(text.len());
    let mut i = 0;
    let b = text.as_bytes();
    while i < b.len() {
        if text[i..].starts_with(from)
            && (i == 0 || !is_id(text[..i].chars().last().unwrap()))
            && text[i + from.len()..].chars().next().map(|c| !is_id(c)).unwrap_or(true)
        {
            out.push_str(to);
            i += from.len();
        } else {
            let c = text[i..].chars().next().unwrap();
            out.push(c);
            i += c.len_utf8();
        }
    }
    out
}

/// Committed reproducer directory: `d1.circom d2.circom` (library) and `d3.circom d2.circom`
/// (program) are each run 16 times; all runs must display the same findings.
fn replay_known(ctx: &Ctx, k: &Known) -> Verdict {
    let dir = Path::new(&k.repro);
    for files in [["d1.circom", "d2.circom"], ["d3.circom", "d2.circom"]] {
        let named: Vec<PathBuf> = files.iter().map(|f| dir.join(f)).collect();
        let out = scratch(ctx, "c17k");
        let Some(first) = observe(ctx, &named, &out)? else { continue };
        for n in 0..15 {
            let Some(again) = observe(ctx, &named, &out)? else { continue };
            if again.exact != first.exact || again.shown != first.shown || again.status != first.status {
                let (a, b) = diff(&first.exact, &again.exact);
                return Err(Bad::new(format!("{files:?}: run {} displays different findings: only in the first run {a:?}; only in the later run {b:?}", n + 2))
                    .sig("C17:nondeterministic-duplicate-definition"));
            }
        }
        let _ = std::fs::remove_dir_all(&out);
    }
    Ok(())
}

/// Hand-written files that exercise the special constructs of the analysis passes with several
/// candidates each (two `IsZero` on one divisor, several range checks per comparison, several unused
/// outputs, the same signal names in sibling branches, Circomlib names): repeated runs under every
/// curve must display the same findings.
fn pass_corpus(ctx: &Ctx, stats: &Stats) -> Vec<Failure> {
    let mut files: Vec<String> = std::fs::read_dir("/verif/corpus/passes")
        .map(|rd| rd.flatten().map(|e| e.path().display().to_string()).filter(|p| p.ends_with(".circom")).collect())
        .unwrap_or_default();
    files.sort();
    let mut jobs: Vec<(String, &'static str)> = Vec::new();
    for f in &files {
        for c in ["BN254", "BLS12_381", "GOLDILOCKS"] {
            jobs.push((f.clone(), c));
        }
    }
    let repeats = ctx.tier.pick(11, 59);
    let fails = run_items(ctx, &jobs, |_, (file, curve)| {
        let out = scratch(ctx, "c17p");
        let run = |n: usize| -> Result<Option<(BTreeMap<super::c03::Shown, usize>, Option<i32>)>, Bad> {
            let mut o = RunOpts::files(&[file]).verbose().level("info").curve(curve);
            o.sarif = Some(out.join(format!("o{n}.sarif")));
            let b = run_bin(ctx, &o)?;
            if crashed(&b.out) {
                return Ok(None);
            }
            Ok(Some((b.shown.clone(), b.out.status)))
        };
        let Some(first) = run(0)? else { return Ok(()) };
        stats.eval(1);
        stats.class("pass_corpus_file_curve_pairs");
        stats.nontrivial(fnv(format!("{file}/{curve}").as_bytes()));
        for n in 1..=repeats {
            let Some(again) = run(n)? else { continue };
            stats.class("pass_corpus_repeat_runs");
            if again != first {
                let (a, b) = diff(&first.0, &again.0);
                return Err(Bad::new(format!(
                    "{file} under {curve}: run {} displays different findings: only in the first run {a:?}; only in the later run {b:?}",
                    n + 1
                ))
                .sig("C17:nondeterministic-pass-corpus")
                .rendered(file.clone()));
            }
        }
        let _ = std::fs::remove_dir_all(&out);
        Ok(())
    });
    fails
        .into_iter()
        .map(|(i, b)| Failure { check: "pass_corpus".into(), tape: format!("{} {}", jobs[i].0, jobs[i].1).into_bytes(), reason: b.reason, signature: b.signature, rendered: b.rendered })
        .collect()
}

/// Programs of the C11 generator (several range checks, comparisons with and without a range check of
/// their inputs, marked template names) run repeatedly under the generated curve: every process has fresh
/// hasher keys, and the curve-dependent passes keep their facts in hash maps keyed by expression.
fn curve_case(ctx: &Ctx, tape: &[u8], rec: &Rec) -> Verdict {
    let quiet_stats = Stats::new();
    let quiet = Rec::new(&quiet_stats, false);
    let (src, stubs, curve_arg) = super::c11::random_source(tape, &quiet)?;
    let dir = scratch(ctx, "c17c");
    let path = dir.join("c.circom");
    std::fs::write(&path, &src).map_err(|e| Bad::new(format!("INFRA write: {e}")))?;
    std::fs::write(dir.join("zzstubs.circom"), stubs).map_err(|e| Bad::new(format!("INFRA write: {e}")))?;
    let run = || -> Result<Option<(BTreeMap<super::c03::Shown, usize>, Option<i32>)>, Bad> {
        let mut o = RunOpts::files(&[&path]).verbose().level("info");
        o.curve = Some(curve_arg.clone());
        o.cpu_secs = 120;
        let b = run_bin(ctx, &o)?;
        if crashed(&b.out) || b.out.status == Some(2) {
            return Ok(None);
        }
        Ok(Some((b.shown.clone(), b.out.status)))
    };
    let res = (|| {
        let Some(first) = run()? else {
            rec.class("curve_programs_crashed_or_rejected_skipped");
            return Ok(());
        };
        rec.class("curve_programs");
        let nfind: usize = first.0.values().sum();
        if src.matches("LessThan(").count() >= 2 && src.matches("Num2Bits(").count() >= 2 && nfind >= 3 {
            rec.nontrivial(fnv(src.as_bytes()));
        }
        rec.sample(|| json!({"curve_argument": curve_arg, "program": src.chars().take(1000).collect::<String>(), "findings": nfind}));
        for n in 0..ctx.tier.pick(7, 19) {
            let Some(again) = run()? else { continue };
            rec.class("curve_program_repeat_runs");
            if again != first {
                let (a, b) = diff(&first.0, &again.0);
                return Err(Bad::new(format!(
                    "under --curve {curve_arg}: run {} displays different findings: only in the first run {a:?}; only in the later run {b:?}",
                    n + 2
                ))
                .sig("C17:nondeterministic-curve-program")
                .rendered(src.clone()));
            }
        }
        Ok(())
    })();
    let _ = std::fs::remove_dir_all(&dir);
    res
}

const EXTRA_BROKEN: &str = "\ntemplate ZzBroken(k) {\n    signal input zin;\n    var (za, zb) = (k, 2, 3);\n    signal output zout;\n    zout <-- zin;\n}\n";

const EXTRA_DEFS: &str = "\ntemplate ZzExtra(k) {\n    signal input zin;\n    signal output zout;\n    var zv = k * 2;\n    zout <-- zin * zv;\n}\nfunction zzextra(x) {\n    var y = x + 1;\n    return x;\n}\n";

fn case_in(ctx: &Ctx, p: &GenProject, t: &mut Tape, rec: &Rec, dir: &Path) -> Verdict {
    let named = p.write(dir).map_err(|e| Bad::new(format!("INFRA write: {e}")))?;
    // (a) repeated runs: identical, positions included
    let Some(first) = observe(ctx, &named, dir)? else {
        rec.class("crashed_skipped");
        return Ok(());
    };
    rec.class("projects");
    if p.failing_defs > 0 {
        rec.class("projects_with_definition_failing_ssa_after_cfg_warning");
    }
    if p.failing_templates.iter().any(|n| p.files.iter().any(|f| f.r.src.contains(&format!("= {n}(")))) {
        rec.class("projects_with_failing_template_instantiated");
    }
    if p.bom_files > 0 {
        rec.class("projects_with_byte_order_mark");
    }
    if p.sugared_defs > 0 {
        rec.class("projects_with_tuple_or_anonymous_component_statements");
    }
    if p.recursive_templates > 0 {
        rec.class("projects_with_template_instantiating_itself");
    }
    let ndefs: usize = p.files.iter().map(|f| f.ast.defs.len()).sum();
    let nfind: usize = first.norm.values().sum();
    let cross = p.files.iter().any(|f| f.r.src.contains("component comp"));
    if ndefs >= 3 && cross && nfind >= 3 {
        rec.nontrivial(p.hash());
    }
    rec.sample(|| json!({"project": p.describe().chars().take(1000).collect::<String>(), "findings": nfind}));
    let repeats = ctx.tier.pick(4, 19);
    for k in 0..repeats {
        let Some(again) = observe(ctx, &named, dir)? else { continue };
        rec.class("repeat_runs");
        if again.exact != first.exact || again.shown != first.shown || again.status != first.status {
            let (a, b) = diff(&first.exact, &again.exact);
            return Err(Bad::new(format!(
                "run {} of the same command displays different findings: only in the first run {a:?}; only in the later run {b:?}",
                k + 2
            ))
            .sig("C17:nondeterministic"));
        }
    }
    // (b1) named files in another order
    if named.len() >= 2 {
        let mut rev = named.clone();
        rev.reverse();
        if let Some(o) = observe(ctx, &rev, dir)? {
            rec.class("file_order_runs");
            if o.exact != first.exact || o.shown != first.shown {
                let (a, b) = diff(&first.exact, &o.exact);
                return Err(Bad::new(format!("giving the input files in reverse order changes the findings: lost {a:?}; gained {b:?}")).sig("C17:file-order"));
            }
        }
    }
    // (b2) definitions of every file permuted
    {
        let dir2 = dir.join("perm");
        let _ = std::fs::create_dir_all(&dir2);
        for f in &p.files {
            let mut ast = f.ast.clone();
            // a random permutation (Fisher-Yates on the tape)
            for i in (1..ast.defs.len()).rev() {
                let j = t.below(i + 1);
                ast.defs.swap(i, j);
            }
            let printed = print_file(&ast, f.always_paren);
            let src = render(&printed, &plain_trivia(&printed)).src;
            std::fs::write(dir2.join(&f.rel), src).map_err(|e| Bad::new(format!("INFRA write: {e}")))?;
        }
        let named2: Vec<PathBuf> = p.named.iter().map(|i| dir2.join(&p.files[*i].rel)).collect();
        if let Some(o) = observe(ctx, &named2, &dir2)? {
            rec.class("permutation_runs");
            if o.norm != first.norm {
                let (a, b) = diff(&first.norm, &o.norm);
                return Err(Bad::new(format!(
                    "reordering the definitions inside the files changes the findings (positions ignored): lost {a:?}; gained {b:?}"
                ))
                .sig("C17:definition-order"));
            }
        }
    }
    // (c) add definitions nobody references to the first named file: valid ones, or one that the
    // desugarer has to reject (its error is the added finding; the others must not change either)
    {
        let broken = t.chance(90);
        let extra_defs: &str = if broken { EXTRA_BROKEN } else { EXTRA_DEFS };
        if broken {
            rec.class("extension_runs_with_definition_rejected_by_the_desugarer");
        }
        let dir3 = dir.join("extra");
        let _ = std::fs::create_dir_all(&dir3);
        let target = p.named[0];
        let mut start_line = 0u64;
        for (i, f) in p.files.iter().enumerate() {
            let mut src = f.r.src.clone();
            if i == target {
                // insert before a main component if there is one, else append
                let insert_at = f.ast.main.as_ref().and_then(|m| f.r.tight_span(m.id)).map(|s| s.0).unwrap_or(src.len());
                start_line = src[..insert_at].matches('\n').count() as u64 + 1;
                src.insert_str(insert_at, extra_defs);
            }
            std::fs::write(dir3.join(&f.rel), src).map_err(|e| Bad::new(format!("INFRA write: {e}")))?;
        }
        let extra_lines = extra_defs.matches('\n').count() as u64;
        let named3: Vec<PathBuf> = p.named.iter().map(|i| dir3.join(&p.files[*i].rel)).collect();
        let target_path = std::fs::canonicalize(dir3.join(&p.files[target].rel)).map(|p| p.display().to_string()).unwrap_or_default();
        if let Some(o) = observe(ctx, &named3, &dir3)? {
            rec.class("extension_runs");
            // findings of the extended project that are not located inside the added text
            let kept = multiset(
                o.located
                    .iter()
                    .filter(|(_, file, line)| !(file == &target_path && *line > start_line && *line < start_line + extra_lines))
                    .map(|(n, _, _)| n.clone()),
            );
            if kept != first.norm {
                let (a, b) = diff(&first.norm, &kept);
                return Err(Bad::new(format!(
                    "adding definitions that nothing references changes the findings of the other definitions: lost {a:?}; gained {b:?}"
                ))
                .sig("C17:unrelated-definitions"));
            }
            let added = o.located.len() - kept.values().sum::<usize>();
            if added == 0 {
                return Err(Bad::new("the added definitions produced no finding of their own (their `<--` must be reported)").sig("C17:extra-definitions-silent"));
            }
        }
    }
    Ok(())
}

pub fn replay(ctx: &Ctx, check: &str, tape: &[u8]) -> Verdict {
    let stats = Stats::new();
    let rec = Rec::new(&stats, false);
    match check {
        "projects" => case(ctx, tape, &rec),
        "pass_corpus" => {
            // tape = "<file> <curve>": re-run the whole corpus check (cheap)
            let stats = Stats::new();
            match pass_corpus(ctx, &stats).into_iter().next() {
                Some(f) => Err(Bad::new(f.reason).sig(f.signature)),
                None => Ok(()),
            }
        }
        "duplicate_names" => duplicate_case(ctx, tape, &rec),
        "twin_files" => twin_case(ctx, tape, &rec),
        "curve_programs" => curve_case(ctx, tape, &rec),
        _ => Err(Bad::new(format!("unknown check {check}"))),
    }
}

pub fn run(ctx: &Ctx) -> i32 {
    let start = Instant::now();
    let stats = Stats::new();
    let mut outcome = Outcome::new();
    let known = load_known("C17");
    for k in &known {
        let r = replay_known(ctx, k);
        outcome.known_replay(k, r);
    }
    let fails = pass_corpus(ctx, &stats);
    outcome.absorb(&known, fails);
    let fails = run_tapes_opts(ctx, "projects", ctx.tier.pick(1_500, 15_000), 3000, 60, &stats, |tape, rec| case(ctx, tape, rec));
    outcome.absorb(&known, fails);
    let fails = run_tapes_opts(ctx, "duplicate_names", ctx.tier.pick(160, 3_000), 3000, 40, &stats, |tape, rec| duplicate_case(ctx, tape, rec));
    outcome.absorb(&known, fails);
    let fails = run_tapes_opts(ctx, "twin_files", ctx.tier.pick(200, 3_000), 3000, 40, &stats, |tape, rec| twin_case(ctx, tape, rec));
    outcome.absorb(&known, fails);
    let fails = run_tapes_opts(ctx, "curve_programs", ctx.tier.pick(400, 6_000), 600, 40, &stats, |tape, rec| curve_case(ctx, tape, rec));
    outcome.absorb(&known, fails);
    finish(
        ctx,
        &stats,
        &outcome,
        EvidenceSpec {
            level: "exploration",
            rule: "generated multi-file projects (as C03: definitions that call/instantiate each other, includes, optional main component) are run through the real binary with --sarif-file. (a) the same command is repeated (5 processes in quick, 20 in thorough; every process has fresh random hasher keys, so map iteration orders differ): displayed findings and SARIF results must be identical including positions; (b) the named files are given in reverse order (identical findings) and the definitions of every file are randomly permuted and re-printed (findings equal modulo positions: rule id, level, message with `_<line>_<offset>` names normalised, whitespace/comment-normalised text under every label); (c) an unreferenced template and function are inserted into a named file: the findings not located in the inserted lines must equal the original findings modulo positions, and the inserted definitions must have findings of their own. (d) programs of the C11 generator (range checks, comparisons whose inputs are or are not range-checked, marked template names; one template, 2-11 such items) are run 8 times (20 in thorough) under the generated --curve spelling: displayed findings and exit status must be identical; non-trivial there = at least two comparisons, two range checks and three findings. Non-trivial = project with >= 3 definitions, a component instantiation and >= 3 findings; distinct by project hash. One evaluation = one project (8-23 runs).",
            assumptions: vec!["hash iteration orders are sampled by repeated processes; they cannot be enumerated (std RandomState cannot be seeded from outside)".into()],
            extra: json!({}),
        },
        start,
    )
}
