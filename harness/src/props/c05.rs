//! C05 — comments are transparent.
//!  1. `preprocess` (verif hook) against a reference comment lexer: exhaustive over
//!     short strings on a small alphabet + generated long strings.
//!  2. whole tool, metamorphic: findings(F) == findings(F with comments blanked),
//!     findings(F) ~ findings(F with comments inserted between tokens).
//!  3. an unterminated block comment at any position => error diagnostic, exit != 0.

use crate::binrun;
use crate::engine::*;
use crate::gen;
use serde_json::json;
use std::time::Instant;

/// Reference lexer: returns the comment mask (true = byte belongs to a comment,
/// delimiters included), or Err(offset of the opener) for an unterminated block comment.
pub fn comment_mask(src: &[u8]) -> Result<Vec<bool>, usize> {
    let n = src.len();
    let mut mask = vec![false; n];
    let mut i = 0;
    while i < n {
        if src[i] == b'/' && i + 1 < n && src[i + 1] == b'/' {
            // line comment: up to, not including, the next newline
            let mut j = i;
            while j < n && src[j] != b'\n' {
                mask[j] = true;
                j += 1;
            }
            i = j;
        } else if src[i] == b'/' && i + 1 < n && src[i + 1] == b'*' {
            // block comment: up to the first `*/` that starts after the opener
            let mut j = i + 2;
            let mut close = None;
            while j + 1 < n {
                if src[j] == b'*' && src[j + 1] == b'/' {
                    close = Some(j + 2);
                    break;
                }
                j += 1;
            }
            match close {
                Some(end) => {
                    for m in mask.iter_mut().take(end).skip(i) {
                        *m = true;
                    }
                    i = end;
                }
                None => return Err(i),
            }
        } else {
            i += 1;
        }
    }
    Ok(mask)
}

/// `src` with every comment *character* replaced by one blank (newlines kept),
/// so that line and column numbers as displayed (columns count characters) are preserved.
pub fn blank_comments(src: &str) -> Option<String> {
    let mask = comment_mask(src.as_bytes()).ok()?;
    let mut out = String::with_capacity(src.len());
    for (i, c) in src.char_indices() {
        if mask[i] && c != '\n' && c != '\r' {
            out.push(' ');
        } else {
            out.push(c);
        }
    }
    Some(out)
}

pub fn check_stripper(src: &str) -> Verdict {
    let want = comment_mask(src.as_bytes());
    let got = catch(|| parser::preprocess(src, 0));
    let show = || format!("{src:?}");
    let got = match got {
        Ok(g) => g,
        Err(p) => return Err(Bad::new(format!("preprocess panicked on {}: {p}", show())).sig("C05:panic")),
    };
    match (want, got) {
        (Err(_), Err(_)) => Ok(()),
        (Err(at), Ok(out)) => Err(Bad::new(format!(
            "block comment opened at byte {at} of {} is never closed, but preprocess accepted the input (output {out:?})",
            show()
        ))
        .sig("C05:unterminated-accepted")),
        (Ok(_), Err(_)) => Err(Bad::new(format!(
            "preprocess rejected {} although every block comment is closed",
            show()
        ))
        .sig("C05:spurious-error")),
        (Ok(mask), Ok(out)) => {
            let o = out.as_bytes();
            let s = src.as_bytes();
            if o.len() != s.len() {
                return Err(Bad::new(format!(
                    "preprocess changed the length of {}: {} -> {} bytes ({out:?})",
                    show(),
                    s.len(),
                    o.len()
                ))
                .sig("C05:length"));
            }
            for i in 0..s.len() {
                let ok = if mask[i] {
                    o[i] == b' ' || (s[i].is_ascii_whitespace() && o[i] == s[i])
                } else {
                    o[i] == s[i]
                };
                if !ok {
                    let what = if mask[i] { "comment byte not blanked" } else { "code byte altered" };
                    return Err(Bad::new(format!(
                        "{what} at byte {i} of {}: preprocess gives {out:?}",
                        show()
                    ))
                    .sig(if mask[i] { "C05:comment-kept" } else { "C05:code-hidden" }));
                }
            }
            Ok(())
        }
    }
}

const ALPHABET: [&str; 7] = ["/", "*", "\n", "a", "\"", " ", "é"];
/// The same with a carriage return (a bare CR is not a newline for the stripper); one symbol shorter.
const ALPHABET_CR: [&str; 8] = ["/", "*", "\n", "a", "\"", " ", "é", "\r"];

fn nth_string(len: usize, k: u64) -> String {
    nth_string_over(&ALPHABET, len, k)
}

fn nth_string_over(alphabet: &[&str], len: usize, mut k: u64) -> String {
    let mut s = String::new();
    let n = alphabet.len() as u64;
    for _ in 0..len {
        s.push_str(alphabet[(k % n) as usize]);
        k /= n;
    }
    s
}

fn exhaustive_strings(ctx: &Ctx, max_len: usize, stats: &Stats) -> Vec<Failure> {
    let mut out = exhaustive_strings_over(ctx, &ALPHABET, max_len, stats);
    if out.is_empty() {
        out = exhaustive_strings_over(ctx, &ALPHABET_CR, max_len - 1, stats);
    }
    out
}

fn exhaustive_strings_over(ctx: &Ctx, alphabet: &[&str], max_len: usize, stats: &Stats) -> Vec<Failure> {
    let mut out = Vec::new();
    for len in 0..=max_len {
        let total = (alphabet.len() as u64).pow(len as u32);
        let nchunks = 256u64.min(total);
        let chunks: Vec<(u64, u64)> = (0..nchunks).map(|i| (total * i / nchunks, total * (i + 1) / nchunks)).collect();
        let fails = run_items(ctx, &chunks, |_, (lo, hi)| {
            let mut first: Option<Bad> = None;
            let mut nontrivial = 0u64;
            for k in *lo..*hi {
                let s = nth_string_over(alphabet, len, k);
                if let Ok(m) = comment_mask(s.as_bytes()) {
                    if m.iter().any(|b| *b) {
                        nontrivial += 1;
                    }
                }
                if let Err(mut b) = check_stripper(&s) {
                    if first.is_none() {
                        b.rendered = s.clone();
                        first = Some(b);
                    }
                }
            }
            stats.eval(hi - lo);
            stats.class_n("stripper_exhaustive_strings", hi - lo);
            stats.class_n("stripper_exhaustive_with_complete_comment", nontrivial);
            match first {
                None => Ok(()),
                Some(b) => Err(b),
            }
        });
        for (_, b) in fails {
            out.push(Failure {
                check: "stripper".into(),
                tape: b.rendered.clone().into_bytes(),
                reason: b.reason,
                signature: b.signature,
                rendered: b.rendered,
            });
        }
        // shortest counterexamples are the most useful: stop at the first length that fails
        if !out.is_empty() {
            break;
        }
    }
    out
}

/// Long random strings over comment-relevant fragments.
fn random_string_case(tape: &[u8], rec: &Rec) -> Verdict {
    const FRAGS: [&str; 24] = [
        "/", "*", "\n", "a", "\"", " ", "é", "//", "/*", "*/", "**", "***/", "/**/", "/***/", "\r\n", "\r",
        "x = y / z;", "/* c */", "// c\n", "日本", "*/*", "/*/", "//*", "var a;",
    ];
    let mut t = Tape::new(tape);
    let mut s = String::new();
    while !t.exhausted() && s.len() < 400 {
        s.push_str(FRAGS[t.below(FRAGS.len())]);
    }
    if let Ok(m) = comment_mask(s.as_bytes()) {
        if m.iter().any(|b| *b) {
            rec.nontrivial(fnv(s.as_bytes()));
            rec.class("stripper_random_with_complete_comment");
        } else {
            rec.class("stripper_random_no_comment");
        }
    } else {
        rec.class("stripper_random_unterminated");
    }
    rec.sample(|| json!({"stripper_input": s}));
    check_stripper(&s).map_err(|b| b.rendered(s.clone()))
}

// ---------------------------------------------------------------------------
// Whole-tool relations (through the real binary).
// ---------------------------------------------------------------------------

/// Findings as the user sees them: (severity, id, message, file-less line, col).
fn findings(ctx: &Ctx, dir: &std::path::Path, name: &str, src: &str) -> Result<(Vec<(String, String, String, usize, usize)>, binrun::RunOut, binrun::Parsed), Bad> {
    let path = dir.join(name);
    std::fs::write(&path, src).map_err(|e| Bad::new(format!("INFRA write: {e}")))?;
    let opts = binrun::RunOpts::files(&[&path]).verbose().level("info");
    let out = binrun::run(&ctx.repo_bin, &opts).map_err(|e| Bad::new(format!("INFRA {e}")))?;
    let parsed = binrun::parse_stdout(&out.stdout);
    let mut v: Vec<_> = parsed
        .diags
        .iter()
        .map(|d| {
            let (l, c) = d.loc.as_ref().map(|x| (x.1, x.2)).unwrap_or((0, 0));
            (d.severity.clone(), d.id.clone().unwrap_or_default(), d.message.clone(), l, c)
        })
        .collect();
    v.sort();
    Ok((v, out, parsed))
}

fn crashed(out: &binrun::RunOut) -> bool {
    out.signal.is_some() || !matches!(out.status, Some(0) | Some(1)) || out.stderr.contains("panicked at")
}

/// 2a/2b/2c + 3 on one generated program.
fn program_case(ctx: &Ctx, tape: &[u8], rec: &Rec) -> Verdict {
    let mut t = Tape::new(tape);
    let prog = gen::text::commented_program(&mut t);
    let dir = ctx.scratch.join(format!("c05-{:?}", std::thread::current().id()).replace(['(', ')'], ""));
    let _ = std::fs::create_dir_all(&dir);
    let res = program_case_in(ctx, &dir, &prog, &mut t, rec);
    let _ = std::fs::remove_dir_all(&dir);
    res
}

fn program_case_in(ctx: &Ctx, dir: &std::path::Path, prog: &gen::text::Commented, t: &mut Tape, rec: &Rec) -> Verdict {
    let src = prog.with_comments();
    let plain = prog.without_comments();
    let (f_src, out_src, parsed_src) = findings(ctx, dir, "a.circom", &src)?;
    if crashed(&out_src) {
        // totality is C01's business; a crash makes the comparison meaningless
        rec.class("program_crashed_skipped");
        return Ok(());
    }
    rec.class("programs_with_comments");
    let adj = src.contains("**/") || src.contains("/**") || src.contains("//*") || src.contains("/*/");
    if adj {
        rec.class("programs_with_star_or_slash_runs_at_comment_edges");
    }
    if prog.comment_count() > 0 {
        rec.nontrivial(fnv(src.as_bytes()));
    }
    rec.sample(|| json!({"program_with_comments": src}));

    // (a) blank every comment in place: identical findings including positions.
    let blanked = blank_comments(&src).ok_or_else(|| Bad::new("generator produced an unterminated comment"))?;
    let (f_blank, out_blank, _) = findings(ctx, dir, "a.circom", &blanked)?;
    if !crashed(&out_blank) && f_src != f_blank {
        return Err(Bad::new(format!(
            "findings change when comments are replaced by blanks of the same length:\n with comments: {f_src:?}\n blanked: {f_blank:?}"
        ))
        .sig("C05:blanking-changes-findings")
        .rendered(src.clone()));
    }
    // (b) remove the comments entirely (tokens separated by single blanks): same
    // findings modulo positions.
    let strip = |v: &Vec<(String, String, String, usize, usize)>| {
        let mut w: Vec<_> = v.iter().map(|x| (x.0.clone(), x.1.clone(), x.2.clone())).collect();
        w.sort();
        w
    };
    let (f_plain, out_plain, parsed_plain) = findings(ctx, dir, "a.circom", &plain)?;
    if !crashed(&out_plain) && strip(&f_src) != strip(&f_plain) {
        return Err(Bad::new(format!(
            "findings differ between the program with comments between tokens and the same token stream without them:\n with comments: {:?}\n without: {:?}",
            strip(&f_src),
            strip(&f_plain)
        ))
        .sig("C05:comments-change-findings")
        .rendered(src.clone()));
    }
    // (c) every definition after any comment is still analysed.
    let analysed = |p: &binrun::Parsed| {
        let mut v: Vec<String> = p.log.iter().filter(|l| l.starts_with("analyzing ")).cloned().collect();
        v.sort();
        v
    };
    if !crashed(&out_plain) && analysed(&parsed_src) != analysed(&parsed_plain) {
        return Err(Bad::new(format!(
            "definitions analysed differ: with comments {:?}, without {:?}",
            analysed(&parsed_src),
            analysed(&parsed_plain)
        ))
        .sig("C05:definition-hidden")
        .rendered(src.clone()));
    }
    // 2b. the same relation on a program the parser rejects: the token stream is cut at a boundary (an
    // unexpected end of file, mostly) and ends in comments; blanking them moves no diagnostic.
    {
        // (the tape is mostly used up by now: the cut is derived from the program text)
        let h = fnv(src.as_bytes());
        let cut = prog.boundary((h % prog.boundaries() as u64) as usize);
        let tail = [" // trailing note", "\n/* closing remark */\n", " /* a */ // b\n", "\n\n// one\n// two", " /**/"][((h >> 32) % 5) as usize];
        let truncated = format!("{}{}", &plain[..cut], tail);
        if let Some(blank) = blank_comments(&truncated) {
            let (f_t, out_t, _) = findings(ctx, dir, "a.circom", &truncated)?;
            let (f_b, out_b, _) = findings(ctx, dir, "a.circom", &blank)?;
            if !crashed(&out_t) && !crashed(&out_b) {
                rec.class("truncated_programs_ending_in_comments");
                if f_t.iter().any(|x| x.0 == "error") {
                    rec.class("truncated_programs_rejected_by_the_parser");
                }
                if f_t != f_b {
                    return Err(Bad::new(format!(
                        "findings of a truncated program change when its trailing comments are replaced by blanks of the same length:\n with comments: {f_t:?}\n blanked: {f_b:?}"
                    ))
                    .sig("C05:blanking-changes-findings")
                    .rendered(truncated));
                }
            }
        }
    }
    // 3. open an unterminated block comment at a token boundary: must be an error.
    let cut = prog.boundary(t.below(prog.boundaries()));
    let opener = ["/* never closed", "/*", "/** doc *", "/* a * / b", "/*/"][t.below(5)];
    let mut broken = plain[..cut].to_string();
    broken.push_str(opener);
    // the rest of the file stays, minus anything that would close the comment
    broken.push_str(&plain[cut..].replace("*/", "* /"));
    if comment_mask(broken.as_bytes()).is_err() {
        rec.class("unterminated_comment_injected");
        let (_, out_b, parsed_b) = findings(ctx, dir, "a.circom", &broken)?;
        if !crashed(&out_b) {
            let has_error = parsed_b.diags.iter().any(|d| d.severity == "error");
            if out_b.status == Some(0) || !has_error {
                return Err(Bad::new(format!(
                    "an unterminated block comment ({opener:?} at byte {cut}) is not reported as an error: exit {:?}, diagnostics {:?}",
                    out_b.status, parsed_b.diags
                ))
                .sig("C05:unterminated-accepted")
                .rendered(broken));
            }
        }
        // two input files that both end inside a comment: each of them gets its own error
        if t.chance(220) {
            let second = format!("pragma circom 2.0.0;\ntemplate ZzSecond() {{ signal input a; signal output b; b <== a; }}\n{opener}\ntemplate ZzHidden() {{ signal input a; }}\n");
            let pa = dir.join("a.circom");
            let pb = dir.join("b.circom");
            std::fs::write(&pa, &broken).map_err(|e| Bad::new(format!("INFRA write: {e}")))?;
            std::fs::write(&pb, &second).map_err(|e| Bad::new(format!("INFRA write: {e}")))?;
            let files = if t.chance(128) { vec![pa.clone(), pb.clone()] } else { vec![pb.clone(), pa.clone()] };
            let opts = binrun::RunOpts::files(&files).verbose().level("info");
            let out2 = binrun::run(&ctx.repo_bin, &opts).map_err(|e| Bad::new(format!("INFRA {e}")))?;
            if !crashed(&out2) {
                rec.class("two_files_with_unterminated_comments");
                let parsed2 = binrun::parse_stdout(&out2.stdout);
                for f in [&pa, &pb] {
                    let canon = std::fs::canonicalize(f).unwrap_or(f.clone()).display().to_string();
                    let reported = parsed2.diags.iter().any(|d| d.severity == "error" && d.loc.as_ref().map(|l| l.0 == canon || l.0 == f.display().to_string()).unwrap_or(false));
                    if !reported {
                        return Err(Bad::new(format!(
                            "two input files end inside a block comment, but no error is located in {}: diagnostics {:?}",
                            f.display(),
                            parsed2.diags
                        ))
                        .sig("C05:unterminated-accepted-in-one-of-two-files")
                        .rendered(format!("--- a.circom\n{broken}\n--- b.circom\n{second}")));
                    }
                }
            }
        }
    }
    Ok(())
}

pub fn replay(ctx: &Ctx, check: &str, tape: &[u8]) -> Verdict {
    let stats = Stats::new();
    let rec = Rec::new(&stats, false);
    match check {
        "stripper" | "fuzz_preprocess" => check_stripper(&String::from_utf8_lossy(tape)),
        "stripper_random" => random_string_case(tape, &rec),
        "programs" => program_case(ctx, tape, &rec),
        _ => Err(Bad::new(format!("unknown check {check}"))),
    }
}

fn replay_known(ctx: &Ctx, k: &Known) -> Verdict {
    match k.check.as_str() {
        "stripper" => check_stripper(&k.repro),
        "file-must-error" => {
            // repro = path of a file that must produce an error diagnostic
            let opts = binrun::RunOpts::files(&[&k.repro]).verbose().level("info");
            let out = binrun::run(&ctx.repo_bin, &opts).map_err(|e| Bad::new(format!("INFRA {e}")))?;
            let p = binrun::parse_stdout(&out.stdout);
            if out.status == Some(0) || !p.diags.iter().any(|d| d.severity == "error") {
                Err(Bad::new(format!("{} is accepted without an error", k.repro)).sig(k.signature.clone()))
            } else {
                Ok(())
            }
        }
        "file-must-analyse" => {
            // repro = "<path> <definition name>": the definition must be analysed
            let mut it = k.repro.split_whitespace();
            let path = it.next().unwrap_or("");
            let name = it.next().unwrap_or("");
            let opts = binrun::RunOpts::files(&[path]).verbose().level("info");
            let out = binrun::run(&ctx.repo_bin, &opts).map_err(|e| Bad::new(format!("INFRA {e}")))?;
            let p = binrun::parse_stdout(&out.stdout);
            if p.log.iter().any(|l| l.starts_with("analyzing ") && l.contains(&format!("'{name}'"))) {
                Ok(())
            } else {
                Err(Bad::new(format!("definition {name} of {path} is hidden by a comment")).sig(k.signature.clone()))
            }
        }
        other => Err(Bad::new(format!("unknown known-finding check {other}"))),
    }
}

pub fn run(ctx: &Ctx) -> i32 {
    let start = Instant::now();
    let stats = Stats::new();
    let mut outcome = Outcome::new();
    let known = load_known("C05");
    for k in &known {
        let r = replay_known(ctx, k);
        outcome.known_replay(k, r);
    }

    let max_len = ctx.tier.pick(8, 10);
    let fails = exhaustive_strings(ctx, max_len, &stats);
    outcome.absorb(&known, fails);
    stats.sample(json!({"stripper_exhaustive": format!("all strings of length <= {max_len} over {:?}", ALPHABET), "example": nth_string(8, 1234567)}));
    // the exhaustive strings are all distinct; count the non-trivial ones into the distinct counter
    let exhaustive_nontrivial = stats.class_count("stripper_exhaustive_with_complete_comment");

    let fails = run_tapes(ctx, "stripper_random", ctx.tier.pick(200_000, 5_000_000), 160, &stats, random_string_case);
    outcome.absorb(&known, fails);

    let fails = run_tapes_opts(ctx, "programs", ctx.tier.pick(3000, 60_000), 600, 300, &stats, |tape, rec| {
        program_case(ctx, tape, rec)
    });
    outcome.absorb(&known, fails);

    let fuzz = fuzz_stage(ctx, &stats, &mut outcome, &known, "preprocess", 8, 1_000_000, 256, &[b"a /* b */ c // d\n".to_vec(), "/** é **/ x".as_bytes().to_vec()], &|a| {
        match std::str::from_utf8(a) {
            Ok(s) => check_stripper(s).map_err(|b| b.rendered(s.to_string())),
            Err(_) => Ok(()),
        }
    });
    finish(
        ctx,
        &stats,
        &outcome,
        EvidenceSpec {
            level: "exploration",
            rule: "(1) parser::preprocess vs a reference comment lexer (same Ok/Err, same byte length, code bytes untouched, comment bytes blank): exhaustively all strings up to the stated length over {/,*,\\n,a,\",space,é} (one symbol shorter with \\r added) and generated long strings from comment-relevant fragments; (2) generated Circom programs with comments of every shape between tokens, run through the real binary: findings equal after blanking comments in place (positions included), equal modulo positions after removing them, same definitions analysed; (3) an unterminated opener injected at a token boundary must give an error diagnostic and a non-zero exit. Non-trivial = string/program containing at least one complete comment; distinct by content hash (exhaustive strings are distinct by construction and counted in exhaustive_distinct_nontrivial).",
            assumptions: vec![
                "string literals get no special treatment by the comment lexer (as in Circom's own preprocessor): `//` inside a string starts a comment; the reference does the same".into(),
                "inside a comment a whitespace byte may be kept instead of blanked".into(),
            ],
            extra: json!({"exhaustive": true, "exhaustive_scope": format!("stripper strings of length <= {max_len} over a 7-symbol alphabet and of length <= {} over the same alphabet plus a bare carriage return; programs are sampled", max_len - 1), "exhaustive_distinct_nontrivial": exhaustive_nontrivial, "coverage_guided_stage": fuzz}),
        },
        start,
    )
}
