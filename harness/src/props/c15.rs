//! C15 — dominators, immediate dominators, dominator-tree children and dominance
//! frontiers of `DominatorTree::new` against the path definition.

use crate::engine::*;
use program_structure::ssa::dominator_tree::DominatorTree;
use program_structure::ssa::traits::{DirectedGraphNode, IndexSet};
use serde_json::json;
use std::time::Instant;

pub struct Node {
    index: usize,
    preds: IndexSet,
    succs: IndexSet,
}

impl DirectedGraphNode for Node {
    fn index(&self) -> usize {
        self.index
    }
    fn predecessors(&self) -> &IndexSet {
        &self.preds
    }
    fn successors(&self) -> &IndexSet {
        &self.succs
    }
}

/// Graph as successor bitmasks (n <= 64).
#[derive(Clone, Debug)]
pub struct Graph {
    pub n: usize,
    pub succ: Vec<u64>,
}

impl Graph {
    pub fn preds(&self) -> Vec<u64> {
        let mut p = vec![0u64; self.n];
        for i in 0..self.n {
            for j in 0..self.n {
                if self.succ[i] >> j & 1 == 1 {
                    p[j] |= 1 << i;
                }
            }
        }
        p
    }
    pub fn nodes(&self) -> Vec<Node> {
        let preds = self.preds();
        (0..self.n)
            .map(|i| Node {
                index: i,
                preds: (0..self.n).filter(|j| preds[i] >> j & 1 == 1).collect(),
                succs: (0..self.n).filter(|j| self.succ[i] >> j & 1 == 1).collect(),
            })
            .collect()
    }
    /// Set of nodes reachable from 0 without passing through `skip` (None = no restriction).
    pub fn reach(&self, skip: Option<usize>) -> u64 {
        if skip == Some(0) {
            return 0;
        }
        let mut seen = 1u64;
        let mut work = vec![0usize];
        while let Some(i) = work.pop() {
            let mut s = self.succ[i] & !seen;
            if let Some(k) = skip {
                s &= !(1 << k);
            }
            seen |= s;
            while s != 0 {
                let j = s.trailing_zeros() as usize;
                s &= s - 1;
                work.push(j);
            }
        }
        seen
    }
    pub fn edges(&self) -> Vec<(usize, usize)> {
        let mut e = Vec::new();
        for i in 0..self.n {
            for j in 0..self.n {
                if self.succ[i] >> j & 1 == 1 {
                    e.push((i, j));
                }
            }
        }
        e
    }
}

pub struct RefDom {
    /// dom[j] = bitmask of the dominators of j (reflexive).
    pub dom: Vec<u64>,
    pub idom: Vec<Option<usize>>,
    pub children: Vec<u64>,
    pub frontier: Vec<u64>,
}

/// Reference by the path definition.
pub fn reference(g: &Graph) -> RefDom {
    let n = g.n;
    let all: u64 = if n == 64 { !0 } else { (1u64 << n) - 1 };
    let mut dom = vec![0u64; n];
    for i in 0..n {
        let r = g.reach(Some(i));
        // every node not reachable without i is dominated by i
        let dominated = all & !r;
        for j in 0..n {
            if dominated >> j & 1 == 1 || i == j {
                dom[j] |= 1 << i;
            }
        }
    }
    let mut idom = vec![None; n];
    let mut children = vec![0u64; n];
    for j in 0..n {
        let strict = dom[j] & !(1 << j);
        // the strict dominator that all other strict dominators dominate
        let mut found = None;
        for d in 0..n {
            if strict >> d & 1 == 1 && (strict & !dom[d]) == 0 {
                // every strict dominator of j is a dominator of d
                found = Some(d);
            }
        }
        idom[j] = found;
        if let Some(d) = found {
            children[d] |= 1 << j;
        }
    }
    let preds = g.preds();
    let mut frontier = vec![0u64; n];
    for i in 0..n {
        for j in 0..n {
            let sdom_j = dom[j] >> i & 1 == 1 && i != j;
            if sdom_j {
                continue;
            }
            let mut p = preds[j];
            while p != 0 {
                let q = p.trailing_zeros() as usize;
                p &= p - 1;
                if dom[q] >> i & 1 == 1 {
                    frontier[i] |= 1 << j;
                    break;
                }
            }
        }
    }
    RefDom { dom, idom, children, frontier }
}

fn mask(s: &std::collections::HashSet<usize>) -> u64 {
    s.iter().fold(0u64, |m, i| m | (1u64 << i))
}

pub fn check_graph(g: &Graph) -> Verdict {
    let nodes = g.nodes();
    let render = || format!("n={} edges={:?}", g.n, g.edges());
    let tree = match catch(|| DominatorTree::new(&nodes)) {
        Ok(t) => t,
        Err(p) => {
            return Err(Bad::new(format!("DominatorTree::new panicked: {p}")).sig("C15:panic").rendered(render()))
        }
    };
    let r = reference(g);
    for i in 0..g.n {
        let d = mask(&tree.get_dominators(i));
        if d != r.dom[i] {
            return Err(Bad::new(format!(
                "dominators of node {i}: computed {:#b}, path definition {:#b}",
                d, r.dom[i]
            ))
            .sig("C15:dom")
            .rendered(render()));
        }
        if tree.get_immediate_dominator(i) != r.idom[i] {
            return Err(Bad::new(format!(
                "immediate dominator of node {i}: computed {:?}, definition {:?}",
                tree.get_immediate_dominator(i),
                r.idom[i]
            ))
            .sig("C15:idom")
            .rendered(render()));
        }
        let c = mask(&tree.get_dominator_successors(i));
        if c != r.children[i] {
            return Err(Bad::new(format!(
                "dominator-tree children of node {i}: computed {:#b}, definition {:#b}",
                c, r.children[i]
            ))
            .sig("C15:children")
            .rendered(render()));
        }
        let f = mask(&tree.get_dominance_frontier(i));
        if f != r.frontier[i] {
            return Err(Bad::new(format!(
                "dominance frontier of node {i}: computed {:#b}, definition {:#b}",
                f, r.frontier[i]
            ))
            .sig("C15:frontier")
            .rendered(render()));
        }
    }
    Ok(())
}

/// Non-trivial: has a join (node with >=2 predecessors) and a non-empty frontier somewhere.
fn nontrivial(g: &Graph) -> bool {
    let preds = g.preds();
    preds.iter().any(|p| p.count_ones() >= 2)
}

/// Decode the k-th graph on n nodes: bit e of k = presence of the e-th edge
/// (i -> j), j != 0, enumerated row-major.
fn nth_graph(n: usize, k: u64) -> Graph {
    let mut succ = vec![0u64; n];
    let mut e = 0;
    for i in 0..n {
        for j in 1..n {
            if k >> e & 1 == 1 {
                succ[i] |= 1 << j;
            }
            e += 1;
        }
    }
    Graph { n, succ }
}

fn exhaustive(ctx: &Ctx, n: usize, stats: &std::sync::Arc<Stats>) -> (Vec<(u64, Bad)>, bool) {
    let total: u64 = 1u64 << (n * (n - 1));
    let chunks: Vec<(u64, u64)> = {
        let c = 256u64.min(total);
        (0..c).map(|i| (total * i / c, total * (i + 1) / c)).collect()
    };
    let all: u64 = (1u64 << n) - 1;
    let st = stats.clone();
    let job = std::sync::Arc::new(move |_: usize, range: &(u64, u64)| -> Verdict {
        let (lo, hi) = *range;
        let mut rooted = 0u64;
        let mut nontriv = 0u64;
        let mut first: Option<(u64, Bad)> = None;
        for k in lo..hi {
            let g = nth_graph(n, k);
            if g.reach(None) != all {
                continue;
            }
            rooted += 1;
            if nontrivial(&g) {
                nontriv += 1;
            }
            if let Err(b) = check_graph(&g) {
                first = Some((k, b));
                break;
            }
        }
        st.eval(rooted);
        st.class_n(&format!("exhaustive_rooted_graphs_n{n}"), rooted);
        st.class_n("exhaustive_nontrivial", nontriv);
        match first {
            None => Ok(()),
            Some((k, b)) => Err(Bad { reason: format!("[graph #{k} on {n} nodes] {}", b.reason), ..b }),
        }
    });
    let (fails, hung) = run_detached(
        chunks.clone(),
        ctx.threads,
        job,
        std::time::Duration::from_secs(20),
        std::time::Duration::from_secs(300),
    );
    let fails = fails
        .into_iter()
        .map(|(i, b)| {
            let k: u64 = b
                .reason
                .split('#')
                .nth(1)
                .and_then(|s| s.split(' ').next())
                .and_then(|s| s.parse().ok())
                .unwrap_or(chunks[i].0);
            (k, b)
        })
        .collect();
    (fails, hung)
}

/// Random graph from a tape: several shapes, all nodes reachable by construction.
pub fn decode_graph(t: &mut Tape) -> (Graph, &'static str) {
    let n = 2 + t.below(39); // 2..=40
    let mut succ = vec![0u64; n];
    let shape = t.below(5);
    let name;
    match shape {
        0 => {
            name = "tree+extra";
            for j in 1..n {
                let p = t.below(j);
                succ[p] |= 1 << j;
            }
            let extra = t.below(2 * n);
            for _ in 0..extra {
                let i = t.below(n);
                let j = 1 + t.below(n - 1);
                succ[i] |= 1 << j;
            }
        }
        1 => {
            name = "chain+back";
            for j in 1..n {
                succ[j - 1] |= 1 << j;
            }
            let extra = t.below(n);
            for _ in 0..extra {
                let i = t.below(n);
                let j = 1 + t.below(n - 1);
                succ[i] |= 1 << j;
            }
        }
        2 => {
            name = "dense";
            for j in 1..n {
                let p = t.below(j);
                succ[p] |= 1 << j;
            }
            for i in 0..n {
                for j in 1..n {
                    if t.chance(90) {
                        succ[i] |= 1 << j;
                    }
                }
            }
        }
        3 => {
            name = "structured";
            // nested diamonds / loops: build like a reducible CFG
            let mut next = 1usize;
            let mut cur = 0usize;
            while next + 3 < n {
                if t.chance(128) {
                    // diamond cur -> a, b -> join
                    let (a, b, j) = (next, next + 1, next + 2);
                    succ[cur] |= 1 << a | 1 << b;
                    succ[a] |= 1 << j;
                    succ[b] |= 1 << j;
                    cur = j;
                    next += 3;
                } else {
                    // loop: cur -> head -> body -> head, head -> exit
                    let (h, b, x) = (next, next + 1, next + 2);
                    succ[cur] |= 1 << h;
                    succ[h] |= 1 << b | 1 << x;
                    succ[b] |= 1 << h;
                    cur = x;
                    next += 3;
                }
            }
            while next < n {
                succ[cur] |= 1 << next;
                cur = next;
                next += 1;
            }
            // a few irreducible extras
            let extra = t.below(4);
            for _ in 0..extra {
                let i = t.below(n);
                let j = 1 + t.below(n - 1);
                succ[i] |= 1 << j;
            }
        }
        _ => {
            name = "small-random";
            let m = 2 + t.below(7.min(n - 1));
            let mut s = vec![0u64; m];
            for j in 1..m {
                let p = t.below(j);
                s[p] |= 1 << j;
            }
            for i in 0..m {
                for j in 1..m {
                    if t.chance(64) {
                        s[i] |= 1 << j;
                    }
                }
            }
            return (Graph { n: m, succ: s }, name);
        }
    }
    (Graph { n, succ }, name)
}

fn random_case(tape: &[u8], rec: &Rec) -> Verdict {
    let mut t = Tape::new(tape);
    let (g, shape) = decode_graph(&mut t);
    rec.class(&format!("random:{shape}"));
    if g.n >= 6 {
        rec.class("random:n>=6");
    }
    if nontrivial(&g) {
        rec.nontrivial(fnv(format!("{:?}", g.succ).as_bytes()));
    }
    rec.sample(|| json!({"shape": shape, "n": g.n, "edges": g.edges()}));
    check_graph(&g)
}

pub fn replay(_ctx: &Ctx, check: &str, tape: &[u8]) -> Verdict {
    let stats = Stats::new();
    let rec = Rec::new(&stats, false);
    match check {
        "random_graphs" | "fuzz_domtree" => random_case(tape, &rec),
        "exhaustive" => {
            let s = String::from_utf8_lossy(tape).to_string();
            let mut it = s.split_whitespace();
            let n: usize = it.next().and_then(|x| x.parse().ok()).unwrap_or(2);
            let k: u64 = it.next().and_then(|x| x.parse().ok()).unwrap_or(0);
            check_graph(&nth_graph(n, k))
        }
        _ => Err(Bad::new(format!("unknown check {check}"))),
    }
}

pub fn run(ctx: &Ctx) -> i32 {
    let start = Instant::now();
    let stats_arc = std::sync::Arc::new(Stats::new());
    let stats: &Stats = &stats_arc;
    let mut outcome = Outcome::new();
    let known = load_known("C15");

    let max_n = 5;
    let mut hung_note = String::new();
    for n in 1..=max_n {
        if n == 1 {
            let g = Graph { n: 1, succ: vec![0] };
            stats.eval(1);
            if let Err(b) = check_graph(&g) {
                outcome.absorb(
                    &known,
                    vec![Failure {
                        check: "exhaustive".into(),
                        tape: b"1 0".to_vec(),
                        reason: b.reason,
                        signature: b.signature,
                        rendered: b.rendered,
                    }],
                );
            }
            continue;
        }
        let (fails, hung) = exhaustive(ctx, n, &stats_arc);
        let any = !fails.is_empty();
        outcome.absorb(
            &known,
            fails
                .into_iter()
                .map(|(k, b)| Failure {
                    check: "exhaustive".into(),
                    tape: format!("{n} {k}").into_bytes(),
                    reason: b.reason,
                    signature: b.signature,
                    rendered: b.rendered,
                })
                .collect(),
        );
        if hung {
            hung_note = format!("DominatorTree::new did not return on some graph with {n} nodes (worker threads abandoned)");
            if !any {
                // a pure hang without any wrong answer: infrastructure verdict, not a violation
                eprintln!("INFRA: watchdog: {hung_note}");
                return 2;
            }
            // violations are already known: report them and leave the hung workers behind
            let code = finish(
                ctx,
                stats,
                &outcome,
                EvidenceSpec {
                    level: "exploration",
                    rule: "exhaustive enumeration of rooted digraphs (run cut short: the function under test did not return on some graph after wrong answers had been found)",
                    assumptions: vec![hung_note.clone()],
                    extra: json!({"aborted_after_violation": true}),
                },
                start,
            );
            std::process::exit(code);
        }
    }
    // count of distinct non-trivial exhaustive graphs (all enumerated graphs are distinct)
    let exhaustive_nontrivial = stats.class_count("exhaustive_nontrivial");
    stats.sample(json!({"exhaustive": "every digraph on 1..=5 nodes with no edge into node 0 (self loops allowed) in which all nodes are reachable",
        "example": {"n": 4, "edges": nth_graph(4, 0b101101110011).edges()}}));

    let cases = ctx.tier.pick(60_000, 4_000_000);
    let fails = run_tapes(ctx, "random_graphs", cases, 400, &stats, random_case);
    outcome.absorb(&known, fails);

    let fuzz = fuzz_stage(ctx, &stats, &mut outcome, &known, "domtree", 8, 300_000, 400, &[], &|a| {
        let mut t = Tape::new(a);
        let (g, _) = decode_graph(&mut t);
        check_graph(&g)
    });
    // fold the exhaustive non-trivial count into the distinct counter by hashing (n,k) is
    // unnecessary: report it separately and add it in `extra`.
    finish(
        ctx,
        &stats,
        &outcome,
        EvidenceSpec {
            level: "exploration",
            rule: "graphs: (a) exhaustive — every rooted digraph on <= 5 nodes (no edge into the entry, self loops allowed, all nodes reachable); (b) generated from a choice tape in five shapes (random tree + extra edges, chain + back edges, dense, structured diamonds/loops + irreducible extras, small random) with up to 40 nodes. For every node all four relations (dominator set, immediate dominator, dominator-tree children, dominance frontier) are compared with the path-definition reference. Non-trivial = the graph has a join node (>= 2 predecessors). distinct_nontrivial counts distinct generated graphs (by edge-set hash); exhaustive_distinct_nontrivial counts the enumerated ones (all distinct by construction).",
            assumptions: vec![
                "entry node is index 0 and has no predecessors; all nodes reachable (the property's precondition)".into(),
                "reference = reachability with one node removed (harness/src/props/c15.rs)".into(),
            ],
            extra: json!({"exhaustive": true, "exhaustive_scope": "all rooted digraphs with <= 5 nodes; larger graphs are sampled", "exhaustive_distinct_nontrivial": exhaustive_nontrivial, "coverage_guided_stage": fuzz}),
        },
        start,
    )
}
