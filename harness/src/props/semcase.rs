//! Shared set-up for the semantic properties C06/C07/C09/C20: a generated
//! executable definition, valuations, reference traces and the mapping from IR
//! nodes back to generator nodes (by kind and source span).

use crate::engine::*;
use crate::field;
use crate::gen::ast::*;
use crate::gen::print::{plain_trivia, print_def, render, Rendered};
use crate::gen::prog::{gen_def, Profile, TemplateSig};
use crate::gen::text::{random_trivia, LayoutOpts};
use crate::interp::{Inputs, Perturb, Trace};
use num_bigint_dig::BigUint;
use num_traits::{One, Zero};
use program_structure::ir;
use std::collections::HashMap;

pub struct SemCase {
    pub prime_name: &'static str,
    pub prime: BigUint,
    pub helpers: Vec<Def>,
    pub def: Def,
    pub r: Rendered,
    pub template: bool,
    pub templates: Vec<String>,
    pub profile: Profile,
    /// source with comments blanked (for trimming spans)
    pub blank: String,
}

#[derive(Clone, Copy, Debug, Default)]
pub struct SemOpts {
    /// opaque components with readable output ports (C07)
    pub components: bool,
    /// functions with data parameters (C07)
    pub data_params: bool,
    /// only locals, parameters, input/output signals (C09 domain)
    pub c09_domain: bool,
    pub force_template: Option<bool>,
    /// favour the shapes whose facts arrive late during propagation: loop-carried updates
    /// `x = x op e`, helper calls (no degree of their own) and array element chains (C20)
    pub late_facts: bool,
    /// signals may be assigned inside branches and loops (a constant stored on one path only)
    pub nested_signal_assign: bool,
}

pub fn gen_sem_case(t: &mut Tape, o: SemOpts) -> SemCase {
    let primes = field::curve_primes();
    let (prime_name, prime) = primes[t.below(3)].clone();
    let template = o.force_template.unwrap_or_else(|| t.chance(150));
    let mut ids = Ids::default();
    // pure helper functions (functions only call earlier helpers)
    let mut helpers: Vec<Def> = Vec::new();
    let nh = if o.late_facts { 1 + t.below(2) } else { t.below(3) };
    for i in 0..nh {
        let mut hp = Profile::sem(false, prime.clone());
        hp.max_stmts = 4;
        hp.max_depth = 1;
        hp.max_params = 2;
        hp.helpers = helpers.iter().map(|d| (d.name.clone(), d.params.len())).collect();
        let d = gen_def(t, &hp, &mut ids, &format!("h{i}"));
        helpers.push(d);
    }
    let mut p = Profile::sem(template, prime.clone());
    p.helpers = helpers.iter().map(|d| (d.name.clone(), d.params.len())).collect();
    p.max_stmts = 4 + t.below(12);
    p.max_depth = 3;
    let mut templates = Vec::new();
    if template {
        // Circomlib-named templates whose parameter is judged by CS0010, and opaque components
        p.templates.push(TemplateSig { name: "Num2Bits".into(), params: 1, inputs: vec![], outputs: vec![] });
        p.templates.push(TemplateSig { name: "Bits2Num".into(), params: 1, inputs: vec![], outputs: vec![] });
        if o.components {
            p.templates.push(TemplateSig { name: "Sub".into(), params: 1, inputs: vec!["a".into(), "b".into()], outputs: vec!["x".into(), "y".into()] });
        }
        p.components = true;
        templates = p.templates.iter().map(|s| s.name.clone()).collect();
    }
    if o.data_params {
        // C07: control flow must not depend on the indeterminates
        p.signal_conditions = false;
        p.poly_bias = 150;
        p.data_ternary_chance = 70;
        if !template {
            p.data_params = true;
        }
    }
    if o.late_facts && o.data_params {
        // degree checks only: locals declared without initialiser, arrays filled element by element
        // (reads stay restricted to definitely assigned variables; value claims about such locals are F13)
        p.uninit_decl = true;
        p.elementwise_first = true;
    }
    if o.late_facts {
        p.self_update_bias = 110;
        p.call_bias = 40;
        p.max_stmts = 6 + t.below(14);
    }
    if o.nested_signal_assign {
        p.nested_signal_assign = true;
    }
    if o.c09_domain {
        p.no_intermediate = true;
        p.dynamic_dims = true;
        p.components = false;
        p.templates.clear();
        templates.clear();
    }
    let def = gen_def(t, &p, &mut ids, if template { "M" } else { "m" });
    let printed = print_def(&def, t.chance(30));
    let trivia = if t.chance(60) {
        random_trivia(&printed, t, LayoutOpts { comment_chance: 20, crlf: false }).0
    } else {
        plain_trivia(&printed)
    };
    let r = render(&printed, &trivia);
    let blank = match super::c05::comment_mask(r.src.as_bytes()) {
        Ok(mask) => String::from_utf8_lossy(&r.src.bytes().enumerate().map(|(i, c)| if mask[i] && c != b'\n' { b' ' } else { c }).collect::<Vec<u8>>()).to_string(),
        Err(_) => r.src.clone(),
    };
    SemCase { prime_name, prime, helpers, def, r, template, templates, profile: p, blank }
}

fn boundary_value(t: &mut Tape, p: &BigUint) -> BigUint {
    let one = BigUint::one();
    let half = p >> 1usize;
    match t.below(12) {
        0 => BigUint::zero(),
        1 => one,
        2 => BigUint::from(2u32),
        3 => p - &one,
        4 => half,
        5 => &half + &one,
        6 => BigUint::from(t.below(300) as u64),
        7 => BigUint::from(253u32 + t.below(4) as u32),
        8 => (BigUint::one() << [31usize, 32, 63, 64][t.below(4)]) % p,
        _ => {
            let mut bytes = [0u8; 33];
            for b in bytes.iter_mut() {
                *b = t.byte();
            }
            BigUint::from_bytes_le(&bytes) % p
        }
    }
}

/// Names and shapes of the signals declared at the top level of a template body.
pub fn signal_decls(def: &Def) -> Vec<(String, SigKind, usize)> {
    let mut v = Vec::new();
    def.body.walk(&mut |s| {
        if let Stmt::Decl { kind: DeclKind::Signal(k, _), syms, .. } = s {
            for sym in syms {
                let len = match sym.dims.first() {
                    Some(Expr::Num { value, .. }) => num_traits::ToPrimitive::to_usize(value).unwrap_or(1),
                    _ => 1,
                };
                v.push((sym.name.clone(), k.clone(), len));
            }
        }
    });
    v
}

pub fn component_decls(def: &Def) -> Vec<String> {
    let mut v = Vec::new();
    def.body.walk(&mut |s| {
        if let Stmt::Decl { kind: DeclKind::Component, syms, .. } = s {
            for sym in syms {
                v.push(sym.name.clone());
            }
        }
    });
    v
}

pub fn gen_inputs(t: &mut Tape, c: &SemCase) -> Inputs {
    let params = c.def.params.iter().map(|_| boundary_value(t, &c.prime)).collect();
    let mut signals = HashMap::new();
    for (name, _, len) in signal_decls(&c.def) {
        signals.insert(name, (0..len.max(1)).map(|_| boundary_value(t, &c.prime)).collect());
    }
    let mut ports = HashMap::new();
    for comp in component_decls(&c.def) {
        for port in ["x", "y"] {
            ports.insert((comp.clone(), port.to_string()), boundary_value(t, &c.prime));
        }
    }
    Inputs { prime: c.prime.clone(), params, signals, ports, fuel: 4000, perturb: Perturb::default(), signals_fixed: false }
}

pub fn run_trace(c: &SemCase, inp: &Inputs) -> Trace {
    let helpers: HashMap<String, &Def> = c.helpers.iter().map(|d| (d.name.clone(), d)).collect();
    crate::interp::run_def(&c.def, &helpers, &c.templates, inp)
}

// ---------------------------------------------------------------------------
// IR node -> generator node mapping
// ---------------------------------------------------------------------------

#[derive(Clone, Copy, Debug, PartialEq, Eq, Hash)]
pub enum Tag {
    Infix,
    Prefix,
    Switch,
    Var,
    Num,
    Call,
    Array,
}

#[derive(Clone, Copy, Debug, PartialEq, Eq, Hash)]
pub enum ValKey {
    /// Trace::expr_vals[id]
    Expr(Id),
    /// Trace::pre_vals[id] (target of a compound assignment before the update)
    Pre(Id),
    /// Trace::stmt_vals[id]
    Stmt(Id),
}

pub struct IrIndex {
    exprs: HashMap<(Tag, usize, usize), Id>,
    compound: HashMap<(usize, usize), Id>,
    subst: HashMap<(usize, usize, String), Id>,
    /// condition expression id -> statement id
    pub conds: HashMap<Id, Id>,
}

pub fn trim_end(blank: &str, s: usize, mut e: usize) -> (usize, usize) {
    let b = blank.as_bytes();
    e = e.min(b.len());
    while e > s && (b[e - 1] as char).is_ascii_whitespace() {
        e -= 1;
    }
    (s, e)
}

pub fn build_index(c: &SemCase) -> IrIndex {
    let mut ix = IrIndex { exprs: HashMap::new(), compound: HashMap::new(), subst: HashMap::new(), conds: HashMap::new() };
    let span = |id: Id| c.r.span(id).map(|(s, e)| trim_end(&c.blank, s, e));
    c.def.body.walk(&mut |s| {
        for e in s.exprs() {
            e.walk(&mut |x| {
                let tag = match x {
                    Expr::Infix { .. } => Tag::Infix,
                    Expr::Prefix { .. } => Tag::Prefix,
                    Expr::Ternary { .. } => Tag::Switch,
                    Expr::Var { .. } => Tag::Var,
                    Expr::Num { .. } => Tag::Num,
                    Expr::Call { .. } => Tag::Call,
                    Expr::ArrayLit { .. } => Tag::Array,
                    _ => return,
                };
                if let Some((s0, e0)) = span(x.id()) {
                    ix.exprs.insert((tag, s0, e0), x.id());
                }
            });
        }
        match s {
            Stmt::Compound { id, name, .. } | Stmt::IncDec { id, name, .. } => {
                if let Some(sp) = span(*id) {
                    ix.compound.insert(sp, *id);
                    ix.subst.insert((sp.0, sp.1, name.clone()), *id);
                }
            }
            Stmt::Assign { id, lhs: Expr::Var { name, .. }, .. } => {
                if let Some(sp) = span(*id) {
                    ix.subst.insert((sp.0, sp.1, name.clone()), *id);
                }
            }
            Stmt::Decl { id, syms, .. } => {
                if let Some(sp) = span(*id) {
                    for sym in syms {
                        if sym.init.is_some() {
                            ix.subst.insert((sp.0, sp.1, sym.name.clone()), sym.sub_id);
                        }
                    }
                }
            }
            Stmt::If { id, cond, .. } | Stmt::While { id, cond, .. } | Stmt::For { id, cond, .. } => {
                ix.conds.insert(cond.id(), *id);
            }
            _ => {}
        }
    });
    ix
}

impl IrIndex {
    pub fn expr_key(&self, c: &SemCase, e: &ir::Expression) -> Option<ValKey> {
        use ir::Expression::*;
        let (tag, meta) = match e {
            InfixOp { meta, .. } => (Tag::Infix, meta),
            PrefixOp { meta, .. } => (Tag::Prefix, meta),
            SwitchOp { meta, .. } => (Tag::Switch, meta),
            Variable { meta, .. } | Access { meta, .. } => (Tag::Var, meta),
            Number(meta, _) => (Tag::Num, meta),
            Call { meta, .. } => (Tag::Call, meta),
            InlineArray { meta, .. } => (Tag::Array, meta),
            Update { .. } | Phi { .. } => return None,
        };
        let (s, e0) = trim_end(&c.blank, meta.start(), meta.end());
        if let Some(id) = self.exprs.get(&(tag, s, e0)) {
            return Some(ValKey::Expr(*id));
        }
        if let Some(id) = self.compound.get(&(s, e0)) {
            return match tag {
                Tag::Infix => Some(ValKey::Expr(*id)),
                Tag::Var => Some(ValKey::Pre(*id)),
                _ => None,
            };
        }
        None
    }

    pub fn subst_key(&self, c: &SemCase, meta: &ir::Meta, var: &ir::VariableName) -> Option<ValKey> {
        let (s, e) = trim_end(&c.blank, meta.start(), meta.end());
        self.subst.get(&(s, e, var.name().clone())).map(|id| ValKey::Stmt(*id))
    }
}

pub fn values<'a>(traces: &'a [Trace], key: ValKey) -> impl Iterator<Item = &'a BigUint> + 'a {
    traces.iter().flat_map(move |t| {
        let v = match key {
            ValKey::Expr(id) => t.expr_vals.get(&id),
            ValKey::Pre(id) => t.pre_vals.get(&id),
            ValKey::Stmt(id) => t.stmt_vals.get(&id),
        };
        v.into_iter().flat_map(|v| v.iter())
    })
}

/// Visit every expression node of an IR statement (pre-order), including nested accesses.
pub fn walk_ir_exprs<'a>(st: &'a ir::Statement, f: &mut dyn FnMut(&'a ir::Expression)) {
    fn go<'a>(e: &'a ir::Expression, f: &mut dyn FnMut(&'a ir::Expression)) {
        use ir::Expression::*;
        f(e);
        match e {
            InfixOp { lhe, rhe, .. } => {
                go(lhe, f);
                go(rhe, f)
            }
            PrefixOp { rhe, .. } => go(rhe, f),
            SwitchOp { cond, if_true, if_false, .. } => {
                go(cond, f);
                go(if_true, f);
                go(if_false, f)
            }
            Call { args, .. } => args.iter().for_each(|a| go(a, f)),
            InlineArray { values, .. } => values.iter().for_each(|a| go(a, f)),
            Access { access, .. } => {
                for a in access {
                    if let ir::AccessType::ArrayAccess(i) = a {
                        go(i, f)
                    }
                }
            }
            Update { access, rhe, .. } => {
                for a in access {
                    if let ir::AccessType::ArrayAccess(i) = a {
                        go(i, f)
                    }
                }
                go(rhe, f)
            }
            Variable { .. } | Number(..) | Phi { .. } => {}
        }
    }
    use ir::Statement::*;
    match st {
        Declaration { dimensions, .. } => dimensions.iter().for_each(|d| go(d, f)),
        Substitution { rhe, .. } => go(rhe, f),
        IfThenElse { cond, .. } => go(cond, f),
        Return { value, .. } => go(value, f),
        Assert { arg, .. } => go(arg, f),
        ConstraintEquality { lhe, rhe, .. } => {
            go(lhe, f);
            go(rhe, f)
        }
        LogCall { args, .. } => {
            for a in args {
                if let ir::LogArgument::Expr(e) = a {
                    go(e, f)
                }
            }
        }
    }
}

/// Analysis context for running single passes: no other definitions are known.
pub struct NoContext;

impl program_analysis::analysis_context::AnalysisContext for NoContext {
    fn is_function(&self, _: &str) -> bool {
        false
    }
    fn is_template(&self, _: &str) -> bool {
        false
    }
    fn function(&mut self, name: &str) -> Result<&program_structure::cfg::Cfg, program_analysis::analysis_context::AnalysisError> {
        Err(program_analysis::analysis_context::AnalysisError::UnknownFunction { name: name.to_string() })
    }
    fn template(&mut self, name: &str) -> Result<&program_structure::cfg::Cfg, program_analysis::analysis_context::AnalysisError> {
        Err(program_analysis::analysis_context::AnalysisError::UnknownTemplate { name: name.to_string() })
    }
    fn underlying_str(
        &self,
        file_id: &program_structure::file_definition::FileID,
        _: &program_structure::file_definition::FileLocation,
    ) -> Result<String, program_analysis::analysis_context::AnalysisError> {
        Err(program_analysis::analysis_context::AnalysisError::UnknownFile { file_id: *file_id })
    }
}

pub fn run_passes(cfg: &program_structure::cfg::Cfg) -> Result<Vec<program_structure::report::Report>, String> {
    catch(|| {
        let mut ctx = NoContext;
        let mut out = Vec::new();
        for pass in program_analysis::get_analysis_passes() {
            out.append(&mut pass(&mut ctx, cfg));
        }
        out
    })
}
