//! C12 — the control-flow graph of every definition is well formed.

use super::c15::{reference, Graph};
use super::cfcase::*;
use crate::engine::*;
use crate::gen::walk::loop_depths;
use crate::obs;
use program_structure::cfg::Cfg;
use program_structure::ir;
use serde_json::json;
use std::time::Instant;

fn is_phi(s: &ir::Statement) -> bool {
    matches!(s, ir::Statement::Substitution { rhe: ir::Expression::Phi { .. }, .. })
}

pub fn wellformed(cfg: &Cfg, case: &CfCase, stage: &str) -> Verdict {
    let n = cfg.len();
    let bad = |sig: &str, msg: String| {
        Err(Bad::new(format!("[{stage}] {msg}")).sig(format!("C12:{sig}")).rendered(format!(
            "{}\n--- CFG ---\n{}",
            case.r.src,
            dump_cfg(cfg)
        )))
    };
    if n == 0 {
        return bad("empty", "CFG has no blocks".into());
    }
    let blocks: Vec<_> = cfg.iter().collect();
    for (i, b) in blocks.iter().enumerate() {
        if b.index() != i {
            return bad("index", format!("block at position {i} has index {}", b.index()));
        }
    }
    if !blocks[0].predecessors().is_empty() {
        return bad("entry-pred", format!("entry block has predecessors {:?}", blocks[0].predecessors()));
    }
    // mirror + range
    for b in &blocks {
        for &s in b.successors() {
            if s >= n {
                return bad("range", format!("block {} has successor {s} out of range", b.index()));
            }
            if !blocks[s].predecessors().contains(&b.index()) {
                return bad(
                    "mirror",
                    format!("{} -> {s} is a successor edge but {} is not a predecessor of {s}", b.index(), b.index()),
                );
            }
        }
        for &p in b.predecessors() {
            if p >= n {
                return bad("range", format!("block {} has predecessor {p} out of range", b.index()));
            }
            if !blocks[p].successors().contains(&b.index()) {
                return bad(
                    "mirror",
                    format!("{p} is a predecessor of {} but {} is not a successor of {p}", b.index(), b.index()),
                );
            }
        }
    }
    // reachability
    let mut seen = vec![false; n];
    let mut work = vec![0usize];
    seen[0] = true;
    while let Some(i) = work.pop() {
        for &s in blocks[i].successors() {
            if !seen[s] {
                seen[s] = true;
                work.push(s);
            }
        }
    }
    if let Some(u) = seen.iter().position(|s| !s) {
        return bad("unreachable", format!("block {u} is not reachable from the entry block"));
    }
    // branches
    for b in &blocks {
        let stmts = b.statements();
        for (k, s) in stmts.iter().enumerate() {
            if let ir::Statement::IfThenElse { true_index, false_index, .. } = s {
                if k + 1 != stmts.len() {
                    return bad("branch-not-last", format!("block {} has a branch statement at position {k} of {}", b.index(), stmts.len()));
                }
                if *true_index >= n || !b.successors().contains(true_index) {
                    return bad("true-target", format!("block {}: true target {true_index} is not an existing successor ({:?})", b.index(), b.successors()));
                }
                if let Some(f) = false_index {
                    if *f >= n || !b.successors().contains(f) {
                        return bad("false-target", format!("block {}: false target {f} is not an existing successor ({:?})", b.index(), b.successors()));
                    }
                }
            }
        }
        let has_branch = matches!(stmts.last(), Some(ir::Statement::IfThenElse { .. }));
        let max = if has_branch { 2 } else { 1 };
        if b.successors().len() > max {
            return bad(
                "succ-count",
                format!("block {} has {} successors ({:?}), branch: {has_branch}", b.index(), b.successors().len(), b.successors()),
            );
        }
    }
    // dominance order (reference dominators, not the tool's)
    if n <= 64 {
        let g = Graph {
            n,
            succ: blocks.iter().map(|b| b.successors().iter().fold(0u64, |m, s| m | (1u64 << s))).collect(),
        };
        let r = reference(&g);
        for j in 0..n {
            for i in 0..n {
                if r.dom[j] >> i & 1 == 1 && i > j {
                    return bad("dom-order", format!("block {i} dominates block {j} but {i} > {j}"));
                }
            }
        }
    }
    // loop depth
    let depths = loop_depths(&case.def, &case.r);
    for b in &blocks {
        let mut located = false;
        for s in b.statements() {
            if is_phi(s) {
                continue;
            }
            let m = stmt_meta(s);
            if let Some(d) = depths.get(&(m.start(), m.end())) {
                located = true;
                if *d != b.loop_depth() {
                    return bad(
                        "loop-depth",
                        format!(
                            "block {} has loop depth {} but its statement `{:?}` ({}..{}) lies inside {} loop bodies",
                            b.index(),
                            b.loop_depth(),
                            s,
                            m.start(),
                            m.end(),
                            d
                        ),
                    );
                }
            }
        }
        if !located {
            let m = b.meta();
            if let Some(d) = depths.get(&(m.start(), m.end())) {
                if *d != b.loop_depth() && b.index() != 0 {
                    return bad(
                        "loop-depth-empty",
                        format!(
                            "empty block {} (located at {}..{}) has loop depth {} but lies inside {} loop bodies",
                            b.index(),
                            m.start(),
                            m.end(),
                            b.loop_depth(),
                            d
                        ),
                    );
                }
            }
        }
    }
    Ok(())
}

fn case(tape: &[u8], rec: &Rec) -> Verdict {
    let mut t = Tape::new(tape);
    let c = gen_case(&mut t);
    let (has_loop, has_branch) = classify(&c.def, rec);
    let cfg = match lift(&c) {
        Lift::Ok(cfg, _) => cfg,
        Lift::Rejected(why) => {
            rec.class("rejected_by_lifting");
            // the generator only builds definitions that lift; a rejection is a harness bug
            return Err(Bad::new(format!("generated definition was rejected: {why}")).sig("C12:rejected").rendered(c.r.src.clone()));
        }
        Lift::Panic(p) => {
            return Err(Bad::new(format!("lifting panicked: {p}")).sig(format!("C12:panic:{}", p.split(':').take(2).collect::<Vec<_>>().join(":"))).rendered(c.r.src.clone()))
        }
    };
    rec.class_n("blocks", cfg.len() as u64);
    if cfg.len() >= 6 && has_loop && has_branch {
        rec.nontrivial(fnv(c.r.src.as_bytes()));
    }
    rec.sample(|| json!({"definition": c.r.src, "blocks": cfg.len()}));
    wellformed(&cfg, &c, "after into_cfg")?;
    match obs::to_ssa(cfg) {
        Ok(ssa) => {
            rec.class("converted_to_ssa");
            wellformed(&ssa, &c, "after into_ssa")
        }
        Err(obs::SsaFail::Error(r)) => {
            rec.class("ssa_rejected");
            let _ = r;
            Ok(())
        }
        Err(obs::SsaFail::Panic(p)) => Err(Bad::new(format!("into_ssa panicked: {p}")).sig("C12:ssa-panic").rendered(c.r.src.clone())),
    }
}

pub fn replay(_ctx: &Ctx, check: &str, tape: &[u8]) -> Verdict {
    let stats = Stats::new();
    let rec = Rec::new(&stats, false);
    match check {
        "cfg_wellformed" => case(tape, &rec),
        _ => Err(Bad::new(format!("unknown check {check}"))),
    }
}

pub fn run(ctx: &Ctx) -> i32 {
    let start = Instant::now();
    let stats = Stats::new();
    let mut outcome = Outcome::new();
    let known = load_known("C12");
    let fails = run_tapes(ctx, "cfg_wellformed", ctx.tier.pick(60_000, 1_000_000), 500, &stats, case);
    outcome.absorb(&known, fails);
    finish(
        ctx,
        &stats,
        &outcome,
        EvidenceSpec {
            level: "exploration",
            rule: "functions and templates generated from a choice tape by the control-flow profile (arbitrary nesting/sequencing of if/else, while, for, unbraced bodies, empty blocks, branches ending loop bodies, loops first/last, early returns, tiny colliding name pools, random layout with comments) are parsed and lifted through the public API; the validity predicate of the property (entry, reachability, mirrored edges, branch position and targets, successor counts, dominance order against reference dominators, loop depth against the generator's own nesting) is evaluated after into_cfg and again after into_ssa. Non-trivial = at least 6 basic blocks and both a loop and a branch; distinct by source hash.",
            assumptions: vec![
                "loop depth reference: number of generated loop bodies (for a `for`: body and step) containing the statement; a loop's condition counts as outside".into(),
                "dominators from the path-definition reference of C15, not from the tool".into(),
            ],
            extra: json!({}),
        },
        start,
    )
}
