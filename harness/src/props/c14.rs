//! C14 — SSA form is valid and preserves which assignment each read sees.

use super::c13::{ast_events, compare_walk_with};
use super::c15::{reference, Graph};
use super::cfcase::*;
use crate::engine::*;
use crate::obs;
use program_structure::cfg::Cfg;
use program_structure::ir;
use program_structure::ir::type_meta::TypeMeta;
use serde_json::json;
use std::collections::{BTreeMap, BTreeSet};
use std::time::Instant;

type VKey = (String, Option<String>, Option<usize>);
type Base = (String, Option<String>);

fn vkey(n: &ir::VariableName) -> VKey {
    (n.name().clone(), n.suffix().clone(), *n.version())
}
fn base(n: &ir::VariableName) -> Base {
    (n.name().clone(), n.suffix().clone())
}
fn show(k: &VKey) -> String {
    format!(
        "{}{}{}",
        k.0,
        k.1.as_ref().map(|s| format!("_{s}")).unwrap_or_default(),
        k.2.map(|v| format!(".{v}")).unwrap_or_default()
    )
}

#[derive(Clone, Debug)]
pub struct Read {
    pub name: ir::VariableName,
    pub local: bool,
    pub signal_or_component: bool,
    /// the implicit previous version read by an element-wise update
    pub update_base: bool,
    pub phi_arg: bool,
}

pub fn reads_of_expr(e: &ir::Expression, out: &mut Vec<Read>) {
    use ir::Expression::*;
    let mk = |meta: &ir::Meta, name: &ir::VariableName, update_base: bool| Read {
        name: name.clone(),
        local: meta.type_knowledge().is_local(),
        signal_or_component: meta.type_knowledge().is_signal() || meta.type_knowledge().is_component(),
        update_base,
        phi_arg: false,
    };
    match e {
        Variable { meta, name } => out.push(mk(meta, name, false)),
        Access { meta, var, access } => {
            out.push(mk(meta, var, false));
            for a in access {
                if let ir::AccessType::ArrayAccess(i) = a {
                    reads_of_expr(i, out)
                }
            }
        }
        Update { meta, var, access, rhe } => {
            out.push(mk(meta, var, true));
            for a in access {
                if let ir::AccessType::ArrayAccess(i) = a {
                    reads_of_expr(i, out)
                }
            }
            reads_of_expr(rhe, out)
        }
        InfixOp { lhe, rhe, .. } => {
            reads_of_expr(lhe, out);
            reads_of_expr(rhe, out)
        }
        PrefixOp { rhe, .. } => reads_of_expr(rhe, out),
        SwitchOp { cond, if_true, if_false, .. } => {
            reads_of_expr(cond, out);
            reads_of_expr(if_true, out);
            reads_of_expr(if_false, out)
        }
        Call { args, .. } => args.iter().for_each(|a| reads_of_expr(a, out)),
        InlineArray { values, .. } => values.iter().for_each(|a| reads_of_expr(a, out)),
        Phi { args, .. } => {
            for a in args {
                out.push(Read { name: a.clone(), local: true, signal_or_component: false, update_base: false, phi_arg: true })
            }
        }
        Number(..) => {}
    }
}

pub fn reads_of_stmt(st: &ir::Statement) -> Vec<Read> {
    let mut rs = Vec::new();
    use ir::Statement::*;
    match st {
        Declaration { dimensions, .. } => dimensions.iter().for_each(|d| reads_of_expr(d, &mut rs)),
        Substitution { rhe, .. } => reads_of_expr(rhe, &mut rs),
        IfThenElse { cond, .. } => reads_of_expr(cond, &mut rs),
        Return { value, .. } => reads_of_expr(value, &mut rs),
        Assert { arg, .. } => reads_of_expr(arg, &mut rs),
        ConstraintEquality { lhe, rhe, .. } => {
            reads_of_expr(lhe, &mut rs);
            reads_of_expr(rhe, &mut rs)
        }
        LogCall { args, .. } => {
            for a in args {
                if let ir::LogArgument::Expr(e) = a {
                    reads_of_expr(e, &mut rs)
                }
            }
        }
    }
    rs
}

fn is_phi(s: &ir::Statement) -> bool {
    matches!(s, ir::Statement::Substitution { rhe: ir::Expression::Phi { .. }, .. })
}

/// Static audit of the SSA CFG.
pub fn static_audit(ssa: &Cfg, src: &str) -> Verdict {
    let render = || format!("{src}\n--- SSA CFG ---\n{}", dump_cfg(ssa));
    let bad = |sig: &str, msg: String| Err(Bad::new(msg).sig(format!("C14:{sig}")).rendered(render()));
    let n = ssa.len();
    let blocks: Vec<_> = ssa.iter().collect();
    // definitions
    let mut defs: BTreeMap<VKey, (usize, usize)> = BTreeMap::new();
    for p in ssa.parameters().iter() {
        if p.version().is_none() {
            return bad("param-unversioned", format!("parameter {p:?} carries no version after SSA conversion"));
        }
        defs.insert(vkey(p), (0, 0));
    }
    for b in &blocks {
        let mut seen_non_phi = false;
        for (k, st) in b.statements().iter().enumerate() {
            if is_phi(st) {
                if seen_non_phi {
                    return bad("phi-not-at-head", format!("block {}: phi statement `{st:?}` at position {k} follows a non-phi statement", b.index()));
                }
            } else {
                seen_non_phi = true;
            }
            if let ir::Statement::Substitution { meta, var, .. } = st {
                let local = meta.type_knowledge().is_local();
                if local {
                    if var.version().is_none() {
                        return bad("local-unversioned", format!("block {}: local `{var:?}` is assigned without a version", b.index()));
                    }
                    if let Some(prev) = defs.insert(vkey(var), (b.index(), k + 1)) {
                        return bad(
                            "multiple-definitions",
                            format!("`{}` has two defining statements: block {} and block {}", show(&vkey(var)), prev.0, b.index()),
                        );
                    }
                } else if var.version().is_some() {
                    return bad("signal-versioned", format!("block {}: signal/component `{var:?}` carries a version", b.index()));
                }
            }
        }
    }
    // declared versions
    let declared: BTreeSet<VKey> = ssa.declarations().iter().map(|(n, _)| vkey(n)).collect();
    let mut stmt_declared: BTreeSet<VKey> = BTreeSet::new();
    for b in &blocks {
        for st in b.statements() {
            if let ir::Statement::Declaration { names, .. } = st {
                for nm in names.iter() {
                    stmt_declared.insert(vkey(nm));
                }
            }
        }
    }
    let param_bases: BTreeSet<Base> = ssa.parameters().iter().map(base).collect();
    // dominators (reference)
    let dom = if n <= 64 {
        let g = Graph {
            n,
            succ: blocks.iter().map(|b| b.successors().iter().fold(0u64, |m, s| m | (1u64 << s))).collect(),
        };
        Some(reference(&g).dom)
    } else {
        None
    };
    let dominates = |a: usize, b: usize| dom.as_ref().map(|d| d[b] >> a & 1 == 1).unwrap_or(true);
    for b in &blocks {
        for (k, st) in b.statements().iter().enumerate() {
            // written variable covered by a declaration
            if let ir::Statement::Substitution { meta, var, .. } = st {
                if meta.type_knowledge().is_local() {
                    let key = vkey(var);
                    if !declared.contains(&key) {
                        return bad("undeclared-version", format!("`{}` is assigned in block {} but the CFG's declarations do not cover that version", show(&key), b.index()));
                    }
                    if !stmt_declared.contains(&key) && !param_bases.contains(&base(var)) {
                        return bad("undeclared-version-stmt", format!("`{}` is assigned in block {} but no declaration statement lists that version", show(&key), b.index()));
                    }
                }
            }
            for r in reads_of_stmt(st) {
                let key = vkey(&r.name);
                if r.signal_or_component {
                    if r.name.version().is_some() {
                        return bad("signal-versioned", format!("block {}: signal/component read `{:?}` carries a version", b.index(), r.name));
                    }
                    continue;
                }
                if !r.local {
                    continue;
                }
                if r.name.version().is_none() {
                    return bad("local-unversioned", format!("block {}: `{st:?}` reads local `{:?}` without a version", b.index(), r.name));
                }
                if !declared.contains(&key) {
                    return bad("undeclared-version", format!("`{}` is read in block {} but the CFG's declarations do not cover that version", show(&key), b.index()));
                }
                match defs.get(&key) {
                    None => {
                        if !r.update_base {
                            return bad("read-without-definition", format!("block {}: `{st:?}` reads `{}` which no statement defines", b.index(), show(&key)));
                        }
                    }
                    Some(&(db, dk)) => {
                        if r.phi_arg {
                            // defined on an incoming path: the definition dominates a predecessor
                            let ok = b.predecessors().iter().any(|p| dominates(db, *p));
                            if !ok {
                                return bad(
                                    "phi-arg-not-on-incoming-path",
                                    format!("block {}: phi argument `{}` is defined in block {db}, which dominates none of the predecessors {:?}", b.index(), show(&key), b.predecessors()),
                                );
                            }
                        } else {
                            let ok = if db == b.index() { dk <= k } else { dominates(db, b.index()) };
                            if !ok {
                                return bad(
                                    "use-not-dominated",
                                    format!("block {}: `{st:?}` reads `{}` whose definition (block {db}) does not dominate the use", b.index(), show(&key)),
                                );
                            }
                        }
                    }
                }
            }
        }
    }
    Ok(())
}

fn case(tape: &[u8], rec: &Rec) -> Verdict {
    let mut t = Tape::new(tape);
    let c = {
        // the cf profile, half of the time with declarations without initialiser
        let mut p = cf_profile(&mut t);
        p.uninit_decl = t.chance(128);
        let mut ids = crate::gen::ast::Ids::default();
        let def = crate::gen::prog::gen_def(&mut t, &p, &mut ids, "F");
        let printed = crate::gen::print::print_def(&def, false);
        let r = crate::gen::print::render(&printed, &crate::gen::print::plain_trivia(&printed));
        CfCase { template: p.template, def, r }
    };
    classify(&c.def, rec);
    let cfg = match lift(&c) {
        Lift::Ok(cfg, _) => cfg,
        Lift::Rejected(why) => {
            return Err(Bad::new(format!("generated definition was rejected: {why}")).sig("C14:rejected").rendered(c.r.src.clone()))
        }
        Lift::Panic(p) => return Err(Bad::new(format!("lifting panicked: {p}")).sig("C14:panic").rendered(c.r.src.clone())),
    };
    let ssa = match obs::to_ssa(cfg) {
        Ok(s) => s,
        Err(obs::SsaFail::Error(r)) => {
            // the property speaks about converted definitions
            rec.class("ssa_conversion_rejected_skipped");
            let _ = r;
            return Ok(());
        }
        Err(obs::SsaFail::Panic(p)) => {
            return Err(Bad::new(format!("into_ssa panicked: {p}")).sig("C14:ssa-panic").rendered(c.r.src.clone()))
        }
    };
    rec.class("programs");
    let phis = ssa.iter().flat_map(|b| b.statements().iter()).filter(|s| is_phi(s)).count();
    rec.class_n("phi_statements", phis as u64);
    let loop_phi = ssa.iter().any(|b| b.loop_depth() == 0 && false) || phis > 0;
    static_audit(&ssa, &c.r.src)?;
    rec.sample(|| json!({"definition": c.r.src, "phi_statements": phis}));

    // dynamic: path walks tracking the current version
    for s in 0..16 {
        let bits: Vec<u8> = (0..200).map(|_| t.byte()).collect();
        let bias = [128u8, 200, 60, 255, 0, 128, 230, 30][s % 8];
        let (events, _) = ast_events(&c, bits, 6, bias);
        let mut current: BTreeMap<Base, usize> = BTreeMap::new();
        for p in ssa.parameters().iter() {
            if let Some(v) = p.version() {
                current.insert(base(p), *v);
            }
        }
        let mut reads_checked = 0u64;
        let mut phis_taken = 0u64;
        let src = &c.r.src;
        let ssa_ref = &ssa;
        let mut hook = |block: usize, pred: Option<usize>, st: &ir::Statement| -> Verdict {
            let render = || format!("{src}\n--- SSA CFG ---\n{}", dump_cfg(ssa_ref));
            if let ir::Statement::Substitution { var, rhe: ir::Expression::Phi { args, .. }, .. } = st {
                if let Some(cur) = current.get(&base(var)) {
                    phis_taken += 1;
                    let has = args.iter().any(|a| base(a) == base(var) && a.version() == &Some(*cur));
                    if !has {
                        return Err(Bad::new(format!(
                            "entering block {block} from block {pred:?}: the current version of `{}` is {cur} but `{st:?}` has no such argument",
                            show(&(var.name().clone(), var.suffix().clone(), None))
                        ))
                        .sig("C14:phi-misses-incoming-version")
                        .rendered(render()));
                    }
                }
                if let Some(v) = var.version() {
                    current.insert(base(var), *v);
                }
                return Ok(());
            }
            for r in reads_of_stmt(st) {
                if !r.local || r.phi_arg {
                    continue;
                }
                let Some(v) = r.name.version() else { continue };
                match current.get(&base(&r.name)) {
                    Some(cur) => {
                        reads_checked += 1;
                        if cur != v {
                            return Err(Bad::new(format!(
                                "block {block}: `{st:?}` reads `{}` but the version most recently assigned on this path is {cur}",
                                show(&vkey(&r.name))
                            ))
                            .sig("C14:stale-version-read")
                            .rendered(render()));
                        }
                    }
                    None => {
                        if !r.update_base {
                            return Err(Bad::new(format!(
                                "block {block}: `{st:?}` reads `{}` but nothing was assigned to it on this path",
                                show(&vkey(&r.name))
                            ))
                            .sig("C14:read-before-assignment")
                            .rendered(render()));
                        }
                    }
                }
            }
            if let ir::Statement::Substitution { meta, var, .. } = st {
                if meta.type_knowledge().is_local() {
                    if let Some(v) = var.version() {
                        current.insert(base(var), *v);
                    }
                }
            }
            Ok(())
        };
        compare_walk_with(&ssa, &c, &events, true, &mut hook)?;
        rec.class("decision_sequences");
        rec.class_n("reads_checked_on_paths", reads_checked);
        rec.class_n("phi_statements_traversed", phis_taken);
        rec.class("disagreements_checked");
        if phis_taken > 0 && reads_checked > 0 && loop_phi {
            rec.nontrivial(fnv(format!("{}/{:?}", c.r.src, events.iter().map(|e| e.decision).collect::<Vec<_>>()).as_bytes()));
        }
    }
    Ok(())
}


/// Definitions whose locals are read wherever they are declared, assigned on that path or not: the
/// conversion may refuse them (`used before it is defined`); whatever it does convert must be valid SSA.
fn unassigned_reads_case(tape: &[u8], rec: &Rec) -> Verdict {
    let mut t = Tape::new(tape);
    let mut p = cf_profile(&mut t);
    p.uninit_decl = true;
    p.reads_any_declared = true;
    let mut ids = crate::gen::ast::Ids::default();
    let def = crate::gen::prog::gen_def(&mut t, &p, &mut ids, "F");
    let printed = crate::gen::print::print_def(&def, false);
    let r = crate::gen::print::render(&printed, &crate::gen::print::plain_trivia(&printed));
    let c = CfCase { template: p.template, def, r };
    let cfg = match lift(&c) {
        Lift::Ok(cfg, _) => cfg,
        Lift::Rejected(_) => return Ok(()),
        Lift::Panic(p) => return Err(Bad::new(format!("lifting panicked: {p}")).sig("C14:panic").rendered(c.r.src.clone())),
    };
    match obs::to_ssa(cfg) {
        Ok(ssa) => {
            rec.class("definitions_with_possibly_unassigned_reads_converted");
            rec.nontrivial(fnv(c.r.src.as_bytes()));
            static_audit(&ssa, &c.r.src)
        }
        Err(obs::SsaFail::Error(_)) => {
            rec.class("definitions_with_possibly_unassigned_reads_refused");
            Ok(())
        }
        Err(obs::SsaFail::Panic(p)) => Err(Bad::new(format!("into_ssa panicked: {p}")).sig("C14:ssa-panic").rendered(c.r.src.clone())),
    }
}

/// Templates written with tuples and anonymous components (the pairs of C18, also inside loop bodies),
/// parsed and desugared by `parse_files`: the SSA form of everything that converts is audited.
fn sugar_case(ctx: &Ctx, tape: &[u8], rec: &Rec) -> Verdict {
    let mut t = Tape::new(tape);
    let (src, lib) = super::c18::sugared_program(&mut t);
    let dir = ctx.scratch.join(format!("c14-{:?}", std::thread::current().id()).replace(['(', ')'], ""));
    let _ = std::fs::remove_dir_all(&dir);
    let _ = std::fs::create_dir_all(&dir);
    let path = dir.join("s.circom");
    let _ = std::fs::write(&path, &src);
    if let Some(lib) = lib {
        let _ = std::fs::write(dir.join("zzlib.circom"), lib);
    }
    let parsed = catch(|| parser::parse_files(&[path.clone()], &[], &program_analysis::config::COMPILER_VERSION));
    let _ = std::fs::remove_dir_all(&dir);
    let Ok(parsed) = parsed else { return Ok(()) };
    let templates = match parsed {
        parser::ParseResult::Program(p, _) => p.templates,
        parser::ParseResult::Library(l, _) => l.templates,
    };
    let curve = program_structure::constants::Curve::Bn254;
    let mut names: Vec<&String> = templates.keys().collect();
    names.sort();
    for name in names {
        let tpl = &templates[name];
        use program_structure::cfg::IntoCfg;
        let mut rs = Vec::new();
        let ssa = catch(|| tpl.into_cfg(&curve, &mut rs).ok().and_then(|cfg| cfg.into_ssa().ok()));
        if let Ok(Some(ssa)) = ssa {
            rec.class("desugared_templates_audited");
            if name == "Top" {
                rec.nontrivial(fnv(src.as_bytes()));
            }
            static_audit(&ssa, &src)?;
        }
    }
    Ok(())
}

pub fn replay(ctx: &Ctx, check: &str, tape: &[u8]) -> Verdict {
    let stats = Stats::new();
    let rec = Rec::new(&stats, false);
    match check {
        "ssa_validity" => case(tape, &rec),
        "unassigned_reads" => unassigned_reads_case(tape, &rec),
        "desugared_templates" => sugar_case(ctx, tape, &rec),
        _ => Err(Bad::new(format!("unknown check {check}"))),
    }
}

pub fn run(ctx: &Ctx) -> i32 {
    let start = Instant::now();
    let stats = Stats::new();
    let mut outcome = Outcome::new();
    let known = load_known("C14");
    let fails = run_tapes(ctx, "ssa_validity", ctx.tier.pick(30_000, 400_000), 4000, &stats, case);
    outcome.absorb(&known, fails);
    let fails = run_tapes(ctx, "unassigned_reads", ctx.tier.pick(10_000, 150_000), 4000, &stats, unassigned_reads_case);
    outcome.absorb(&known, fails);
    let fails = run_tapes(ctx, "desugared_templates", ctx.tier.pick(2_000, 40_000), 4000, &stats, |tape, rec| sugar_case(ctx, tape, rec));
    outcome.absorb(&known, fails);
    let programs = stats.class_count("programs");
    finish(
        ctx,
        &stats,
        &outcome,
        EvidenceSpec {
            level: "translation_validation",
            rule: "definitions from the control-flow profile (shadowed names, arrays updated element-wise, variables assigned in one branch, declarations without initialiser that are read only when definitely assigned, nested loops, reassigned parameters) are converted with into_ssa. Static audit: at most one defining statement per versioned local, phi statements only at block heads, every non-phi read dominated by its definition and every phi argument defined in a block dominating a predecessor (reference dominators), locals versioned and covered by the CFG's declarations and a declaration statement, signals/components unversioned. Dynamic: for 16 decision sequences the SSA graph is walked in lock step with the structured walk of the generator AST (same statements, C13 relation) while tracking the version most recently assigned to every variable on that path: every phi traversed must list the incoming current version and every read must name the current version. Definitions whose conversion returns an error are counted and skipped. Two further sub-checks run the static audit alone: `unassigned_reads` on definitions whose locals are read wherever they are declared, assigned on that path or not (the conversion may refuse them; what it converts must be valid), and `desugared_templates` on the templates of C18's sugared programs (tuples, anonymous components, also inside loop bodies) after `parse_files` has desugared them. Non-trivial = a path that traverses at least one phi statement and checks at least one read; distinct by (source, decision vector).",
            assumptions: vec![
                "reads of locals are generated only where the variable is definitely assigned (the known class `declared but unassigned local merged at a join` is excluded by construction; see DESIGN.md)".into(),
                "the implicit previous version read by the first element-wise update of an array needs no definition".into(),
            ],
            extra: json!({"programs": programs}),
        },
        start,
    )
}
