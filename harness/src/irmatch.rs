//! Structural comparison between generator AST nodes and circomspect IR nodes.

use crate::field::{Op, UnOp};
use crate::gen::ast::*;
use crate::gen::walk::EvNode;
use circom_algebra::num_bigint::BigInt;
use program_structure::ir;

pub fn ir_infix(op: Op) -> ir::ExpressionInfixOpcode {
    use ir::ExpressionInfixOpcode as I;
    match op {
        Op::Add => I::Add,
        Op::Sub => I::Sub,
        Op::Mul => I::Mul,
        Op::Div => I::Div,
        Op::IntDiv => I::IntDiv,
        Op::Mod => I::Mod,
        Op::Pow => I::Pow,
        Op::ShiftL => I::ShiftL,
        Op::ShiftR => I::ShiftR,
        Op::BitAnd => I::BitAnd,
        Op::BitOr => I::BitOr,
        Op::BitXor => I::BitXor,
        Op::Lt => I::Lesser,
        Op::Le => I::LesserEq,
        Op::Gt => I::Greater,
        Op::Ge => I::GreaterEq,
        Op::Eq => I::Eq,
        Op::Ne => I::NotEq,
        Op::BoolAnd => I::BoolAnd,
        Op::BoolOr => I::BoolOr,
    }
}

pub fn from_ir_infix(op: ir::ExpressionInfixOpcode) -> Op {
    use ir::ExpressionInfixOpcode as I;
    match op {
        I::Add => Op::Add,
        I::Sub => Op::Sub,
        I::Mul => Op::Mul,
        I::Div => Op::Div,
        I::IntDiv => Op::IntDiv,
        I::Mod => Op::Mod,
        I::Pow => Op::Pow,
        I::ShiftL => Op::ShiftL,
        I::ShiftR => Op::ShiftR,
        I::BitAnd => Op::BitAnd,
        I::BitOr => Op::BitOr,
        I::BitXor => Op::BitXor,
        I::Lesser => Op::Lt,
        I::LesserEq => Op::Le,
        I::Greater => Op::Gt,
        I::GreaterEq => Op::Ge,
        I::Eq => Op::Eq,
        I::NotEq => Op::Ne,
        I::BoolAnd => Op::BoolAnd,
        I::BoolOr => Op::BoolOr,
    }
}

pub fn ir_prefix(op: UnOp) -> ir::ExpressionPrefixOpcode {
    match op {
        UnOp::Neg => ir::ExpressionPrefixOpcode::Sub,
        UnOp::Not => ir::ExpressionPrefixOpcode::BoolNot,
        UnOp::Complement => ir::ExpressionPrefixOpcode::Complement,
    }
}

fn big(v: &num_bigint_dig::BigUint) -> BigInt {
    BigInt::from_biguint(num_bigint_dig::Sign::Plus, v.clone())
}

pub fn access_matches(g: &[Access], i: &[ir::AccessType]) -> bool {
    g.len() == i.len()
        && g.iter().zip(i.iter()).all(|(a, b)| match (a, b) {
            (Access::Index(e), ir::AccessType::ArrayAccess(x)) => expr_matches(e, x),
            (Access::Field(f), ir::AccessType::ComponentAccess(x)) => f == x,
            _ => false,
        })
}

/// Does the IR expression have the same shape, operators, names and literals?
pub fn expr_matches(g: &Expr, i: &ir::Expression) -> bool {
    use ir::Expression as E;
    match (g, i) {
        (Expr::Parallel { e, .. }, _) => expr_matches(e, i),
        (Expr::Num { value, .. }, E::Number(_, v)) => &big(value) == v,
        (Expr::Var { name, access, .. }, E::Variable { name: n, .. }) => access.is_empty() && n.name() == name,
        (Expr::Var { name, access, .. }, E::Access { var, access: a, .. }) => {
            !access.is_empty() && var.name() == name && access_matches(access, a)
        }
        (Expr::Infix { op, l, r, .. }, E::InfixOp { infix_op, lhe, rhe, .. }) => {
            ir_infix(*op) == *infix_op && expr_matches(l, lhe) && expr_matches(r, rhe)
        }
        (Expr::Prefix { op, e, .. }, E::PrefixOp { prefix_op, rhe, .. }) => {
            ir_prefix(*op) == *prefix_op && expr_matches(e, rhe)
        }
        (Expr::Ternary { c, a, b, .. }, E::SwitchOp { cond, if_true, if_false, .. }) => {
            expr_matches(c, cond) && expr_matches(a, if_true) && expr_matches(b, if_false)
        }
        (Expr::Call { name, args, .. }, E::Call { name: n, args: a, .. }) => {
            name == n && args.len() == a.len() && args.iter().zip(a.iter()).all(|(x, y)| expr_matches(x, y))
        }
        (Expr::ArrayLit { elems, .. }, E::InlineArray { values, .. }) => {
            elems.len() == values.len() && elems.iter().zip(values.iter()).all(|(x, y)| expr_matches(x, y))
        }
        _ => false,
    }
}

fn assign_op(op: AssignOp) -> ir::AssignOp {
    match op {
        AssignOp::Var => ir::AssignOp::AssignLocalOrComponent,
        AssignOp::Signal => ir::AssignOp::AssignSignal,
        AssignOp::Constrain => ir::AssignOp::AssignConstraintSignal,
    }
}

fn var_type_matches(k: &DeclKind, t: &ir::VariableType) -> bool {
    match (k, t) {
        (DeclKind::Var, ir::VariableType::Local) => true,
        (DeclKind::Component, ir::VariableType::Component) => true,
        (DeclKind::Signal(sk, tags), ir::VariableType::Signal(st, tl)) => {
            tags == tl
                && matches!(
                    (sk, st),
                    (SigKind::Input, ir::SignalType::Input)
                        | (SigKind::Output, ir::SignalType::Output)
                        | (SigKind::Intermediate, ir::SignalType::Intermediate)
                )
        }
        _ => false,
    }
}

/// `target op= rhs` as the IR builds it: `[update(target, access,] (target[access] op rhs) [)]`.
fn compound_matches(name: &str, access: &[Access], op: Op, rhs_ok: impl Fn(&ir::Expression) -> bool, i: &ir::Expression) -> bool {
    use ir::Expression as E;
    let inner_ok = |e: &ir::Expression| match e {
        E::InfixOp { lhe, infix_op, rhe, .. } => {
            *infix_op == ir_infix(op)
                && rhs_ok(rhe)
                && match &**lhe {
                    E::Variable { name: n, .. } => access.is_empty() && n.name() == name,
                    E::Access { var, access: a, .. } => {
                        !access.is_empty() && var.name() == name && access_matches(access, a)
                    }
                    _ => false,
                }
        }
        _ => false,
    };
    if access.is_empty() {
        inner_ok(i)
    } else {
        match i {
            E::Update { var, access: a, rhe, .. } => var.name() == name && access_matches(access, a) && inner_ok(rhe),
            _ => false,
        }
    }
}

/// Does the IR statement correspond to this event of the AST walk (same kind,
/// same variable, same expressions)?  Spans are compared by the caller.
pub fn event_matches(ev: &EvNode, st: &ir::Statement) -> bool {
    use ir::Statement as S;
    match (ev, st) {
        (EvNode::Decl(sym, kind), S::Declaration { names, var_type, dimensions, .. }) => {
            names.len() >= 1
                && names.first().name() == &sym.name
                && var_type_matches(kind, var_type)
                && dimensions.len() == sym.dims.len()
                && sym.dims.iter().zip(dimensions.iter()).all(|(a, b)| expr_matches(a, b))
        }
        (EvNode::Init(sym, op), S::Substitution { var, op: o, rhe, .. }) => {
            var.name() == &sym.name && *o == assign_op(*op) && sym.init.as_ref().map(|e| expr_matches(e, rhe)).unwrap_or(false)
        }
        (EvNode::Assign(Stmt::Assign { lhs, op, rhs, .. }), S::Substitution { var, op: o, rhe, .. }) => {
            let Expr::Var { name, access, .. } = lhs else { return false };
            if var.name() != name || *o != assign_op(*op) {
                return false;
            }
            if access.is_empty() {
                expr_matches(rhs, rhe)
            } else {
                match rhe {
                    ir::Expression::Update { var: v, access: a, rhe: inner, .. } => {
                        v.name() == name && access_matches(access, a) && expr_matches(rhs, inner)
                    }
                    _ => false,
                }
            }
        }
        (EvNode::Assign(Stmt::Compound { name, access, op, rhs, .. }), S::Substitution { var, op: o, rhe, .. }) => {
            var.name() == name
                && *o == ir::AssignOp::AssignLocalOrComponent
                && compound_matches(name, access, *op, |e| expr_matches(rhs, e), rhe)
        }
        (EvNode::Assign(Stmt::IncDec { name, access, inc, .. }), S::Substitution { var, op: o, rhe, .. }) => {
            var.name() == name
                && *o == ir::AssignOp::AssignLocalOrComponent
                && compound_matches(
                    name,
                    access,
                    if *inc { Op::Add } else { Op::Sub },
                    |e| matches!(e, ir::Expression::Number(_, v) if *v == BigInt::from(1)),
                    rhe,
                )
        }
        (EvNode::Cond(_, c), S::IfThenElse { cond, .. }) => expr_matches(c, cond),
        (EvNode::Simple(Stmt::Return { e, .. }), S::Return { value, .. }) => expr_matches(e, value),
        (EvNode::Simple(Stmt::Assert { e, .. }), S::Assert { arg, .. }) => expr_matches(e, arg),
        (EvNode::Simple(Stmt::ConstraintEq { l, r, .. }), S::ConstraintEquality { lhe, rhe, .. }) => {
            expr_matches(l, lhe) && expr_matches(r, rhe)
        }
        (EvNode::Simple(Stmt::Log { args, .. }), S::LogCall { args: a, .. }) => {
            args.len() == a.len()
                && args.iter().zip(a.iter()).all(|(x, y)| match (x, y) {
                    (LogArg::Str(s), ir::LogArgument::String(t)) => s == t,
                    (LogArg::Expr(e), ir::LogArgument::Expr(f)) => expr_matches(e, f),
                    _ => false,
                })
        }
        _ => false,
    }
}

pub fn describe_event(ev: &EvNode) -> String {
    match ev {
        EvNode::Decl(sym, _) => format!("declaration of `{}`", sym.name),
        EvNode::Init(sym, op) => format!("initialisation `{} {} …`", sym.name, op.symbol()),
        EvNode::Assign(Stmt::Assign { lhs, .. }) => match lhs {
            Expr::Var { name, .. } => format!("assignment to `{name}`"),
            _ => "assignment".into(),
        },
        EvNode::Assign(Stmt::Compound { name, op, .. }) => format!("`{name} {}= …`", op.symbol()),
        EvNode::Assign(Stmt::IncDec { name, inc, .. }) => format!("`{name}{}`", if *inc { "++" } else { "--" }),
        EvNode::Assign(_) => "assignment".into(),
        EvNode::Cond(s, _) => match s {
            Stmt::If { .. } => "condition of `if`".into(),
            Stmt::While { .. } => "condition of `while`".into(),
            _ => "condition of `for`".into(),
        },
        EvNode::Simple(Stmt::Return { .. }) => "return".into(),
        EvNode::Simple(Stmt::Assert { .. }) => "assert".into(),
        EvNode::Simple(Stmt::Log { .. }) => "log".into(),
        EvNode::Simple(_) => "constraint".into(),
    }
}

pub fn describe_ir(st: &ir::Statement) -> String {
    format!("{st:?}")
}
