//! Shared engine: deterministic sharded proptest driver, statistics, evidence,
//! known findings, replay files and verdict/exit handling.

use proptest::collection::vec;
use proptest::prelude::*;
use proptest::test_runner::{Config, RngAlgorithm, TestCaseError, TestError, TestRng, TestRunner};
use serde_json::{json, Value};
use std::cell::RefCell;
use std::collections::{BTreeMap, HashSet};
use std::path::{Path, PathBuf};
use std::sync::atomic::{AtomicBool, AtomicU64, Ordering};
use std::sync::Mutex;
use std::time::Instant;

pub const VERIF: &str = "/verif";

#[derive(Clone, Copy, PartialEq, Eq, Debug)]
pub enum Tier {
    Quick,
    Thorough,
}

impl Tier {
    pub fn name(self) -> &'static str {
        match self {
            Tier::Quick => "quick",
            Tier::Thorough => "thorough",
        }
    }
    /// Pick the work amount for this tier.
    pub fn pick(self, quick: usize, thorough: usize) -> usize {
        match self {
            Tier::Quick => quick,
            Tier::Thorough => thorough,
        }
    }
}

pub struct Ctx {
    pub id: String,
    pub tier: Tier,
    pub seed: u64,
    pub threads: usize,
    pub repo_bin: PathBuf,
    pub scratch: PathBuf,
    pub strict: bool,
}

/// FNV-1a, used for content hashes (deterministic across runs, unlike `DefaultHasher` keys).
pub fn fnv(data: &[u8]) -> u64 {
    let mut h: u64 = 0xcbf29ce484222325;
    for b in data {
        h ^= *b as u64;
        h = h.wrapping_mul(0x100000001b3);
    }
    h
}

pub fn hex(data: &[u8]) -> String {
    data.iter().map(|b| format!("{b:02x}")).collect()
}

pub fn unhex(s: &str) -> Vec<u8> {
    let s = s.trim();
    (0..s.len() / 2).map(|i| u8::from_str_radix(&s[2 * i..2 * i + 2], 16).unwrap_or(0)).collect()
}

// ---------------------------------------------------------------------------
// Statistics shared between shards.
// ---------------------------------------------------------------------------

#[derive(Default)]
pub struct Stats {
    pub evaluations: AtomicU64,
    classes: Mutex<BTreeMap<String, u64>>,
    nontrivial: Mutex<HashSet<u64>>,
    samples: Mutex<Vec<Value>>,
    pub exhaustive: AtomicBool,
}

impl Stats {
    pub fn new() -> Stats {
        Stats::default()
    }
    pub fn eval(&self, n: u64) {
        self.evaluations.fetch_add(n, Ordering::Relaxed);
    }
    pub fn class(&self, name: &str) {
        self.class_n(name, 1);
    }
    pub fn class_n(&self, name: &str, n: u64) {
        if n == 0 {
            return;
        }
        *self.classes.lock().unwrap().entry(name.to_string()).or_insert(0) += n;
    }
    /// Record a distinct non-trivial case by content hash.
    pub fn nontrivial(&self, hash: u64) {
        self.nontrivial.lock().unwrap().insert(hash);
    }
    pub fn nontrivial_count(&self) -> u64 {
        self.nontrivial.lock().unwrap().len() as u64
    }
    pub fn sample(&self, v: Value) {
        let mut s = self.samples.lock().unwrap();
        if s.len() < 5 {
            s.push(v);
        }
    }
    pub fn want_sample(&self) -> bool {
        self.samples.lock().unwrap().len() < 5
    }
    pub fn classes_json(&self) -> Value {
        json!(*self.classes.lock().unwrap())
    }
    pub fn class_count(&self, name: &str) -> u64 {
        *self.classes.lock().unwrap().get(name).unwrap_or(&0)
    }
    /// Sum of the counts of `name` and of every class `name:<detail>`.
    pub fn class_family_count(&self, name: &str) -> u64 {
        let prefix = format!("{name}:");
        self.classes.lock().unwrap().iter().filter(|(k, _)| *k == name || k.starts_with(&prefix)).map(|(_, v)| *v).sum()
    }
    pub fn samples_json(&self) -> Vec<Value> {
        self.samples.lock().unwrap().clone()
    }
}

/// Per-case recorder: forwards to `Stats` unless recording has been turned off
/// (proptest re-runs the closure while shrinking; those runs must not count).
pub struct Rec<'a> {
    stats: &'a Stats,
    on: bool,
}

impl<'a> Rec<'a> {
    pub fn new(stats: &'a Stats, on: bool) -> Rec<'a> {
        Rec { stats, on }
    }
    pub fn eval(&self, n: u64) {
        if self.on {
            self.stats.eval(n)
        }
    }
    pub fn class(&self, name: &str) {
        if self.on {
            self.stats.class(name)
        }
    }
    pub fn class_n(&self, name: &str, n: u64) {
        if self.on {
            self.stats.class_n(name, n)
        }
    }
    pub fn nontrivial(&self, hash: u64) {
        if self.on {
            self.stats.nontrivial(hash)
        }
    }
    pub fn sample(&self, f: impl FnOnce() -> Value) {
        if self.on && self.stats.want_sample() {
            self.stats.sample(f())
        }
    }
}

// ---------------------------------------------------------------------------
// Failures
// ---------------------------------------------------------------------------

#[derive(Clone, Debug)]
pub struct Failure {
    /// Sub-check name inside the property (used to dispatch replays).
    pub check: String,
    /// The (shrunk) choice tape, or raw input bytes.
    pub tape: Vec<u8>,
    /// Human-readable reason.
    pub reason: String,
    /// Signature used for matching against known findings (may be empty).
    pub signature: String,
    /// Rendered input (source text etc.) for the reader.
    pub rendered: String,
}

/// Error type returned by oracles.
#[derive(Clone, Debug)]
pub struct Bad {
    pub reason: String,
    pub signature: String,
    pub rendered: String,
}

impl Bad {
    pub fn new(reason: impl Into<String>) -> Bad {
        Bad { reason: reason.into(), signature: String::new(), rendered: String::new() }
    }
    pub fn sig(mut self, s: impl Into<String>) -> Bad {
        self.signature = s.into();
        self
    }
    pub fn rendered(mut self, s: impl Into<String>) -> Bad {
        self.rendered = s.into();
        self
    }
}

pub type Verdict = Result<(), Bad>;

// ---------------------------------------------------------------------------
// Sharded deterministic proptest driver over byte tapes.
// ---------------------------------------------------------------------------

fn shard_seed(seed: u64, name: &str, shard: usize) -> [u8; 32] {
    let mut out = [0u8; 32];
    let h1 = fnv(format!("{seed}/{name}/{shard}/a").as_bytes());
    let h2 = fnv(format!("{seed}/{name}/{shard}/b").as_bytes());
    let h3 = fnv(format!("{seed}/{name}/{shard}/c").as_bytes());
    let h4 = fnv(format!("{seed}/{name}/{shard}/d").as_bytes());
    out[0..8].copy_from_slice(&h1.to_le_bytes());
    out[8..16].copy_from_slice(&h2.to_le_bytes());
    out[16..24].copy_from_slice(&h3.to_le_bytes());
    out[24..32].copy_from_slice(&h4.to_le_bytes());
    out
}

// ---------------------------------------------------------------------------
// Run budgets.  Checks are bounded by case counts; on the unchanged tree a quick run takes one to
// two minutes.  Against a tree that hangs or crawls on many inputs every failing case (and every
// shrink candidate) costs up to the CPU limit of a subprocess, and a quick run used to take more
// than an hour.  Two process-wide budgets bound that:
//  * a soft deadline: once it has passed no new generated case is started (the run is marked
//    `truncated` in the evidence; what was explored until then is judged as usual) and shrinking
//    stops at the smallest failing tape known so far;
//  * a shrink budget: the wall time spent in shrink candidates, summed over all sub-checks.
// Neither budget can turn a passing case into a failure or a failure into a pass: a skipped case
// is counted as not run, a skipped shrink candidate only leaves the reproducer larger.
// ---------------------------------------------------------------------------

static SOFT_DEADLINE: Mutex<Option<Instant>> = Mutex::new(None);
static SOFT_DEADLINE_S: AtomicU64 = AtomicU64::new(0);
static SHRINK_BUDGET_MS: AtomicU64 = AtomicU64::new(u64::MAX);
static SHRINK_SPENT_MS: AtomicU64 = AtomicU64::new(0);
static CASES_NOT_STARTED: AtomicU64 = AtomicU64::new(0);
static SHRINK_CANDIDATES_SKIPPED: AtomicU64 = AtomicU64::new(0);

/// Set the process-wide budgets (called once from `main`; 0 = unlimited).
pub fn set_budgets(soft_deadline_s: u64, shrink_budget_s: u64) {
    if soft_deadline_s > 0 {
        *SOFT_DEADLINE.lock().unwrap() = Some(Instant::now() + std::time::Duration::from_secs(soft_deadline_s));
        SOFT_DEADLINE_S.store(soft_deadline_s, Ordering::Relaxed);
    }
    if shrink_budget_s > 0 {
        SHRINK_BUDGET_MS.store(shrink_budget_s * 1000, Ordering::Relaxed);
    }
}

pub fn past_deadline() -> bool {
    match *SOFT_DEADLINE.lock().unwrap() {
        Some(d) => Instant::now() >= d,
        None => false,
    }
}

fn shrink_budget_left() -> bool {
    SHRINK_SPENT_MS.load(Ordering::Relaxed) < SHRINK_BUDGET_MS.load(Ordering::Relaxed) && !past_deadline()
}

fn budget_json() -> Value {
    let b = SHRINK_BUDGET_MS.load(Ordering::Relaxed);
    let (runs, slowest) = crate::binrun::run_stats();
    json!({
        "binary_runs": runs,
        "slowest_binary_run_wall_ms": slowest,
        "soft_deadline_s": SOFT_DEADLINE_S.load(Ordering::Relaxed),
        "truncated_by_soft_deadline": CASES_NOT_STARTED.load(Ordering::Relaxed) > 0,
        "cases_not_started_after_deadline": CASES_NOT_STARTED.load(Ordering::Relaxed),
        "shrink_budget_s": if b == u64::MAX { 0 } else { b / 1000 },
        "shrink_spent_s": SHRINK_SPENT_MS.load(Ordering::Relaxed) / 1000,
        "shrink_candidates_skipped": SHRINK_CANDIDATES_SKIPPED.load(Ordering::Relaxed),
    })
}

thread_local! {
    static LAST_BAD: RefCell<Option<Bad>> = const { RefCell::new(None) };
}

/// Run `cases` generated tapes (length < `max_len`) through `f`, split over
/// `ctx.threads` shards each with its own seeded proptest runner.  Returns the
/// shrunk failures (at most one per shard).
pub fn run_tapes<F>(
    ctx: &Ctx,
    name: &str,
    cases: usize,
    max_len: usize,
    stats: &Stats,
    f: F,
) -> Vec<Failure>
where
    F: Fn(&[u8], &Rec) -> Verdict + Sync,
{
    run_tapes_opts(ctx, name, cases, max_len, 2000, stats, f)
}

/// As `run_tapes` with an explicit bound on shrink iterations (expensive cases use a small one).
/// Once a shard has a shrunk failure the other shards stop generating new cases.
pub fn run_tapes_opts<F>(
    ctx: &Ctx,
    name: &str,
    cases: usize,
    max_len: usize,
    max_shrink_iters: u32,
    stats: &Stats,
    f: F,
) -> Vec<Failure>
where
    F: Fn(&[u8], &Rec) -> Verdict + Sync,
{
    let stop = AtomicBool::new(false);
    let shards = ctx.threads.max(1);
    let per = (cases + shards - 1) / shards;
    let failures: Mutex<Vec<(usize, Failure)>> = Mutex::new(Vec::new());
    std::thread::scope(|scope| {
        for shard in 0..shards {
            let f = &f;
            let failures = &failures;
            let stop = &stop;
            let name = name.to_string();
            let seed = ctx.seed;
            std::thread::Builder::new()
                .stack_size(256 << 20)
                .spawn_scoped(scope, move || {
                    let config = Config {
                        cases: per as u32,
                        failure_persistence: None,
                        max_shrink_iters,
                        max_shrink_time: 240_000,
                        max_global_rejects: 1 << 30,
                        ..Config::default()
                    };
                    let rng =
                        TestRng::from_seed(RngAlgorithm::ChaCha, &shard_seed(seed, &name, shard));
                    let mut runner = TestRunner::new_with_rng(config, rng);
                    let failed = std::cell::Cell::new(false);
                    // tapes shorter than an eighth of the maximum mostly decode to degenerate cases
                    let strategy = vec(any::<u8>(), (max_len / 8)..max_len);
                    let result = runner.run(&strategy, |tape| {
                        if !failed.get() && stop.load(Ordering::Relaxed) {
                            // another shard already has a failure: do not start new cases
                            return Ok(());
                        }
                        if !failed.get() && past_deadline() {
                            CASES_NOT_STARTED.fetch_add(1, Ordering::Relaxed);
                            return Ok(());
                        }
                        if failed.get() && !shrink_budget_left() {
                            // keep the smallest failing tape known so far
                            SHRINK_CANDIDATES_SKIPPED.fetch_add(1, Ordering::Relaxed);
                            return Ok(());
                        }
                        let rec = Rec::new(stats, !failed.get());
                        rec.eval(1);
                        let t0 = Instant::now();
                        watchdog_enter(shard, &name, &tape);
                        let verdict = f(&tape, &rec);
                        watchdog_leave(shard);
                        if failed.get() {
                            SHRINK_SPENT_MS.fetch_add(t0.elapsed().as_millis() as u64, Ordering::Relaxed);
                        }
                        match verdict {
                            Ok(()) => Ok(()),
                            Err(bad) => {
                                failed.set(true);
                                // the other shards stop starting new cases as soon as one failure is known
                                // (not only once it has been shrunk): against a tree that hangs on many
                                // inputs every further failing case costs minutes
                                stop.store(true, Ordering::Relaxed);
                                let reason = bad.reason.clone();
                                LAST_BAD.with(|b| *b.borrow_mut() = Some(bad));
                                Err(TestCaseError::fail(reason))
                            }
                        }
                    });
                    match result {
                        Ok(()) => {}
                        Err(TestError::Fail(reason, tape)) => {
                            stop.store(true, Ordering::Relaxed);
                            // Re-run the minimal tape to get its own Bad record.
                            let rec = Rec::new(stats, false);
                            let bad = match f(&tape, &rec) {
                                Err(bad) => bad,
                                Ok(()) => LAST_BAD
                                    .with(|b| b.borrow().clone())
                                    .unwrap_or_else(|| Bad::new(reason.to_string())),
                            };
                            let failure = Failure {
                                check: name.clone(),
                                tape,
                                reason: bad.reason,
                                signature: bad.signature,
                                rendered: bad.rendered,
                            };
                            EARLY_FAILURES.lock().unwrap().push(failure.clone());
                            failures.lock().unwrap().push((shard, failure));
                        }
                        Err(TestError::Abort(reason)) => {
                            eprintln!("INFRA: proptest aborted in {name} shard {shard}: {reason}");
                            std::process::exit(2);
                        }
                    }
                })
                .expect("spawn shard");
        }
    });
    let mut v = failures.into_inner().unwrap();
    v.sort_by_key(|(s, _)| *s);
    v.into_iter().map(|(_, f)| f).collect()
}

/// Run an explicit list of items in parallel, deterministic order of results.
pub fn run_items<T: Sync, F>(ctx: &Ctx, items: &[T], f: F) -> Vec<(usize, Bad)>
where
    F: Fn(usize, &T) -> Verdict + Sync,
{
    let next = AtomicU64::new(0);
    let out: Mutex<Vec<(usize, Bad)>> = Mutex::new(Vec::new());
    std::thread::scope(|scope| {
        for _ in 0..ctx.threads.max(1) {
            let f = &f;
            let next = &next;
            let out = &out;
            std::thread::Builder::new()
                .stack_size(256 << 20)
                .spawn_scoped(scope, move || loop {
                    let i = next.fetch_add(1, Ordering::Relaxed) as usize;
                    if i >= items.len() {
                        break;
                    }
                    if past_deadline() {
                        CASES_NOT_STARTED.fetch_add(1, Ordering::Relaxed);
                        continue;
                    }
                    if let Err(bad) = f(i, &items[i]) {
                        out.lock().unwrap().push((i, bad));
                    }
                })
                .expect("spawn worker");
        }
    });
    let mut v = out.into_inner().unwrap();
    v.sort_by_key(|(i, _)| *i);
    v
}

// ---------------------------------------------------------------------------
// Panic capture
// ---------------------------------------------------------------------------

thread_local! {
    static LAST_PANIC: RefCell<Option<String>> = const { RefCell::new(None) };
}

/// Install a quiet panic hook that records `file:line: message` per thread.
pub fn install_panic_hook() {
    std::panic::set_hook(Box::new(|info| {
        let loc = info
            .location()
            .map(|l| {
                let f = l.file();
                let f = f.rsplit('/').next().unwrap_or(f);
                format!("{}:{}", f, l.line())
            })
            .unwrap_or_else(|| "?".to_string());
        let msg = if let Some(s) = info.payload().downcast_ref::<&str>() {
            s.to_string()
        } else if let Some(s) = info.payload().downcast_ref::<String>() {
            s.clone()
        } else {
            "<non-string panic>".to_string()
        };
        LAST_PANIC.with(|p| *p.borrow_mut() = Some(format!("{loc}: {msg}")));
    }));
}

/// Run `f`, turning a panic into `Err("file:line: message")`.
pub fn catch<T>(f: impl FnOnce() -> T) -> Result<T, String> {
    LAST_PANIC.with(|p| *p.borrow_mut() = None);
    match std::panic::catch_unwind(std::panic::AssertUnwindSafe(f)) {
        Ok(v) => Ok(v),
        Err(_) => Err(LAST_PANIC
            .with(|p| p.borrow_mut().take())
            .unwrap_or_else(|| "panic (no message)".to_string())),
    }
}

// ---------------------------------------------------------------------------
// Known findings
// ---------------------------------------------------------------------------

#[derive(Clone, Debug)]
pub struct Known {
    pub id: String,
    pub property: String,
    pub status: String, // "known" | "fixed"
    pub check: String,
    pub signature: String,
    pub repro: String,
    pub what: String,
    pub commit: String,
}

pub fn load_known(property: &str) -> Vec<Known> {
    let path = Path::new(VERIF).join("known_findings.json");
    let Ok(text) = std::fs::read_to_string(&path) else {
        return Vec::new();
    };
    let v: Value = match serde_json::from_str(&text) {
        Ok(v) => v,
        Err(e) => {
            eprintln!("INFRA: known_findings.json does not parse: {e}");
            std::process::exit(2);
        }
    };
    let mut out = Vec::new();
    for e in v["findings"].as_array().cloned().unwrap_or_default() {
        let s = |k: &str| e[k].as_str().unwrap_or("").to_string();
        let props: Vec<String> = match &e["property"] {
            Value::String(p) => vec![p.clone()],
            Value::Array(a) => a.iter().filter_map(|x| x.as_str().map(String::from)).collect(),
            _ => vec![],
        };
        if props.iter().any(|p| p == property) {
            out.push(Known {
                id: s("id"),
                property: property.to_string(),
                status: s("status"),
                check: e["check"][property].as_str().map(String::from).unwrap_or_else(|| s("check")),
                signature: e["signature"][property]
                    .as_str()
                    .map(String::from)
                    .unwrap_or_else(|| s("signature")),
                repro: e["repro"][property].as_str().map(String::from).unwrap_or_else(|| s("repro")),
                what: s("what"),
                commit: s("commit"),
            });
        }
    }
    out
}

// ---------------------------------------------------------------------------
// Outcome: violations, known findings, evidence
// ---------------------------------------------------------------------------

pub struct Outcome {
    pub violations: Vec<Failure>,
    pub known_lines: Vec<String>,
    pub known_hits: BTreeMap<String, u64>,
    pub duplicates: BTreeMap<String, u64>,
}

impl Outcome {
    pub fn new() -> Outcome {
        Outcome { violations: Vec::new(), known_lines: Vec::new(), known_hits: BTreeMap::new(), duplicates: BTreeMap::new() }
    }

    /// Triage failures from the random search against the known findings of
    /// this property: a failure whose signature equals the signature of a
    /// `known` entry is that finding; everything else is a violation.
    pub fn absorb(&mut self, known: &[Known], failures: Vec<Failure>) {
        for f in failures {
            let hit = known
                .iter()
                .find(|k| k.status == "known" && !f.signature.is_empty() && k.signature == f.signature);
            match hit {
                Some(k) => {
                    *self.known_hits.entry(k.id.clone()).or_insert(0) += 1;
                    let line = format!("KNOWN-FINDING: property={} {} [{}]", k.property, k.what, k.id);
                    if !self.known_lines.contains(&line) {
                        self.known_lines.push(line);
                    }
                }
                None => {
                    // One violation per signature (root-cause proxy); the rest are counted.
                    if !f.signature.is_empty()
                        && self.violations.iter().any(|v| v.signature == f.signature)
                    {
                        *self.duplicates.entry(f.signature.clone()).or_insert(0) += 1;
                    } else {
                        self.violations.push(f)
                    }
                }
            }
        }
    }

    /// Record the result of replaying a committed reproducer.
    pub fn known_replay(&mut self, k: &Known, result: Verdict) {
        match (k.status.as_str(), result) {
            (_, Ok(())) => {}
            ("known", Err(bad)) => {
                // Must fail with the recorded signature (when one is recorded);
                // a different failure on the same input is a new violation.
                if k.signature.is_empty() || bad.signature == k.signature {
                    let line = format!("KNOWN-FINDING: property={} {} [{}]", k.property, k.what, k.id);
                    if !self.known_lines.contains(&line) {
                        self.known_lines.push(line);
                    }
                } else {
                    self.violations.push(Failure {
                        check: format!("{}@known:{}", k.check, k.id),
                        tape: Vec::new(),
                        reason: format!(
                            "known reproducer {} fails with a different signature: {} (expected {}): {}",
                            k.repro, bad.signature, k.signature, bad.reason
                        ),
                        signature: bad.signature,
                        rendered: k.repro.clone(),
                    });
                }
            }
            (_, Err(bad)) => {
                self.violations.push(Failure {
                    check: format!("{}@fixed:{}", k.check, k.id),
                    tape: Vec::new(),
                    reason: format!("fixed finding {} is back: {}", k.id, bad.reason),
                    signature: bad.signature,
                    rendered: k.repro.clone(),
                });
            }
        }
    }
}

pub fn write_replay(ctx: &Ctx, f: &Failure) -> PathBuf {
    let dir = Path::new(VERIF).join("replays").join(&ctx.id);
    let _ = std::fs::create_dir_all(&dir);
    let h = fnv(&[f.tape.as_slice(), f.check.as_bytes(), f.reason.as_bytes()].concat());
    let path = dir.join(format!("{}-{:016x}.json", f.check.replace(['/', '@', ':'], "_"), h));
    let v = json!({
        "property": ctx.id,
        "check": f.check,
        "seed": ctx.seed,
        "tier": ctx.tier.name(),
        "tape_hex": hex(&f.tape),
        "reason": f.reason,
        "signature": f.signature,
        "rendered": f.rendered,
    });
    let _ = std::fs::write(&path, serde_json::to_string_pretty(&v).unwrap());
    path
}

pub struct EvidenceSpec<'a> {
    pub level: &'a str,
    pub rule: &'a str,
    pub assumptions: Vec<String>,
    pub extra: Value,
}

/// Write evidence, print verdict lines and return the process exit code.
pub fn finish(ctx: &Ctx, stats: &Stats, outcome: &Outcome, spec: EvidenceSpec, start: Instant) -> i32 {
    let wall = start.elapsed().as_secs_f64();
    let evaluations = stats.evaluations.load(Ordering::Relaxed);
    let samples = stats.samples_json();
    let mut coverage = json!({
        "evaluations": evaluations,
        "distinct_nontrivial": stats.nontrivial_count(),
        "rule": spec.rule,
        "samples": samples,
        "classes": stats.classes_json(),
        "known_findings_hit_by_search": outcome.known_hits,
        "known_findings_reported": outcome.known_lines,
    });
    if stats.exhaustive.load(Ordering::Relaxed) {
        coverage["exhaustive"] = json!(true);
    }
    if spec.level == "translation_validation" {
        coverage["programs"] = json!(stats.class_count("programs").max(evaluations));
        coverage["disagreements_checked"] = json!(stats.class_count("disagreements_checked"));
    }
    if let Value::Object(m) = &spec.extra {
        for (k, v) in m {
            coverage[k] = v.clone();
        }
    }
    coverage["budgets"] = budget_json();
    let ev = json!({
        "property_id": ctx.id,
        "tier": ctx.tier.name(),
        "seed": ctx.seed,
        "level": spec.level,
        "coverage": coverage,
        "assumptions": spec.assumptions,
        "wall_s": wall,
        "violations": outcome.violations.len(),
    });
    let dir = Path::new(VERIF).join("evidence");
    let _ = std::fs::create_dir_all(&dir);
    let path = dir.join(format!("{}.json", ctx.id));
    if let Err(e) = std::fs::write(&path, serde_json::to_string_pretty(&ev).unwrap() + "\n") {
        eprintln!("INFRA: cannot write evidence {}: {e}", path.display());
        return 2;
    }
    for line in &outcome.known_lines {
        println!("{line}");
    }
    for f in &outcome.violations {
        let p = write_replay(ctx, f);
        println!("VIOLATION property={} replay={}", ctx.id, p.display());
        println!("  check={} reason={}", f.check, f.reason.replace('\n', " | "));
    }
    if CASES_NOT_STARTED.load(Ordering::Relaxed) > 0 {
        println!(
            "NOTE: the soft deadline of {} s passed: {} generated cases were not started; the verdict covers what was explored until then",
            SOFT_DEADLINE_S.load(Ordering::Relaxed),
            CASES_NOT_STARTED.load(Ordering::Relaxed)
        );
    }
    println!(
        "{} {} seed={} evaluations={} distinct_nontrivial={} violations={} wall={:.1}s",
        ctx.id,
        ctx.tier.name(),
        ctx.seed,
        evaluations,
        stats.nontrivial_count(),
        outcome.violations.len(),
        wall
    );
    if outcome.violations.is_empty() {
        0
    } else {
        1
    }
}

/// Tape reader: deterministic decoding of a byte tape into choices.  An
/// exhausted tape yields 0 (the smallest alternative).
pub struct Tape<'a> {
    data: &'a [u8],
    pos: usize,
}

impl<'a> Tape<'a> {
    pub fn new(data: &'a [u8]) -> Tape<'a> {
        Tape { data, pos: 0 }
    }
    pub fn byte(&mut self) -> u8 {
        let b = self.data.get(self.pos).copied().unwrap_or(0);
        self.pos += 1;
        b
    }
    pub fn exhausted(&self) -> bool {
        self.pos >= self.data.len()
    }
    /// Monotone choice in `0..n` (smaller byte → smaller alternative).
    pub fn below(&mut self, n: usize) -> usize {
        if n <= 1 {
            return 0;
        }
        if n <= 256 {
            (self.byte() as usize * n) >> 8
        } else {
            let v = ((self.byte() as usize) << 8) | self.byte() as usize;
            (v * n) >> 16
        }
    }
    pub fn range(&mut self, lo: usize, hi_incl: usize) -> usize {
        lo + self.below(hi_incl - lo + 1)
    }
    /// True with probability about `num/256`.
    pub fn chance(&mut self, num: u32) -> bool {
        (self.byte() as u32) >= 256 - num.min(256)
    }
    pub fn u64(&mut self) -> u64 {
        let mut v = 0u64;
        for _ in 0..8 {
            v = (v << 8) | self.byte() as u64;
        }
        v
    }
    pub fn pick<'b, T>(&mut self, items: &'b [T]) -> &'b T {
        &items[self.below(items.len())]
    }
    pub fn remaining(&self) -> usize {
        self.data.len().saturating_sub(self.pos)
    }
}

// ---------------------------------------------------------------------------
// Coverage-guided stage (thorough tier): cargo-fuzz / libFuzzer targets in /verif/fuzz
// ---------------------------------------------------------------------------

pub struct FuzzOutcome {
    /// false when the stage could not run (no nightly toolchain, build failure): recorded, not a verdict
    pub ran: bool,
    pub execs: u64,
    pub note: String,
    /// crashing inputs written by libFuzzer (to be confirmed by the deterministic engine)
    pub artifacts: Vec<Vec<u8>>,
}

/// Build (once) and run a libFuzzer target with `jobs` parallel instances of `runs` executions each,
/// from a fresh corpus directory seeded with `seeds`. Crashes are returned as artifacts, never judged here.
pub fn run_fuzz_target(ctx: &Ctx, target: &str, jobs: usize, runs: u64, max_len: usize, seeds: &[Vec<u8>]) -> FuzzOutcome {
    use std::process::Command;
    let base = PathBuf::from(format!("/verif/target/fuzzrun/{}-{}", target, std::process::id()));
    let _ = std::fs::remove_dir_all(&base);
    let build = Command::new("cargo")
        .args(["+nightly", "fuzz", "build", "--fuzz-dir", "/verif/fuzz", "--target-dir", "/verif/target/fuzz", target])
        .env("CARGO_NET_OFFLINE", "true")
        .output();
    match build {
        Ok(o) if o.status.success() => {}
        Ok(o) => {
            return FuzzOutcome { ran: false, execs: 0, note: format!("cargo fuzz build failed: {}", String::from_utf8_lossy(&o.stderr).lines().last().unwrap_or("")), artifacts: vec![] }
        }
        Err(e) => return FuzzOutcome { ran: false, execs: 0, note: format!("cargo fuzz not available: {e}"), artifacts: vec![] },
    }
    let execs = AtomicU64::new(0);
    let artifacts: Mutex<Vec<Vec<u8>>> = Mutex::new(Vec::new());
    let notes: Mutex<Vec<String>> = Mutex::new(Vec::new());
    std::thread::scope(|scope| {
        for j in 0..jobs {
            let base = base.clone();
            let execs = &execs;
            let artifacts = &artifacts;
            let notes = &notes;
            scope.spawn(move || {
                let corpus = base.join(format!("corpus{j}"));
                let arts = base.join(format!("artifacts{j}"));
                let _ = std::fs::create_dir_all(&corpus);
                let _ = std::fs::create_dir_all(&arts);
                // odd jobs start from an empty corpus, even jobs from the seeds
                if j % 2 == 0 {
                    for (k, s) in seeds.iter().enumerate() {
                        let _ = std::fs::write(corpus.join(format!("seed{k}")), s);
                    }
                }
                let out = Command::new("cargo")
                    .args(["+nightly", "fuzz", "run", "--fuzz-dir", "/verif/fuzz", "--target-dir", "/verif/target/fuzz", target])
                    .arg(&corpus)
                    .arg("--")
                    .arg(format!("-runs={runs}"))
                    .arg(format!("-seed={}", ctx.seed.wrapping_mul(31).wrapping_add(j as u64 + 1)))
                    .arg(format!("-max_len={max_len}"))
                    .arg("-len_control=0")
                    .arg("-timeout=120")
                    .arg("-rss_limit_mb=4096")
                    .arg("-print_final_stats=1")
                    .arg(format!("-artifact_prefix={}/", arts.display()))
                    .env("CARGO_NET_OFFLINE", "true")
                    .output();
                match out {
                    Ok(o) => {
                        let err = String::from_utf8_lossy(&o.stderr);
                        for l in err.lines() {
                            if let Some(n) = l.strip_prefix("stat::number_of_executed_units:") {
                                execs.fetch_add(n.trim().parse::<u64>().unwrap_or(0), Ordering::Relaxed);
                            }
                        }
                        if let Ok(rd) = std::fs::read_dir(&arts) {
                            for e in rd.flatten() {
                                if let Ok(b) = std::fs::read(e.path()) {
                                    artifacts.lock().unwrap().push(b);
                                }
                            }
                        }
                        if !o.status.success() {
                            notes.lock().unwrap().push(format!("job {j}: libFuzzer exit {:?}: {}", o.status.code(), err.lines().filter(|l| l.contains("ORACLE-FAILURE") || l.contains("ERROR:")).next().unwrap_or("")));
                        }
                    }
                    Err(e) => notes.lock().unwrap().push(format!("job {j}: cannot run cargo fuzz: {e}")),
                }
            });
        }
    });
    let _ = std::fs::remove_dir_all(&base);
    FuzzOutcome {
        ran: true,
        execs: execs.load(Ordering::Relaxed),
        note: notes.into_inner().unwrap().join(" | "),
        artifacts: artifacts.into_inner().unwrap(),
    }
}

/// Run a libFuzzer target in the thorough tier and confirm every artifact with the deterministic
/// oracle `confirm` (only confirmed artifacts become violations). Returns a summary for the evidence.
#[allow(clippy::too_many_arguments)]
pub fn fuzz_stage(
    ctx: &Ctx,
    stats: &Stats,
    outcome: &mut Outcome,
    known: &[Known],
    target: &str,
    jobs: usize,
    runs: u64,
    max_len: usize,
    seeds: &[Vec<u8>],
    confirm: &dyn Fn(&[u8]) -> Verdict,
) -> Value {
    if ctx.tier != Tier::Thorough {
        return json!({"stage": "not run in the quick tier"});
    }
    let fo = run_fuzz_target(ctx, target, jobs, runs, max_len, seeds);
    stats.eval(fo.execs);
    stats.class_n(&format!("libfuzzer:{target}:executions"), fo.execs);
    let mut confirmed = 0;
    for a in &fo.artifacts {
        if let Err(b) = confirm(a) {
            confirmed += 1;
            outcome.absorb(
                known,
                vec![Failure { check: format!("fuzz_{target}"), tape: a.clone(), reason: b.reason, signature: b.signature, rendered: b.rendered }],
            );
        }
    }
    json!({"target": target, "ran": fo.ran, "executions": fo.execs, "artifacts": fo.artifacts.len(), "confirmed": confirmed, "note": fo.note})
}


/// Run jobs on detached worker threads so that a job that never returns (a non-terminating
/// function under test) cannot block the verdict: once a failure is known the remaining jobs get
/// `grace` to finish; with no failure and no progress for `idle_limit` the run is declared hung.
/// Returns (failures, hung).
pub fn run_detached<T: Send + Sync + 'static>(
    jobs: Vec<T>,
    workers: usize,
    f: std::sync::Arc<dyn Fn(usize, &T) -> Verdict + Send + Sync>,
    grace: std::time::Duration,
    idle_limit: std::time::Duration,
) -> (Vec<(usize, Bad)>, bool) {
    use std::sync::mpsc;
    use std::sync::Arc;
    let n = jobs.len();
    let jobs = Arc::new(jobs);
    let next = Arc::new(AtomicU64::new(0));
    let (tx, rx) = mpsc::channel::<(usize, Verdict)>();
    for _ in 0..workers.max(1) {
        let jobs = jobs.clone();
        let next = next.clone();
        let tx = tx.clone();
        let f = f.clone();
        let _ = std::thread::Builder::new().stack_size(64 << 20).spawn(move || loop {
            let i = next.fetch_add(1, Ordering::Relaxed) as usize;
            if i >= jobs.len() {
                break;
            }
            let r = f(i, &jobs[i]);
            if tx.send((i, r)).is_err() {
                break;
            }
        });
    }
    drop(tx);
    let mut done = 0usize;
    let mut fails = Vec::new();
    let mut first_failure: Option<Instant> = None;
    let mut last_progress = Instant::now();
    let mut hung = false;
    while done < n {
        match rx.recv_timeout(std::time::Duration::from_millis(500)) {
            Ok((i, r)) => {
                done += 1;
                last_progress = Instant::now();
                if let Err(b) = r {
                    fails.push((i, b));
                    first_failure.get_or_insert_with(Instant::now);
                }
            }
            Err(mpsc::RecvTimeoutError::Timeout) => {
                if let Some(t0) = first_failure {
                    if t0.elapsed() > grace {
                        hung = true;
                        break;
                    }
                }
                if last_progress.elapsed() > idle_limit {
                    hung = true;
                    break;
                }
            }
            Err(mpsc::RecvTimeoutError::Disconnected) => break,
        }
    }
    fails.sort_by_key(|(i, _)| *i);
    (fails, hung)
}


// ---------------------------------------------------------------------------
// Per-case watchdog: a generated case that does not come back (a non-terminating function under
// an in-process check) would otherwise block the run for ever.  The case's tape is saved and the
// run ends with the infrastructure status (2): a hang is not a verdict on the property checked.
// ---------------------------------------------------------------------------

struct InFlight {
    since: Instant,
    name: String,
    tape: Vec<u8>,
    /// the case has started the release binary (which runs under its own CPU limits): the long
    /// limit applies; a case that only calls library code in-process gets the short one
    binary: bool,
}

thread_local! {
    static CURRENT_SHARD: std::cell::Cell<Option<usize>> = const { std::cell::Cell::new(None) };
}

/// Called by `binrun::run`: the case in flight on this thread runs a subprocess.
pub fn watchdog_note_binary() {
    if let Some(shard) = CURRENT_SHARD.with(|c| c.get()) {
        let mut g = IN_FLIGHT.lock().unwrap();
        if let Some(Some(slot)) = g.get_mut(shard) {
            slot.binary = true;
        }
    }
}

static IN_FLIGHT: Mutex<Vec<Option<InFlight>>> = Mutex::new(Vec::new());

/// Failures already shrunk and recorded by some shard: if another case then never returns, the
/// watchdog still reports these (they are verdicts) instead of discarding them with the run.
static EARLY_FAILURES: Mutex<Vec<Failure>> = Mutex::new(Vec::new());

fn watchdog_enter(shard: usize, name: &str, tape: &[u8]) {
    let mut g = IN_FLIGHT.lock().unwrap();
    if g.len() <= shard {
        g.resize_with(shard + 1, || None);
    }
    g[shard] = Some(InFlight { since: Instant::now(), name: name.to_string(), tape: tape.to_vec(), binary: false });
    CURRENT_SHARD.with(|c| c.set(Some(shard)));
}

fn watchdog_leave(shard: usize) {
    let mut g = IN_FLIGHT.lock().unwrap();
    if let Some(slot) = g.get_mut(shard) {
        *slot = None;
    }
    CURRENT_SHARD.with(|c| c.set(None));
}

/// Start the monitor thread (once per process).
pub fn start_watchdog(property: &str, in_process_limit: std::time::Duration, binary_limit: std::time::Duration, seed: u64, tier: Tier) {
    let property = property.to_string();
    let ctx = Ctx {
        id: property.clone(),
        tier,
        seed,
        threads: 1,
        repo_bin: PathBuf::new(),
        scratch: PathBuf::new(),
        strict: false,
    };
    let _ = std::thread::Builder::new().name("watchdog".into()).spawn(move || loop {
        std::thread::sleep(std::time::Duration::from_secs(5));
        let g = IN_FLIGHT.lock().unwrap();
        for slot in g.iter().flatten() {
            let limit = if slot.binary { binary_limit } else { in_process_limit };
            if slot.since.elapsed() > limit {
                let dir = format!("/verif/replays/{property}");
                let _ = std::fs::create_dir_all(&dir);
                let path = format!("{dir}/hang-{:016x}.json", fnv(&slot.tape));
                let _ = std::fs::write(
                    &path,
                    serde_json::to_string_pretty(&json!({
                        "property": property,
                        "check": slot.name,
                        "tape_hex": hex(&slot.tape),
                        "reason": format!("case did not finish within {} s", limit.as_secs()),
                    }))
                    .unwrap(),
                );
                eprintln!(
                    "INFRA: watchdog: a case of sub-check {} did not finish within {} s; tape saved to {path}",
                    slot.name,
                    limit.as_secs()
                );
                // violations that were already established are still reported
                let known = load_known(&property);
                let mut outcome = Outcome::new();
                let early = std::mem::take(&mut *EARLY_FAILURES.lock().unwrap());
                outcome.absorb(&known, early);
                if !outcome.violations.is_empty() {
                    for v in &outcome.violations {
                        let p = write_replay(&ctx, v);
                        println!("VIOLATION property={} replay={}", property, p.display());
                        println!("  check={} reason={}", v.check, v.reason.chars().take(600).collect::<String>());
                    }
                    println!("{} {} seed={} run cut short by the watchdog after {} violation(s) had been established", property, ctx.tier.name(), seed, outcome.violations.len());
                    std::process::exit(1);
                }
                std::process::exit(2);
            }
        }
    });
}
