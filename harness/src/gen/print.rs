//! Printer: generator AST -> token stream + token range per node id; renderer:
//! token stream + trivia -> source text + byte span per node id.

use super::ast::*;
use crate::field::{Op, UnOp};
use std::collections::HashMap;

#[derive(Clone, Copy, Debug, PartialEq, Eq)]
pub enum EndKind {
    /// span ends at the end of the node's last token (`@R`)
    AtEnd,
    /// span ends at the start of the following token (`@L` used as end in the grammar)
    AtNextStart,
}

#[derive(Clone, Debug, Default)]
pub struct Printed {
    pub tokens: Vec<String>,
    /// id -> (first token, last token, end kind)
    pub ranges: HashMap<Id, (usize, usize, EndKind)>,
}

impl Printed {
    fn tok(&mut self, s: &str) {
        self.tokens.push(s.to_string());
    }
    fn mark(&mut self, id: Id, first: usize, kind: EndKind) {
        let last = self.tokens.len().saturating_sub(1);
        self.ranges.insert(id, (first, last, kind));
    }
}

/// Binding tier of an expression as the grammar sees it (lower binds tighter).
pub fn tier(e: &Expr) -> u8 {
    match e {
        Expr::Num { .. } | Expr::Var { .. } | Expr::Underscore { .. } => 0,
        Expr::Call { .. } | Expr::ArrayLit { .. } | Expr::Tuple { .. } | Expr::Anon { .. } => 1,
        Expr::Prefix { .. } => 2,
        Expr::Infix { op, .. } => op_tier(*op),
        Expr::Ternary { .. } => 13,
        Expr::Parallel { .. } => 14,
    }
}

pub fn op_tier(op: Op) -> u8 {
    match op {
        Op::Pow => 3,
        Op::Mul | Op::Div | Op::IntDiv | Op::Mod => 4,
        Op::Add | Op::Sub => 5,
        Op::ShiftL | Op::ShiftR => 6,
        Op::BitAnd => 7,
        Op::BitXor => 8,
        Op::BitOr => 9,
        Op::Lt | Op::Le | Op::Gt | Op::Ge | Op::Eq | Op::Ne => 10,
        Op::BoolAnd => 11,
        Op::BoolOr => 12,
    }
}

pub struct Printer {
    pub out: Printed,
    /// Parenthesise every compound operand even where precedence makes it unnecessary.
    pub always_paren: bool,
}

impl Printer {
    pub fn new(always_paren: bool) -> Printer {
        Printer { out: Printed::default(), always_paren }
    }

    /// Print `e` in a position that accepts tiers <= `max`.
    pub fn expr(&mut self, e: &Expr, max: u8) {
        let t = tier(e);
        let paren = t > max || (self.always_paren && t >= 2 && max < 14);
        if paren {
            self.out.tok("(");
        }
        let first = self.out.tokens.len();
        match e {
            Expr::Num { id, text, .. } => {
                self.out.tok(text);
                self.out.mark(*id, first, EndKind::AtNextStart);
            }
            Expr::Underscore { id } => {
                self.out.tok("_");
                self.out.mark(*id, first, EndKind::AtNextStart);
            }
            Expr::Var { id, name, access } => {
                self.out.tok(name);
                self.access(access);
                self.out.mark(*id, first, EndKind::AtNextStart);
            }
            Expr::Infix { id, op, l, r } => {
                let t = op_tier(*op);
                self.expr(l, t);
                self.out.tok(op.symbol());
                self.expr(r, t - 1);
                self.out.mark(*id, first, EndKind::AtEnd);
            }
            Expr::Prefix { id, op, e } => {
                self.out.tok(op.symbol());
                self.expr(e, 1);
                self.out.mark(*id, first, EndKind::AtEnd);
            }
            Expr::Ternary { id, c, a, b } => {
                self.expr(c, 12);
                self.out.tok("?");
                self.expr(a, 12);
                self.out.tok(":");
                self.expr(b, 12);
                self.out.mark(*id, first, EndKind::AtEnd);
            }
            Expr::Call { id, name, args } => {
                self.out.tok(name);
                self.out.tok("(");
                self.list(args);
                self.out.tok(")");
                self.out.mark(*id, first, EndKind::AtEnd);
            }
            Expr::ArrayLit { id, elems } => {
                self.out.tok("[");
                self.list(elems);
                self.out.tok("]");
                self.out.mark(*id, first, EndKind::AtEnd);
            }
            Expr::Tuple { id, elems } => {
                self.out.tok("(");
                self.list(elems);
                self.out.tok(")");
                self.out.mark(*id, first, EndKind::AtEnd);
            }
            Expr::Anon { id, name, params, inputs, names } => {
                self.out.tok(name);
                self.out.tok("(");
                self.list(params);
                self.out.tok(")");
                self.out.tok("(");
                match names {
                    None => self.list(inputs),
                    Some(ns) => {
                        for (i, (inp, (op, n))) in inputs.iter().zip(ns.iter()).enumerate() {
                            if i > 0 {
                                self.out.tok(",");
                            }
                            self.out.tok(n);
                            self.out.tok(op.symbol());
                            self.expr(inp, 14);
                        }
                    }
                }
                self.out.tok(")");
                self.out.mark(*id, first, EndKind::AtEnd);
            }
            Expr::Parallel { id, e } => {
                self.out.tok("parallel");
                self.expr(e, 13);
                self.out.mark(*id, first, EndKind::AtNextStart);
            }
        }
        if paren {
            self.out.tok(")");
        }
    }

    fn list(&mut self, es: &[Expr]) {
        for (i, e) in es.iter().enumerate() {
            if i > 0 {
                self.out.tok(",");
            }
            self.expr(e, 14);
        }
    }

    fn access(&mut self, access: &[Access]) {
        for a in access {
            match a {
                Access::Index(e) => {
                    self.out.tok("[");
                    self.expr(e, 14);
                    self.out.tok("]");
                }
                Access::Field(f) => {
                    self.out.tok(".");
                    self.out.tok(f);
                }
            }
        }
    }

    fn decl_header(&mut self, kind: &DeclKind) {
        match kind {
            DeclKind::Var => self.out.tok("var"),
            DeclKind::Component => self.out.tok("component"),
            DeclKind::Signal(k, tags) => {
                self.out.tok("signal");
                match k {
                    SigKind::Input => self.out.tok("input"),
                    SigKind::Output => self.out.tok("output"),
                    SigKind::Intermediate => {}
                }
                if !tags.is_empty() {
                    self.out.tok("{");
                    for (i, t) in tags.iter().enumerate() {
                        if i > 0 {
                            self.out.tok(",");
                        }
                        self.out.tok(t);
                    }
                    self.out.tok("}");
                }
            }
        }
    }

    /// Print a statement that is *not* followed by its own `;` handling by the
    /// caller: the `;` is printed here where the grammar requires one.
    pub fn stmt(&mut self, s: &Stmt) {
        self.stmt_inner(s, true)
    }

    /// `semi = false` is used for the init/step positions of a `for` header.
    fn stmt_inner(&mut self, s: &Stmt, semi: bool) {
        let first = self.out.tokens.len();
        match s {
            Stmt::Decl { id, kind, syms, init_op } => {
                self.decl_header(kind);
                for (i, sym) in syms.iter().enumerate() {
                    if i > 0 {
                        self.out.tok(",");
                    }
                    self.out.tok(&sym.name);
                    for d in &sym.dims {
                        self.out.tok("[");
                        self.expr(d, 14);
                        self.out.tok("]");
                    }
                    if let Some(init) = &sym.init {
                        self.out.tok(init_op.symbol());
                        self.expr(init, 14);
                    }
                }
                self.out.mark(*id, first, EndKind::AtEnd);
                for sym in syms {
                    self.out.mark(sym.id, first, EndKind::AtEnd);
                    self.out.mark(sym.sub_id, first, EndKind::AtEnd);
                }
                if semi {
                    self.out.tok(";");
                }
            }
            Stmt::TupleDecl { id, kind, syms, init } => {
                self.decl_header(kind);
                self.out.tok("(");
                for (i, sym) in syms.iter().enumerate() {
                    if i > 0 {
                        self.out.tok(",");
                    }
                    self.out.tok(&sym.name);
                    for d in &sym.dims {
                        self.out.tok("[");
                        self.expr(d, 14);
                        self.out.tok("]");
                    }
                }
                self.out.tok(")");
                if let Some((op, e)) = init {
                    self.out.tok(op.symbol());
                    self.expr(e, 14);
                }
                self.out.mark(*id, first, EndKind::AtEnd);
                for sym in syms {
                    self.out.mark(sym.id, first, EndKind::AtEnd);
                    self.out.mark(sym.sub_id, first, EndKind::AtEnd);
                }
                if semi {
                    self.out.tok(";");
                }
            }
            Stmt::Assign { id, lhs, op, rhs, reversed } => {
                if *reversed {
                    self.expr(rhs, 14);
                    self.out.tok(op.reverse_symbol());
                    self.expr(lhs, 14);
                } else {
                    self.expr(lhs, 14);
                    self.out.tok(op.symbol());
                    self.expr(rhs, 14);
                }
                self.out.mark(*id, first, EndKind::AtEnd);
                if semi {
                    self.out.tok(";");
                }
            }
            Stmt::Compound { id, name, access, op, rhs } => {
                self.out.tok(name);
                self.access(access);
                self.out.tok(&format!("{}=", op.symbol()));
                self.expr(rhs, 14);
                self.out.mark(*id, first, EndKind::AtEnd);
                if semi {
                    self.out.tok(";");
                }
            }
            Stmt::IncDec { id, name, access, inc } => {
                self.out.tok(name);
                self.access(access);
                self.out.tok(if *inc { "++" } else { "--" });
                self.out.mark(*id, first, EndKind::AtEnd);
                if semi {
                    self.out.tok(";");
                }
            }
            Stmt::If { id, cond, then, els } => {
                self.out.tok("if");
                self.out.tok("(");
                self.expr(cond, 14);
                self.out.tok(")");
                self.stmt(then);
                if let Some(e) = els {
                    self.out.tok("else");
                    self.stmt(e);
                }
                self.out.mark(*id, first, EndKind::AtEnd);
            }
            Stmt::While { id, cond, body } => {
                self.out.tok("while");
                self.out.tok("(");
                self.expr(cond, 14);
                self.out.tok(")");
                self.stmt(body);
                self.out.mark(*id, first, EndKind::AtEnd);
            }
            Stmt::For { id, init, cond, step, body } => {
                self.out.tok("for");
                self.out.tok("(");
                self.stmt_inner(init, false);
                self.out.tok(";");
                self.expr(cond, 14);
                self.out.tok(";");
                self.stmt_inner(step, false);
                self.out.tok(")");
                self.stmt(body);
                self.out.mark(*id, first, EndKind::AtEnd);
            }
            Stmt::Return { id, e } => {
                self.out.tok("return");
                self.expr(e, 14);
                self.out.tok(";");
                self.out.mark(*id, first, EndKind::AtEnd);
            }
            Stmt::ConstraintEq { id, l, r } => {
                self.expr(l, 14);
                self.out.tok("===");
                self.expr(r, 14);
                self.out.tok(";");
                self.out.mark(*id, first, EndKind::AtEnd);
            }
            Stmt::Assert { id, e } => {
                self.out.tok("assert");
                self.out.tok("(");
                self.expr(e, 14);
                self.out.tok(")");
                self.out.tok(";");
                self.out.mark(*id, first, EndKind::AtEnd);
            }
            Stmt::Log { id, args } => {
                self.out.tok("log");
                self.out.tok("(");
                for (i, a) in args.iter().enumerate() {
                    if i > 0 {
                        self.out.tok(",");
                    }
                    match a {
                        LogArg::Str(s) => self.out.tok(&format!("\"{s}\"")),
                        LogArg::Expr(e) => self.expr(e, 14),
                    }
                }
                self.out.tok(")");
                self.out.tok(";");
                self.out.mark(*id, first, EndKind::AtEnd);
            }
            Stmt::Block { id, stmts } => {
                self.out.tok("{");
                for s in stmts {
                    self.stmt(s);
                }
                self.out.tok("}");
                self.out.mark(*id, first, EndKind::AtEnd);
            }
            Stmt::ExprStmt { id, e } => {
                self.expr(e, 14);
                self.out.tok(";");
                self.out.mark(*id, first, EndKind::AtEnd);
            }
        }
    }

    pub fn def(&mut self, d: &Def) {
        let first = self.out.tokens.len();
        match &d.kind {
            DefKind::Function => self.out.tok("function"),
            DefKind::Template { custom, parallel } => {
                self.out.tok("template");
                if *custom {
                    self.out.tok("custom");
                }
                if *parallel {
                    self.out.tok("parallel");
                }
            }
        }
        self.out.tok(&d.name);
        self.out.tok("(");
        let pfirst = self.out.tokens.len();
        for (i, p) in d.params.iter().enumerate() {
            if i > 0 {
                self.out.tok(",");
            }
            self.out.tok(p);
        }
        if !d.params.is_empty() {
            self.out.mark(d.params_id, pfirst, EndKind::AtEnd);
        }
        self.out.tok(")");
        self.stmt(&d.body);
        self.out.mark(d.id, first, EndKind::AtEnd);
    }

    pub fn file(&mut self, f: &File) {
        if let Some((a, b, c)) = f.version {
            self.out.tok("pragma circom");
            self.out.tok(&a.to_string());
            self.out.tok(".");
            self.out.tok(&b.to_string());
            self.out.tok(".");
            self.out.tok(&c.to_string());
            self.out.tok(";");
        }
        if f.custom_templates {
            self.out.tok("pragma");
            self.out.tok("custom_templates");
            self.out.tok(";");
        }
        for inc in &f.includes {
            let first = self.out.tokens.len();
            self.out.tok("include");
            self.out.tok(&format!("\"{}\"", inc.path));
            self.out.tok(";");
            self.out.mark(inc.id, first, EndKind::AtNextStart);
        }
        for d in &f.defs {
            self.def(d);
        }
        if let Some(m) = &f.main {
            let first = self.out.tokens.len();
            self.out.tok("component");
            self.out.tok("main");
            if let Some(p) = &m.public {
                self.out.tok("{");
                self.out.tok("public");
                self.out.tok("[");
                for (i, n) in p.iter().enumerate() {
                    if i > 0 {
                        self.out.tok(",");
                    }
                    self.out.tok(n);
                }
                self.out.tok("]");
                self.out.tok("}");
            }
            self.out.tok("=");
            self.expr(&m.init, 14);
            self.out.tok(";");
            self.out.mark(m.id, first, EndKind::AtNextStart);
        }
    }
}

pub fn print_file(f: &File, always_paren: bool) -> Printed {
    let mut p = Printer::new(always_paren);
    p.file(f);
    p.out
}

pub fn print_def(d: &Def, always_paren: bool) -> Printed {
    let mut p = Printer::new(always_paren);
    p.def(d);
    p.out
}

/// Rendered source with byte ranges of tokens.
#[derive(Clone, Debug)]
pub struct Rendered {
    pub src: String,
    /// byte range of every token
    pub toks: Vec<(usize, usize)>,
    pub ranges: HashMap<Id, (usize, usize, EndKind)>,
}

impl Rendered {
    /// Byte span of node `id` as the grammar records it.
    pub fn span(&self, id: Id) -> Option<(usize, usize)> {
        let (f, l, k) = *self.ranges.get(&id)?;
        let start = self.toks.get(f)?.0;
        let end = match k {
            EndKind::AtEnd => self.toks.get(l)?.1,
            EndKind::AtNextStart => self.toks.get(l + 1).map(|t| t.0).unwrap_or(self.src.len()),
        };
        Some((start, end))
    }
    /// Byte span ending at the node's last token regardless of the grammar's end kind.
    pub fn tight_span(&self, id: Id) -> Option<(usize, usize)> {
        let (f, l, _) = *self.ranges.get(&id)?;
        Some((self.toks.get(f)?.0, self.toks.get(l)?.1))
    }
    pub fn text(&self, id: Id) -> Option<&str> {
        let (s, e) = self.tight_span(id)?;
        self.src.get(s..e)
    }
}

/// `trivia[i]` is placed before token i; `trivia[n]` after the last token.
pub fn render(p: &Printed, trivia: &[String]) -> Rendered {
    let mut src = String::new();
    let mut toks = Vec::with_capacity(p.tokens.len());
    for (i, t) in p.tokens.iter().enumerate() {
        if let Some(tr) = trivia.get(i) {
            src.push_str(tr);
        }
        let s = src.len();
        src.push_str(t);
        toks.push((s, src.len()));
    }
    if let Some(tr) = trivia.get(p.tokens.len()) {
        src.push_str(tr);
    }
    Rendered { src, toks, ranges: p.ranges.clone() }
}

/// Plain layout: one blank between tokens, newline after `;`, `{`, `}`.
pub fn plain_trivia(p: &Printed) -> Vec<String> {
    let mut v = Vec::with_capacity(p.tokens.len() + 1);
    v.push(String::new());
    let mut depth = 0i32;
    for i in 1..p.tokens.len() {
        let prev = p.tokens[i - 1].as_str();
        match prev {
            "(" => depth += 1,
            ")" => depth -= 1,
            _ => {}
        }
        if matches!(prev, ";" | "{" | "}") && depth == 0 {
            v.push("\n".to_string());
        } else {
            v.push(" ".to_string());
        }
    }
    v.push("\n".to_string());
    v
}

pub fn render_plain(p: &Printed) -> Rendered {
    render(p, &plain_trivia(p))
}

#[allow(dead_code)]
pub fn unop_symbol(op: UnOp) -> &'static str {
    op.symbol()
}
