//! Multi-file project generator (`proj` profile): 1-3 files, includes, several
//! definitions per file that call / instantiate each other, optional main component.

use super::ast::*;
use super::print::{print_file, render, Printed, Rendered};
use super::prog::{gen_def, Profile, TemplateSig};
use super::text::{random_trivia, LayoutOpts};
use crate::engine::Tape;
use crate::field;

pub struct GenFile {
    pub rel: String,
    pub ast: File,
    pub printed: Printed,
    pub r: Rendered,
    pub always_paren: bool,
}

pub struct GenProject {
    pub files: Vec<GenFile>,
    /// indices of the files named on the command line
    pub named: Vec<usize>,
    /// definitions made to fail SSA conversion (with a CFG-stage warning on the way)
    pub failing_defs: usize,
    /// failing templates that a later template may instantiate
    pub failing_templates: Vec<String>,
    /// files that start with a byte order mark
    pub bom_files: usize,
    /// templates that received tuple / anonymous-component statements
    pub sugared_defs: usize,
    /// templates that instantiate themselves
    pub recursive_templates: usize,
}

#[derive(Clone, Copy, Debug)]
pub struct ProjOpts {
    pub max_files: usize,
    pub max_defs: usize,
    pub comments: bool,
    pub main_component: bool,
    /// every generated definition lifts and analyses (no deliberate errors)
    pub clean: bool,
    /// chance (of 256) that a file starts with a UTF-8 byte order mark
    pub bom_chance: u32,
    /// chance (of 256) that a template gets tuple / anonymous-component statements
    pub sugar_chance: u32,
    /// chance (of 256) that an earlier (possibly included) file is named on the command line too,
    /// and that the named files are given with the included ones first
    pub name_more_chance: u32,
    pub reverse_chance: u32,
}

impl Default for ProjOpts {
    fn default() -> Self {
        ProjOpts { max_files: 3, max_defs: 4, comments: true, main_component: true, clean: false, bom_chance: 0, sugar_chance: 0, name_more_chance: 100, reverse_chance: 60 }
    }
}

/// Signature of a generated template, if it can be instantiated by the
/// generator (all inputs scalar).
pub fn template_sig(d: &Def) -> Option<TemplateSig> {
    if !matches!(d.kind, DefKind::Template { .. }) {
        return None;
    }
    let mut inputs = Vec::new();
    let mut outputs = Vec::new();
    let Stmt::Block { stmts, .. } = &d.body else { return None };
    for s in stmts {
        if let Stmt::Decl { kind: DeclKind::Signal(k, _), syms, .. } = s {
            for sym in syms {
                match k {
                    SigKind::Input => {
                        if !sym.dims.is_empty() {
                            return None;
                        }
                        inputs.push(sym.name.clone());
                    }
                    SigKind::Output => {
                        if sym.dims.is_empty() {
                            outputs.push(sym.name.clone());
                        }
                    }
                    SigKind::Intermediate => {}
                }
            }
        }
    }
    Some(TemplateSig { name: d.name.clone(), params: d.params.len(), inputs, outputs })
}

/// Prepend `{ var <p> = 0; }` (shadowing warning) and `var zu; var zw = zu + 1;` (SSA error).
fn make_failing(d: &mut Def, ids: &mut Ids, sibling_branch: bool) {
    let Stmt::Block { stmts, .. } = &mut d.body else { return };
    let shadowed = d.params.first().cloned().unwrap_or_else(|| "zu".to_string());
    let mut pre = Vec::new();
    let zu = Stmt::Decl {
        id: ids.next(),
        kind: DeclKind::Var,
        syms: vec![DeclSym { id: ids.next(), sub_id: ids.next(), name: "zu".into(), dims: vec![], init: None }],
        init_op: AssignOp::Var,
    };
    pre.push(zu);
    let inner = Stmt::Decl {
        id: ids.next(),
        kind: DeclKind::Var,
        syms: vec![DeclSym { id: ids.next(), sub_id: ids.next(), name: shadowed, dims: vec![], init: Some(num(ids, 0)) }],
        init_op: AssignOp::Var,
    };
    pre.push(Stmt::Block { id: ids.next(), stmts: vec![inner] });
    let read = var(ids, "zu");
    let one = num(ids, 1);
    let rhs = infix(ids, crate::field::Op::Add, read, one);
    let use_it = Stmt::Decl {
        id: ids.next(),
        kind: DeclKind::Var,
        syms: vec![DeclSym { id: ids.next(), sub_id: ids.next(), name: "zw".into(), dims: vec![], init: Some(rhs) }],
        init_op: AssignOp::Var,
    };
    if sibling_branch {
        // `if (1 > 0) { zu = 1; } else { var zw = zu + 1; }`: assigned in one branch, read in the other
        let cond = {
            let l = num(ids, 1);
            let r = num(ids, 0);
            infix(ids, crate::field::Op::Gt, l, r)
        };
        let lhs = var(ids, "zu");
        let assign = Stmt::Assign { id: ids.next(), lhs, op: AssignOp::Var, rhs: num(ids, 1), reversed: false };
        pre.push(Stmt::If {
            id: ids.next(),
            cond,
            then: Box::new(Stmt::Block { id: ids.next(), stmts: vec![assign] }),
            els: Some(Box::new(Stmt::Block { id: ids.next(), stmts: vec![use_it] })),
        });
    } else {
        pre.push(use_it);
    }
    // signal declarations stay first (templates)
    let split = stmts.iter().position(|s| !matches!(s, Stmt::Decl { kind: DeclKind::Signal(..), .. })).unwrap_or(stmts.len());
    let tail = stmts.split_off(split);
    stmts.extend(pre);
    stmts.extend(tail);
}

/// Insert tuple and anonymous-component statements (valid sugar, templates only) after the signal
/// and component declarations: `var (zt1, zt2) = (e1, e2);`, `signal zu1; signal zu2;
/// (zu1, _, zu2) <-- (e1, e2, e3);`, `signal zv; zv <== T(p..)(a..);` for a visible template T.
fn add_sugar(d: &mut Def, ids: &mut Ids, t: &mut Tape, templates: &[TemplateSig]) -> usize {
    let Stmt::Block { stmts, .. } = &mut d.body else { return 0 };
    let inputs: Vec<String> = stmts
        .iter()
        .filter_map(|s| match s {
            Stmt::Decl { kind: DeclKind::Signal(SigKind::Input, _), syms, .. } if syms.iter().all(|y| y.dims.is_empty()) => {
                syms.first().map(|y| y.name.clone())
            }
            _ => None,
        })
        .collect();
    let params = d.params.clone();
    let mut atom = |ids: &mut Ids, t: &mut Tape| -> Expr {
        match t.below(3) {
            0 if !inputs.is_empty() => var(ids, &inputs[t.below(inputs.len())]),
            1 if !params.is_empty() => var(ids, &params[t.below(params.len())]),
            _ => num(ids, t.below(9) as u64),
        }
    };
    let sig_decl = |ids: &mut Ids, name: &str| Stmt::Decl {
        id: ids.next(),
        kind: DeclKind::Signal(SigKind::Intermediate, vec![]),
        syms: vec![DeclSym { id: ids.next(), sub_id: ids.next(), name: name.to_string(), dims: vec![], init: None }],
        init_op: AssignOp::Constrain,
    };
    let mut pre: Vec<Stmt> = Vec::new();
    let n = 1 + t.below(3);
    for k in 0..n {
        match t.below(4) {
            0 => {
                // tuple declaration of variables
                let (e1, e2) = (atom(ids, t), atom(ids, t));
                let rhs = Expr::Tuple { id: ids.next(), elems: vec![e1, e2] };
                pre.push(Stmt::TupleDecl {
                    id: ids.next(),
                    kind: DeclKind::Var,
                    syms: vec![
                        DeclSym { id: ids.next(), sub_id: ids.next(), name: format!("zt{k}a"), dims: vec![], init: None },
                        DeclSym { id: ids.next(), sub_id: ids.next(), name: format!("zt{k}b"), dims: vec![], init: None },
                    ],
                    init: Some((AssignOp::Var, rhs)),
                });
            }
            1 => {
                // tuple assignment to signals with `_`, `<--` or `<==`
                let (a, b) = (format!("zu{k}a"), format!("zu{k}b"));
                pre.push(sig_decl(ids, &a));
                pre.push(sig_decl(ids, &b));
                let lhs = Expr::Tuple { id: ids.next(), elems: vec![var(ids, &a), Expr::Underscore { id: ids.next() }, var(ids, &b)] };
                let (e1, e2, e3) = (atom(ids, t), atom(ids, t), atom(ids, t));
                let rhs = Expr::Tuple { id: ids.next(), elems: vec![e1, e2, e3] };
                let op = if t.chance(128) { AssignOp::Signal } else { AssignOp::Constrain };
                pre.push(Stmt::Assign { id: ids.next(), lhs, op, rhs, reversed: t.chance(50) });
            }
            _ => {
                // anonymous component of a visible template
                if templates.is_empty() {
                    continue;
                }
                let sig = templates[t.below(templates.len())].clone();
                let params: Vec<Expr> = (0..sig.params).map(|_| num(ids, 1 + t.below(4) as u64)).collect();
                let ins: Vec<Expr> = (0..sig.inputs.len()).map(|_| atom(ids, t)).collect();
                let anon = Expr::Anon { id: ids.next(), name: sig.name.clone(), params, inputs: ins, names: None };
                match sig.outputs.len() {
                    0 => pre.push(Stmt::ExprStmt { id: ids.next(), e: anon }),
                    1 => {
                        let v = format!("zv{k}");
                        pre.push(sig_decl(ids, &v));
                        let lhs = var(ids, &v);
                        pre.push(Stmt::Assign { id: ids.next(), lhs, op: AssignOp::Constrain, rhs: anon, reversed: false });
                    }
                    m => {
                        let mut elems = Vec::new();
                        for j in 0..m {
                            let v = format!("zv{k}x{j}");
                            pre.push(sig_decl(ids, &v));
                            elems.push(var(ids, &v));
                        }
                        let lhs = Expr::Tuple { id: ids.next(), elems };
                        pre.push(Stmt::Assign { id: ids.next(), lhs, op: AssignOp::Constrain, rhs: anon, reversed: false });
                    }
                }
            }
        }
    }
    let added = pre.len();
    let split = stmts
        .iter()
        .rposition(|s| matches!(s, Stmt::Decl { kind: DeclKind::Signal(..) | DeclKind::Component, .. }))
        .map(|i| i + 1)
        .unwrap_or(0);
    let tail = stmts.split_off(split);
    stmts.extend(pre);
    stmts.extend(tail);
    added
}

/// Append `component zrec = T(p - 1, 1, ..); zrec.in <== 1; ...` (inside `if (p > 0) { .. }` when T has a parameter).
fn add_self_instance(d: &mut Def, ids: &mut Ids, sig: &TemplateSig) {
    let first = d.params.first().cloned();
    let Stmt::Block { stmts, .. } = &mut d.body else { return };
    let mut args: Vec<Expr> = Vec::new();
    for k in 0..sig.params {
        match (&first, k) {
            (Some(p), 0) => {
                let one = num(ids, 1);
                let pv = var(ids, p);
                args.push(infix(ids, crate::field::Op::Sub, pv, one));
            }
            _ => args.push(num(ids, 1)),
        }
    }
    let init = Expr::Call { id: ids.next(), name: sig.name.clone(), args };
    let mut inner = vec![Stmt::Decl {
        id: ids.next(),
        kind: DeclKind::Component,
        syms: vec![DeclSym { id: ids.next(), sub_id: ids.next(), name: "zrec".into(), dims: vec![], init: Some(init) }],
        init_op: AssignOp::Var,
    }];
    for inp in &sig.inputs {
        let lhs = Expr::Var { id: ids.next(), name: "zrec".into(), access: vec![Access::Field(inp.clone())] };
        inner.push(Stmt::Assign { id: ids.next(), lhs, op: AssignOp::Constrain, rhs: num(ids, 1), reversed: false });
    }
    match first {
        Some(p) => {
            let zero = num(ids, 0);
            let pv = var(ids, &p);
            let cond = infix(ids, crate::field::Op::Gt, pv, zero);
            stmts.push(Stmt::If { id: ids.next(), cond, then: Box::new(Stmt::Block { id: ids.next(), stmts: inner }), els: None });
        }
        None => stmts.extend(inner),
    }
}

pub fn template_profile(t: &mut Tape) -> Profile {
    let mut p = Profile::sem(true, field::bn254());
    p.max_stmts = 4 + t.below(8);
    p.max_depth = 2;
    p.components = true;
    p.shadow = true;
    if t.chance(90) {
        // intermediate signals declared (and constrained) inside nested blocks, with colliding names
        p.nested_signal_decls = true;
        p.nested_signal_assign = true;
    }
    p
}

pub fn function_profile(t: &mut Tape) -> Profile {
    let mut p = Profile::sem(false, field::bn254());
    p.max_stmts = 4 + t.below(8);
    p.max_depth = 2;
    p
}

pub fn gen_project(t: &mut Tape, o: ProjOpts) -> GenProject {
    let nfiles = 1 + t.below(o.max_files);
    let mut ids = Ids::default();
    let mut asts: Vec<(String, File)> = Vec::new();
    // what each file can see: (helpers, templates)
    let mut visible: Vec<(Vec<(String, usize)>, Vec<TemplateSig>)> = Vec::new();
    let mut failing_defs = 0;
    let mut failing_templates = Vec::new();
    let mut bom_files = 0;
    let mut sugared_defs = 0;
    let mut recursive_templates = 0;
    for i in 0..nfiles {
        let mut f = File::default();
        f.version = Some((2, [0u64, 1][t.below(2)], t.below(5) as u64));
        let mut helpers: Vec<(String, usize)> = Vec::new();
        let mut templates: Vec<TemplateSig> = Vec::new();
        for j in 0..i {
            if t.chance(150) {
                let spelled = if t.chance(80) { format!("./f{j}.circom") } else { format!("f{j}.circom") };
                f.includes.push(Include { id: ids.next(), path: spelled });
                helpers.extend(visible[j].0.iter().cloned());
                templates.extend(visible[j].1.iter().cloned());
            }
        }
        helpers.sort();
        helpers.dedup();
        templates.sort_by(|a, b| a.name.cmp(&b.name));
        templates.dedup_by(|a, b| a.name == b.name);
        let ndefs = 1 + t.below(o.max_defs);
        for k in 0..ndefs {
            let template = t.chance(170);
            let mut p = if template { template_profile(t) } else { function_profile(t) };
            p.helpers = helpers.clone();
            p.templates = templates.clone();
            let name = if template { format!("T{i}x{k}") } else { format!("f{i}x{k}") };
            let mut d = gen_def(t, &p, &mut ids, &name);
            if template && o.sugar_chance > 0 && t.chance(o.sugar_chance) {
                sugared_defs += usize::from(add_sugar(&mut d, &mut ids, t, &templates) > 0);
            }
            if !o.clean && t.chance(40) {
                // a definition that fails during SSA conversion (read of a declared but never
                // assigned variable) and also has a CFG-stage warning (shadowed parameter or local)
                let sibling = t.chance(100);
                make_failing(&mut d, &mut ids, sibling);
                failing_defs += 1;
                if template {
                    failing_templates.push(name.clone());
                }
            }
            if template {
                if let Some(sig) = template_sig(&d) {
                    if !o.clean && t.chance(30) {
                        // the template instantiates itself (guarded by its first parameter when it has one)
                        add_self_instance(&mut d, &mut ids, &sig);
                        recursive_templates += 1;
                    }
                    templates.push(sig);
                }
            } else {
                helpers.push((name.clone(), d.params.len()));
            }
            f.defs.push(d);
        }
        if o.main_component && i + 1 == nfiles && t.chance(100) {
            if let Some(sig) = templates.last().cloned() {
                let args = (0..sig.params).map(|_| num(&mut ids, 3)).collect();
                let init = Expr::Call { id: ids.next(), name: sig.name.clone(), args };
                let public = if !sig.inputs.is_empty() && t.chance(128) { Some(vec![sig.inputs[0].clone()]) } else { None };
                f.main = Some(MainComp { id: ids.next(), public, init });
            }
        }
        visible.push((helpers, templates));
        asts.push((format!("f{i}.circom"), f));
    }
    let mut files = Vec::new();
    for (rel, ast) in asts {
        let always_paren = t.chance(30);
        let printed = print_file(&ast, always_paren);
        let trivia = if o.comments && t.chance(128) {
            random_trivia(&printed, t, LayoutOpts { comment_chance: 25, crlf: true }).0
        } else {
            super::print::plain_trivia(&printed)
        };
        let mut trivia = trivia;
        if o.bom_chance > 0 && t.chance(o.bom_chance) {
            // part of the leading trivia, so all recorded spans are offsets into the real file
            trivia[0] = format!("{}{}", '\u{FEFF}', trivia[0]);
            bom_files += 1;
        }
        let r = render(&printed, &trivia);
        files.push(GenFile { rel, ast, printed, r, always_paren });
    }
    // named files: the last one and possibly others
    let mut named = vec![nfiles - 1];
    for i in 0..nfiles - 1 {
        if t.chance(o.name_more_chance) {
            named.push(i);
        }
    }
    if t.chance(o.reverse_chance) {
        named.reverse();
    }
    GenProject { files, named, failing_defs, failing_templates, bom_files, sugared_defs, recursive_templates }
}

impl GenProject {
    pub fn write(&self, dir: &std::path::Path) -> std::io::Result<Vec<std::path::PathBuf>> {
        std::fs::create_dir_all(dir)?;
        for f in &self.files {
            std::fs::write(dir.join(&f.rel), &f.r.src)?;
        }
        Ok(self.named.iter().map(|i| dir.join(&self.files[*i].rel)).collect())
    }
    pub fn hash(&self) -> u64 {
        let mut all = String::new();
        for f in &self.files {
            all.push_str(&f.r.src);
            all.push('\u{0}');
        }
        all.push_str(&format!("{:?}", self.named));
        crate::engine::fnv(all.as_bytes())
    }
    pub fn describe(&self) -> String {
        let mut s = format!("named: {:?}\n", self.named.iter().map(|i| self.files[*i].rel.clone()).collect::<Vec<_>>());
        for f in &self.files {
            s.push_str(&format!("--- {}\n{}\n", f.rel, f.r.src));
        }
        s
    }
}
