//! File-level generators (`full` profile): pragmas, several definitions, main component.

use super::ast::*;
use super::prog::{gen_def, OpsLevel, Profile, TemplateSig};
use crate::engine::Tape;
use crate::field;

/// A small single-file program: 1-3 definitions with reportable content.
pub fn small_file(t: &mut Tape) -> File {
    let mut ids = Ids::default();
    let n = 1 + t_below(t, 3);
    file_with(t, &mut ids, n, true)
}

fn t_below(t: &mut Tape, n: usize) -> usize {
    t.below(n)
}

pub fn template_profile() -> Profile {
    let mut p = Profile::sem(true, field::bn254());
    p.ops = OpsLevel::All;
    p.max_stmts = 8;
    p.max_depth = 2;
    p.nested_signal_assign = false;
    p.literals_beyond_prime = true;
    // Instantiations of the Circomlib names the analysis passes look for, with every small arity
    // (the tool has no definition to check the arity against), besides templates of the same file.
    p.components = true;
    for (name, inputs, outputs) in [
        ("Num2Bits", vec!["in"], vec!["out"]),
        ("Bits2Num", vec!["in"], vec!["out"]),
        ("LessThan", vec!["in"], vec!["out"]),
        ("Num2Bits_strict", vec!["in"], vec!["out"]),
        ("Sign", vec!["in"], vec!["sign"]),
        ("AliasCheck", vec!["in"], vec![]),
    ] {
        for params in 0..3 {
            p.templates.push(TemplateSig {
                name: name.to_string(),
                params,
                inputs: inputs.iter().map(|s| s.to_string()).collect(),
                outputs: outputs.iter().map(|s| s.to_string()).collect(),
            });
        }
    }
    p
}

pub fn function_profile() -> Profile {
    let mut p = Profile::sem(false, field::bn254());
    p.max_stmts = 8;
    p.max_depth = 2;
    p.literals_beyond_prime = true;
    p
}

pub fn file_with(t: &mut Tape, ids: &mut Ids, ndefs: usize, pragma: bool) -> File {
    let mut f = File::default();
    if pragma {
        f.version = Some((2, [0u64, 1][t.below(2)], t.below(5) as u64));
    }
    let mut helpers: Vec<(String, usize)> = Vec::new();
    let mut own_templates: Vec<TemplateSig> = Vec::new();
    for i in 0..ndefs {
        let template = t.chance(170);
        let mut p = if template { template_profile() } else { function_profile() };
        p.helpers = helpers.clone();
        if template {
            p.templates.extend(own_templates.iter().cloned());
        }
        let name = if template { format!("T{i}") } else { format!("f{i}") };
        let d = gen_def(t, &p, ids, &name);
        if !template {
            helpers.push((name.clone(), d.params.len()));
        } else if let Some(sig) = super::proj::template_sig(&d) {
            own_templates.push(sig);
        }
        f.defs.push(d);
    }
    f
}
