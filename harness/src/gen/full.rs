//! File-level generators (`full` profile): pragmas, several definitions, main component.

use super::ast::*;
use super::prog::{gen_def, OpsLevel, Profile};
use crate::engine::Tape;
use crate::field;

/// A small single-file program: 1-3 definitions with reportable content.
pub fn small_file(t: &mut Tape) -> File {
    let mut ids = Ids::default();
    let n = 1 + t_below(t, 3);
    file_with(t, &mut ids, n, true)
}

fn t_below(t: &mut Tape, n: usize) -> usize {
    t.below(n)
}

pub fn template_profile() -> Profile {
    let mut p = Profile::sem(true, field::bn254());
    p.ops = OpsLevel::All;
    p.max_stmts = 8;
    p.max_depth = 2;
    p.nested_signal_assign = false;
    p
}

pub fn function_profile() -> Profile {
    let mut p = Profile::sem(false, field::bn254());
    p.max_stmts = 8;
    p.max_depth = 2;
    p
}

pub fn file_with(t: &mut Tape, ids: &mut Ids, ndefs: usize, pragma: bool) -> File {
    let mut f = File::default();
    if pragma {
        f.version = Some((2, [0u64, 1][t.below(2)], t.below(5) as u64));
    }
    let mut helpers: Vec<(String, usize)> = Vec::new();
    for i in 0..ndefs {
        let template = t.chance(170);
        let mut p = if template { template_profile() } else { function_profile() };
        p.helpers = helpers.clone();
        let name = if template { format!("T{i}") } else { format!("f{i}") };
        let d = gen_def(t, &p, ids, &name);
        if !template {
            helpers.push((name.clone(), d.params.len()));
        }
        f.defs.push(d);
    }
    f
}
