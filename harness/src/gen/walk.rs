//! Reference walks over the generator AST: execution events under a decision
//! oracle (C13/C14), loop depths (C12), lexical scope resolution (C10).

use super::ast::*;
use super::print::Rendered;
use std::collections::HashMap;

#[derive(Clone, Debug)]
pub enum EvNode<'a> {
    /// declaration of one symbol
    Decl(&'a DeclSym, &'a DeclKind),
    /// initialiser of one symbol (a substitution)
    Init(&'a DeclSym, AssignOp),
    /// assignment-like statement (Assign / Compound / IncDec)
    Assign(&'a Stmt),
    /// condition of if / while / for (the statement is given)
    Cond(&'a Stmt, &'a Expr),
    /// return / assert / log / ===
    Simple(&'a Stmt),
}

#[derive(Clone, Debug)]
pub struct Event<'a> {
    pub node: EvNode<'a>,
    /// span of the statement the IR node carries
    pub span: (usize, usize),
    /// for Cond: the decision taken
    pub decision: Option<bool>,
    /// true when the condition belongs to a loop
    pub is_loop: bool,
}

pub struct Walker<'a, F: FnMut(bool) -> bool> {
    pub r: &'a Rendered,
    pub decide: F,
    pub events: Vec<Event<'a>>,
    pub max_events: usize,
    pub returned: bool,
    pub overflow: bool,
}

impl<'a, F: FnMut(bool) -> bool> Walker<'a, F> {
    pub fn new(r: &'a Rendered, decide: F, max_events: usize) -> Self {
        Walker { r, decide, events: Vec::new(), max_events, returned: false, overflow: false }
    }

    fn push(&mut self, node: EvNode<'a>, id: Id, decision: Option<bool>, is_loop: bool) {
        if self.events.len() >= self.max_events {
            self.overflow = true;
            return;
        }
        let span = self.r.span(id).unwrap_or((0, 0));
        self.events.push(Event { node, span, decision, is_loop });
    }

    fn stop(&self) -> bool {
        self.returned || self.overflow
    }

    pub fn stmt(&mut self, s: &'a Stmt) {
        if self.stop() {
            return;
        }
        match s {
            Stmt::Decl { id, kind, syms, init_op } => {
                for sym in syms {
                    self.push(EvNode::Decl(sym, kind), *id, None, false);
                    if sym.init.is_some() {
                        self.push(EvNode::Init(sym, *init_op), *id, None, false);
                    }
                }
            }
            Stmt::TupleDecl { id, kind, syms, .. } => {
                // tuple declarations are desugared; only the declarations are modelled here
                for sym in syms {
                    self.push(EvNode::Decl(sym, kind), *id, None, false);
                }
            }
            Stmt::Assign { id, .. } | Stmt::Compound { id, .. } | Stmt::IncDec { id, .. } => {
                self.push(EvNode::Assign(s), *id, None, false);
            }
            Stmt::If { id, cond, then, els } => {
                let d = (self.decide)(false);
                self.push(EvNode::Cond(s, cond), *id, Some(d), false);
                if self.stop() {
                    return;
                }
                if d {
                    self.stmt(then);
                } else if let Some(e) = els {
                    self.stmt(e);
                }
            }
            Stmt::While { id, cond, body } => loop {
                let d = (self.decide)(true);
                self.push(EvNode::Cond(s, cond), *id, Some(d), true);
                if self.stop() || !d {
                    return;
                }
                self.stmt(body);
                if self.stop() {
                    return;
                }
            },
            Stmt::For { id, init, cond, step, body } => {
                self.stmt(init);
                loop {
                    if self.stop() {
                        return;
                    }
                    let d = (self.decide)(true);
                    self.push(EvNode::Cond(s, cond), *id, Some(d), true);
                    if self.stop() || !d {
                        return;
                    }
                    self.stmt(body);
                    if self.stop() {
                        return;
                    }
                    self.stmt(step);
                }
            }
            Stmt::Return { id, .. } => {
                self.push(EvNode::Simple(s), *id, None, false);
                self.returned = true;
            }
            Stmt::ConstraintEq { id, .. } | Stmt::Assert { id, .. } | Stmt::Log { id, .. } => {
                self.push(EvNode::Simple(s), *id, None, false);
            }
            Stmt::Block { stmts, .. } => {
                for st in stmts {
                    self.stmt(st);
                    if self.stop() {
                        return;
                    }
                }
            }
            Stmt::ExprStmt { .. } => {}
        }
    }
}

/// Loop depth of every statement, keyed by its span: the number of loop
/// *bodies* (for a `for`: body and step) enclosing it.
pub fn loop_depths(def: &Def, r: &Rendered) -> HashMap<(usize, usize), usize> {
    fn go(s: &Stmt, depth: usize, r: &Rendered, out: &mut HashMap<(usize, usize), usize>) {
        if let Some(sp) = r.span(s.id()) {
            // outermost wins for identical spans at different depths is impossible
            // by construction; keep the first
            out.entry(sp).or_insert(depth);
        }
        match s {
            Stmt::If { then, els, .. } => {
                go(then, depth, r, out);
                if let Some(e) = els {
                    go(e, depth, r, out);
                }
            }
            Stmt::While { body, .. } => go(body, depth + 1, r, out),
            Stmt::For { init, step, body, .. } => {
                go(init, depth, r, out);
                go(body, depth + 1, r, out);
                go(step, depth + 1, r, out);
            }
            Stmt::Block { stmts, .. } => {
                for st in stmts {
                    go(st, depth, r, out)
                }
            }
            _ => {}
        }
    }
    let mut out = HashMap::new();
    go(&def.body, 0, r, &mut out);
    out
}

// ---------------------------------------------------------------------------
// Lexical scope resolution
// ---------------------------------------------------------------------------

/// What a name occurrence refers to.
#[derive(Clone, Copy, Debug, PartialEq, Eq, Hash, PartialOrd, Ord)]
pub enum DeclRef {
    Param(usize),
    /// DeclSym id
    Sym(Id),
    Unresolved,
}

/// A shadowing event: declaration `decl` redeclares a name visible at that point.
#[derive(Clone, Debug)]
pub struct Shadowing {
    pub name: String,
    pub decl: DeclRef,
    pub shadowed: DeclRef,
    /// id of the statement holding the shadowing declaration
    pub stmt_id: Id,
    /// id of the statement holding the shadowed declaration (None = parameter)
    pub shadowed_stmt_id: Option<Id>,
}

#[derive(Default)]
pub struct Resolution {
    /// Expr::Var id -> declaration
    pub uses: HashMap<Id, DeclRef>,
    /// assignment statement id (Assign/Compound/IncDec) -> declaration of the target
    pub targets: HashMap<Id, DeclRef>,
    /// DeclSym id -> name
    pub sym_names: HashMap<Id, String>,
    pub shadowings: Vec<Shadowing>,
    /// number of declarations (all kinds) per name
    pub decl_count: HashMap<String, usize>,
    /// named anonymous-component inputs etc. are not modelled
    pub sym_stmt: HashMap<Id, Id>,
}

struct Scopes {
    stack: Vec<Vec<(String, DeclRef)>>,
}

impl Scopes {
    fn lookup(&self, name: &str) -> DeclRef {
        for s in self.stack.iter().rev() {
            for (n, d) in s.iter().rev() {
                if n == name {
                    return *d;
                }
            }
        }
        DeclRef::Unresolved
    }
}

pub fn resolve(def: &Def) -> Resolution {
    let mut res = Resolution::default();
    let mut sc = Scopes { stack: vec![vec![]] };
    for (i, p) in def.params.iter().enumerate() {
        sc.stack[0].push((p.clone(), DeclRef::Param(i)));
        *res.decl_count.entry(p.clone()).or_insert(0) += 1;
    }
    fn expr(e: &Expr, sc: &Scopes, res: &mut Resolution) {
        e.walk(&mut |x| {
            if let Expr::Var { id, name, .. } = x {
                res.uses.insert(*id, sc.lookup(name));
            }
        });
    }
    fn access(a: &[Access], sc: &Scopes, res: &mut Resolution) {
        for x in a {
            if let Access::Index(e) = x {
                expr(e, sc, res)
            }
        }
    }
    fn declare(sym: &DeclSym, stmt_id: Id, sc: &mut Scopes, res: &mut Resolution) {
        let prev = sc.lookup(&sym.name);
        if prev != DeclRef::Unresolved {
            let shadowed_stmt_id = match prev {
                DeclRef::Sym(s) => res.sym_stmt.get(&s).copied(),
                _ => None,
            };
            res.shadowings.push(Shadowing {
                name: sym.name.clone(),
                decl: DeclRef::Sym(sym.id),
                shadowed: prev,
                stmt_id,
                shadowed_stmt_id,
            });
        }
        sc.stack.last_mut().unwrap().push((sym.name.clone(), DeclRef::Sym(sym.id)));
        res.sym_names.insert(sym.id, sym.name.clone());
        res.sym_stmt.insert(sym.id, stmt_id);
        *res.decl_count.entry(sym.name.clone()).or_insert(0) += 1;
    }
    fn stmt(s: &Stmt, sc: &mut Scopes, res: &mut Resolution) {
        match s {
            Stmt::Decl { id, syms, .. } => {
                for sym in syms {
                    // dimensions are evaluated before the name is declared,
                    // the initialiser after (it already sees the new variable)
                    for d in &sym.dims {
                        expr(d, sc, res);
                    }
                    declare(sym, *id, sc, res);
                    if let Some(init) = &sym.init {
                        expr(init, sc, res);
                    }
                }
            }
            Stmt::TupleDecl { id, syms, init, .. } => {
                for sym in syms {
                    for d in &sym.dims {
                        expr(d, sc, res);
                    }
                    declare(sym, *id, sc, res);
                }
                if let Some((_, e)) = init {
                    expr(e, sc, res);
                }
            }
            Stmt::Assign { id, lhs, rhs, .. } => {
                if let Expr::Var { name, .. } = lhs {
                    res.targets.insert(*id, sc.lookup(name));
                }
                expr(lhs, sc, res);
                expr(rhs, sc, res);
            }
            Stmt::Compound { id, name, access: a, rhs, .. } => {
                res.targets.insert(*id, sc.lookup(name));
                access(a, sc, res);
                expr(rhs, sc, res);
            }
            Stmt::IncDec { id, name, access: a, .. } => {
                res.targets.insert(*id, sc.lookup(name));
                access(a, sc, res);
            }
            Stmt::If { cond, then, els, .. } => {
                expr(cond, sc, res);
                stmt(then, sc, res);
                if let Some(e) = els {
                    stmt(e, sc, res);
                }
            }
            Stmt::While { cond, body, .. } => {
                expr(cond, sc, res);
                stmt(body, sc, res);
            }
            Stmt::For { init, cond, step, body, .. } => {
                // a `for` is a block holding the init and the loop
                sc.stack.push(vec![]);
                stmt(init, sc, res);
                expr(cond, sc, res);
                // the body and the step share a block of their own
                sc.stack.push(vec![]);
                stmt(body, sc, res);
                stmt(step, sc, res);
                sc.stack.pop();
                sc.stack.pop();
            }
            Stmt::Return { e, .. } | Stmt::Assert { e, .. } | Stmt::ExprStmt { e, .. } => expr(e, sc, res),
            Stmt::ConstraintEq { l, r, .. } => {
                expr(l, sc, res);
                expr(r, sc, res);
            }
            Stmt::Log { args, .. } => {
                for a in args {
                    if let LogArg::Expr(e) = a {
                        expr(e, sc, res)
                    }
                }
            }
            Stmt::Block { stmts, .. } => {
                sc.stack.push(vec![]);
                for st in stmts {
                    stmt(st, sc, res);
                }
                sc.stack.pop();
            }
        }
    }
    stmt(&def.body, &mut sc, &mut res);
    res
}
