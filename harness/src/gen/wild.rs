//! `wild` generator: anything the grammar accepts, with no semantic discipline
//! (undeclared names, tuples and anonymous components anywhere, huge literals,
//! odd identifiers).  Used for totality (C01) and for error-path coverage.

use super::ast::*;
use crate::engine::Tape;
use crate::field::{ALL_OPS, ALL_UNOPS};
use num_bigint_dig::BigUint;
use num_traits::One;

pub const NAMES: [&str; 14] =
    ["a", "b", "c", "x", "y", "in", "out", "i", "$v", "_w1", "a_0", "T", "f", "n"];
pub const FIELDS: [&str; 4] = ["in", "out", "a", "b"];

pub struct Wild<'a, 'b> {
    pub t: &'a mut Tape<'b>,
    pub ids: &'a mut Ids,
    /// exclusion switches for known findings (true = construct excluded)
    pub no_empty_hex: bool,
    pub max_depth: usize,
    pub callables: Vec<String>,
}

impl<'a, 'b> Wild<'a, 'b> {
    pub fn new(t: &'a mut Tape<'b>, ids: &'a mut Ids) -> Self {
        Wild { t, ids, no_empty_hex: true, max_depth: 4, callables: vec!["T".into(), "f".into(), "T".into(), "f".into(), "Num2Bits".into(), "Bits2Num".into(), "LessThan".into(), "Num2Bits_strict".into(), "Sign".into()] }
    }

    fn name(&mut self) -> String {
        NAMES[self.t.below(NAMES.len())].to_string()
    }

    pub fn number(&mut self) -> Expr {
        let id = self.ids.next();
        let value: BigUint = match self.t.below(6) {
            0 => BigUint::from(self.t.below(4) as u64),
            1 => BigUint::from(self.t.below(1000) as u64),
            2 => BigUint::from(self.t.u64()),
            3 => {
                // around 2^254 / 2^256 and beyond
                let k = [253usize, 254, 255, 256, 257, 300][self.t.below(6)];
                let one = BigUint::one();
                let x = BigUint::one() << k;
                match self.t.below(3) {
                    0 => &x - &one,
                    1 => x,
                    _ => &x + &one,
                }
            }
            4 => {
                // around (multiples of) each curve's prime: literals are not reduced by the parser
                let primes = crate::field::curve_primes();
                let p = primes[self.t.below(3)].1.clone();
                let k = BigUint::from(1 + self.t.below(3) as u64);
                match self.t.below(4) {
                    0 => &p * &k,
                    1 => &p * &k + BigUint::from(1u32),
                    2 => &p - BigUint::from(1 + self.t.below(2) as u64),
                    _ => p,
                }
            }
            _ => {
                let mut bytes = vec![0u8; 1 + self.t.below(48)];
                for b in bytes.iter_mut() {
                    *b = self.t.byte();
                }
                BigUint::from_bytes_le(&bytes)
            }
        };
        let text = match self.t.below(4) {
            0 => format!("0x{}", value.to_str_radix(16)),
            1 => format!("0x{}", value.to_str_radix(16).to_uppercase()),
            _ => value.to_string(),
        };
        Expr::Num { id, text, value }
    }

    fn access(&mut self, depth: usize) -> Vec<Access> {
        let n = if self.t.chance(90) { 1 + self.t.below(3) } else { 0 };
        (0..n)
            .map(|_| {
                if self.t.chance(170) {
                    Access::Index(self.expr(depth.saturating_sub(1)))
                } else {
                    Access::Field(FIELDS[self.t.below(FIELDS.len())].to_string())
                }
            })
            .collect()
    }

    pub fn expr(&mut self, depth: usize) -> Expr {
        let choice = if depth == 0 { self.t.below(3) } else { self.t.below(16) };
        match choice {
            0 => self.number(),
            1 | 2 => Expr::Var { id: self.ids.next(), name: self.name(), access: self.access(depth) },
            3..=6 => {
                let op = ALL_OPS[self.t.below(20)];
                let l = self.expr(depth - 1);
                let r = self.expr(depth - 1);
                Expr::Infix { id: self.ids.next(), op, l: Box::new(l), r: Box::new(r) }
            }
            7 => {
                let op = ALL_UNOPS[self.t.below(3)];
                let e = self.expr(depth - 1);
                Expr::Prefix { id: self.ids.next(), op, e: Box::new(e) }
            }
            8 => {
                let c = self.expr(depth - 1);
                let a = self.expr(depth - 1);
                let b = self.expr(depth - 1);
                Expr::Ternary { id: self.ids.next(), c: Box::new(c), a: Box::new(a), b: Box::new(b) }
            }
            9 => {
                let name = self.callables[self.t.below(self.callables.len())].clone();
                let n = self.t.below(4);
                let args = (0..n).map(|_| self.expr(depth - 1)).collect();
                Expr::Call { id: self.ids.next(), name, args }
            }
            10 => {
                let n = 1 + self.t.below(3);
                let elems = (0..n).map(|_| self.expr(depth - 1)).collect();
                Expr::ArrayLit { id: self.ids.next(), elems }
            }
            11 => {
                let n = 2 + self.t.below(2);
                let elems = (0..n)
                    .map(|_| if self.t.chance(40) { Expr::Underscore { id: self.ids.next() } } else { self.expr(depth - 1) })
                    .collect();
                Expr::Tuple { id: self.ids.next(), elems }
            }
            12 | 13 => {
                let name = self.callables[self.t.below(self.callables.len())].clone();
                let np = self.t.below(3);
                let params = (0..np).map(|_| self.expr(depth - 1)).collect();
                let ni = self.t.below(3);
                let inputs: Vec<Expr> = (0..ni).map(|_| self.expr(depth - 1)).collect();
                let names = if ni > 0 && self.t.chance(90) {
                    Some(
                        (0..ni)
                            .map(|_| {
                                let op = [AssignOp::Constrain, AssignOp::Signal, AssignOp::Var][self.t.below(3)];
                                (op, FIELDS[self.t.below(FIELDS.len())].to_string())
                            })
                            .collect(),
                    )
                } else {
                    None
                };
                Expr::Anon { id: self.ids.next(), name, params, inputs, names }
            }
            14 => {
                let e = self.expr(depth - 1);
                // `parallel` takes Expression13/12: a nested parallel needs parentheses, which the printer adds
                Expr::Parallel { id: self.ids.next(), e: Box::new(e) }
            }
            _ => Expr::Underscore { id: self.ids.next() },
        }
    }

    fn decl_kind(&mut self) -> DeclKind {
        match self.t.below(5) {
            0 | 1 => DeclKind::Var,
            2 => DeclKind::Component,
            _ => {
                let k = [SigKind::Input, SigKind::Output, SigKind::Intermediate][self.t.below(3)].clone();
                let tags = if self.t.chance(40) { vec!["binary".to_string()] } else { vec![] };
                DeclKind::Signal(k, tags)
            }
        }
    }

    fn sym(&mut self, depth: usize, with_init: bool) -> DeclSym {
        let name = self.name();
        let ndims = if self.t.chance(70) { 1 + self.t.below(2) } else { 0 };
        let dims = (0..ndims).map(|_| self.expr(depth.min(1))).collect();
        let init = if with_init && self.t.chance(150) { Some(self.expr(depth)) } else { None };
        DeclSym { id: self.ids.next(), sub_id: self.ids.next(), name, dims, init }
    }

    fn decl(&mut self, depth: usize) -> Stmt {
        let kind = self.decl_kind();
        let id = self.ids.next();
        if self.t.chance(40) {
            let n = 1 + self.t.below(3);
            let syms = (0..n).map(|_| self.sym(depth, false)).collect();
            let init = if self.t.chance(170) {
                let op = match kind {
                    DeclKind::Signal(..) => [AssignOp::Constrain, AssignOp::Signal][self.t.below(2)],
                    _ => [AssignOp::Var, AssignOp::Constrain, AssignOp::Signal][self.t.below(3)],
                };
                Some((op, self.expr(depth)))
            } else {
                None
            };
            return Stmt::TupleDecl { id, kind, syms, init };
        }
        let n = 1 + self.t.below(3);
        let init_op = match &kind {
            DeclKind::Signal(..) => [AssignOp::Constrain, AssignOp::Signal][self.t.below(2)],
            _ => AssignOp::Var,
        };
        // `signal x <-- e, y;` is not in the grammar: with `<--` every symbol needs an initialiser
        let all_init = matches!(kind, DeclKind::Signal(..)) && init_op == AssignOp::Signal;
        let mut syms: Vec<DeclSym> = (0..n).map(|_| self.sym(depth, true)).collect();
        if all_init {
            for s in syms.iter_mut() {
                if s.init.is_none() {
                    s.init = Some(self.expr(depth.min(1)));
                }
            }
        }
        Stmt::Decl { id, kind, syms, init_op }
    }

    fn target(&mut self, depth: usize) -> (String, Vec<Access>) {
        (self.name(), self.access(depth))
    }

    /// class: 0 any, 1 closed ifs, 2 no if (grammar classes for unbraced bodies)
    fn body(&mut self, depth: usize, class: u8) -> Stmt {
        if self.t.chance(100) {
            let s = self.stmt(depth, false);
            let ok = match class {
                2 => !matches!(s, Stmt::If { .. }),
                1 => super::prog::closed(&s),
                _ => true,
            };
            if ok && !matches!(s, Stmt::Decl { .. } | Stmt::TupleDecl { .. }) {
                return s;
            }
            return Stmt::Block { id: self.ids.next(), stmts: vec![s] };
        }
        self.block(depth)
    }

    pub fn block(&mut self, depth: usize) -> Stmt {
        let n = self.t.below(4);
        let stmts = (0..n).map(|_| self.stmt(depth, true)).collect();
        Stmt::Block { id: self.ids.next(), stmts }
    }

    pub fn stmt(&mut self, depth: usize, decl_ok: bool) -> Stmt {
        let ed = depth.min(2) + 1;
        let roll = if depth == 0 { self.t.below(11) } else { self.t.below(16) };
        match roll {
            0 | 1 if decl_ok => self.decl(ed),
            0..=3 => {
                let lhs = if self.t.chance(200) {
                    let (name, access) = self.target(ed);
                    Expr::Var { id: self.ids.next(), name, access }
                } else {
                    self.expr(ed)
                };
                let op = [AssignOp::Var, AssignOp::Signal, AssignOp::Constrain][self.t.below(3)];
                let reversed = op != AssignOp::Var && self.t.chance(60);
                let rhs = self.expr(ed);
                Stmt::Assign { id: self.ids.next(), lhs, op, rhs, reversed }
            }
            4 => {
                let (name, access) = self.target(ed);
                let op = *self.t.pick(&[
                    crate::field::Op::Add,
                    crate::field::Op::Sub,
                    crate::field::Op::Mul,
                    crate::field::Op::Div,
                    crate::field::Op::IntDiv,
                    crate::field::Op::Mod,
                    crate::field::Op::Pow,
                    crate::field::Op::ShiftL,
                    crate::field::Op::ShiftR,
                    crate::field::Op::BitAnd,
                    crate::field::Op::BitOr,
                    crate::field::Op::BitXor,
                ]);
                let rhs = self.expr(ed);
                Stmt::Compound { id: self.ids.next(), name, access, op, rhs }
            }
            5 => {
                let (name, access) = self.target(ed);
                Stmt::IncDec { id: self.ids.next(), name, access, inc: self.t.chance(128) }
            }
            6 => Stmt::Return { id: self.ids.next(), e: self.expr(ed) },
            7 => Stmt::ConstraintEq { id: self.ids.next(), l: self.expr(ed), r: self.expr(ed) },
            8 => Stmt::Assert { id: self.ids.next(), e: self.expr(ed) },
            9 => {
                let n = self.t.below(4);
                let args = (0..n)
                    .map(|_| {
                        if self.t.chance(90) {
                            LogArg::Str(["msg", "", "é ∀ 日本", "a // b", "x /* y"][self.t.below(3)].to_string())
                        } else {
                            LogArg::Expr(self.expr(ed))
                        }
                    })
                    .collect();
                Stmt::Log { id: self.ids.next(), args }
            }
            10 => Stmt::ExprStmt { id: self.ids.next(), e: self.expr(ed) },
            11 | 12 => {
                let cond = self.expr(ed);
                let has_else = self.t.chance(110);
                let then = self.body(depth - 1, if has_else { 1 } else { 0 });
                let els = if has_else { Some(Box::new(self.body(depth - 1, 0))) } else { None };
                Stmt::If { id: self.ids.next(), cond, then: Box::new(then), els }
            }
            13 => {
                let cond = self.expr(ed);
                let body = self.body(depth - 1, 2);
                Stmt::While { id: self.ids.next(), cond, body: Box::new(body) }
            }
            14 => {
                // for: init is a declaration (non-tuple var/signal/component) or a substitution
                let init = if self.t.chance(170) {
                    let mut d = self.decl(1);
                    if matches!(d, Stmt::TupleDecl { .. }) {
                        d = Stmt::Decl {
                            id: self.ids.next(),
                            kind: DeclKind::Var,
                            syms: vec![DeclSym {
                                id: self.ids.next(),
                                sub_id: self.ids.next(),
                                name: "i".into(),
                                dims: vec![],
                                init: Some(self.number()),
                            }],
                            init_op: AssignOp::Var,
                        };
                    }
                    d
                } else {
                    let (name, access) = self.target(1);
                    Stmt::IncDec { id: self.ids.next(), name, access, inc: true }
                };
                let cond = self.expr(ed);
                let (name, access) = self.target(1);
                let step = if self.t.chance(128) {
                    Stmt::IncDec { id: self.ids.next(), name, access, inc: self.t.chance(200) }
                } else {
                    let rhs = self.expr(1);
                    Stmt::Compound { id: self.ids.next(), name, access, op: crate::field::Op::Add, rhs }
                };
                let body = self.body(depth - 1, 2);
                Stmt::For { id: self.ids.next(), init: Box::new(init), cond, step: Box::new(step), body: Box::new(body) }
            }
            _ => self.block(depth - 1),
        }
    }

    pub fn def(&mut self, name: &str) -> Def {
        let id = self.ids.next();
        let params_id = self.ids.next();
        let kind = match self.t.below(5) {
            0 | 1 => DefKind::Function,
            2 => DefKind::Template { custom: false, parallel: self.t.chance(60) },
            3 => DefKind::Template { custom: self.t.chance(60), parallel: false },
            _ => DefKind::Template { custom: false, parallel: false },
        };
        let np = self.t.below(4);
        let params = (0..np).map(|_| self.name()).collect();
        let depth = 1 + self.t.below(self.max_depth);
        let n = self.t.below(6);
        let stmts = (0..n).map(|_| self.stmt(depth, true)).collect();
        Def { id, params_id, kind, name: name.to_string(), params, body: Stmt::Block { id: self.ids.next(), stmts } }
    }
}

/// A whole wild file.
pub fn wild_file(t: &mut Tape) -> File {
    let mut ids = Ids::default();
    let mut f = File::default();
    if t.chance(200) {
        f.version = Some(match t.below(6) {
            0 => (2, 0, 0),
            1 => (2, 1, 4),
            2 => (2, 1, 5),
            3 => (1, 0, 0),
            4 => (2, t.below(3) as u64, t.below(10) as u64),
            _ => (t.below(4) as u64, t.below(3) as u64, t.below(10) as u64),
        });
    }
    f.custom_templates = t.chance(40);
    let ndefs = t.below(4);
    let names = ["T", "f", "Num2Bits", "U"];
    for i in 0..ndefs {
        let mut w = Wild::new(t, &mut ids);
        let d = w.def(names[i % 4]);
        f.defs.push(d);
    }
    if t.chance(90) {
        let mut w = Wild::new(t, &mut ids);
        let init = if w.t.chance(200) {
            let n = w.t.below(3);
            let args = (0..n).map(|_| w.number()).collect();
            Expr::Call { id: w.ids.next(), name: "T".into(), args }
        } else {
            w.expr(2)
        };
        let public = if w.t.chance(100) { Some(vec!["in".to_string()]) } else { None };
        f.main = Some(MainComp { id: ids.next(), public, init });
    }
    f
}
