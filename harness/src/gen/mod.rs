pub mod ast;
pub mod full;
pub mod print;
pub mod prog;
pub mod text;
pub mod walk;
pub mod wild;
pub mod proj;
