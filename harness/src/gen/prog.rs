//! Tape-driven generator of functions and templates.  Programs are valid by
//! construction for the chosen profile: names resolve lexically, locals are
//! read only when definitely assigned (unless the profile says otherwise),
//! array indices are in range, and the statement classes required by the
//! grammar for unbraced bodies are respected.

use super::ast::*;
use crate::engine::Tape;
use crate::field::{Op, UnOp};
use num_bigint_dig::BigUint;
use num_traits::{One, Zero};

#[derive(Clone, Copy, Debug, PartialEq, Eq)]
pub enum OpsLevel {
    /// `+`, `<`, `==` only
    Trivial,
    /// polynomial operators and comparisons
    Arith,
    /// all 20 infix and 3 prefix operators and ternaries
    All,
}

#[derive(Clone, Debug)]
pub struct Profile {
    pub template: bool,
    pub signals: bool,
    pub components: bool,
    pub arrays: bool,
    pub ops: OpsLevel,
    pub name_pool: Vec<&'static str>,
    /// allow declarations to reuse visible names (shadowing)
    pub shadow: bool,
    pub max_depth: usize,
    pub max_stmts: usize,
    /// allow `var x;` without initialiser (still read only when definitely assigned)
    pub uninit_decl: bool,
    pub early_return: bool,
    /// (name, arity) of callable pure helper functions
    pub helpers: Vec<(String, usize)>,
    /// (template name, params, inputs, outputs) usable as components
    pub templates: Vec<TemplateSig>,
    pub unbraced: bool,
    pub empty_blocks: bool,
    pub log_assert: bool,
    /// literals are drawn from boundary values of this prime (None = small literals)
    pub prime: Option<BigUint>,
    /// `-->` / `==>` spellings
    pub reversed_assign: bool,
    /// parameters beyond the first `control_params` are data (never used in conditions/indices)
    pub data_params: bool,
    pub max_params: usize,
    /// signals may be assigned in branches/loops (C08) — otherwise top level only
    pub nested_signal_assign: bool,
    /// compound assignments and ++/--
    pub compound: bool,
    /// reads of signals allowed in conditions (Circom forbids it for constraints, the analyser does not care)
    pub signal_conditions: bool,
    /// exclusion switch (known finding F15): arguments of helper calls are control values only,
    /// so no expression has an unknown degree that an array could then forget
    pub calls_control_only: bool,
    /// chance (of 256) that an infix operator is drawn from {+, -, *, *} instead of all 20
    pub poly_bias: u32,
    /// only input and output signals (C09 domain)
    pub no_intermediate: bool,
    /// intermediate signals may be declared in nested blocks under names from the pool, so a
    /// signal can shadow (or be declared beside) a variable or another signal of the same name
    pub nested_signal_decls: bool,
    /// chance (of 256) that a scalar re-assignment has the form `x = x <op> e` (loop-carried updates)
    pub self_update_bias: u32,
    /// chance (of 256) that an expression slot becomes a helper call when helpers exist
    pub call_bias: u32,
    /// chance (of 256) that the condition of a conditional expression outside a control position
    /// may read data (signals, ports, tainted locals) even when `signal_conditions` is off
    pub data_ternary_chance: u32,
    /// an array declared without initialiser may be filled element by element (structural profiles only:
    /// the other elements keep Circom's default, which the claims checked there do not depend on)
    pub elementwise_first: bool,
    /// compound assignments use all twelve operators whatever `ops` says (structural profiles)
    pub all_compound_ops: bool,
    /// components have array ports that are written `c.pin[e] <== ..` and read `c.pout[e]`
    /// (structural profiles only: the index is any expression over the locals)
    pub port_arrays: bool,
    /// literals may also be (small multiples of) any of the three curve primes, plus or minus one:
    /// values that reduce to 0, 1 or p-1 under some curve (totality checks only — the checks that
    /// interpret programs keep literals below the prime, see DESIGN.md §6)
    pub literals_beyond_prime: bool,
    /// locals may be read wherever they are declared, assigned on that path or not (only for checks that
    /// judge whatever the tool makes of such a program, never for the interpreting ones)
    pub reads_any_declared: bool,
    /// the dimension of a local array may be `len + (x & 3)` for a scalar local or parameter x
    /// (the array is indexed below `len` only; its dimension is an effect of its own, C09)
    pub dynamic_dims: bool,
}

#[derive(Clone, Debug)]
pub struct TemplateSig {
    pub name: String,
    pub params: usize,
    pub inputs: Vec<String>,
    pub outputs: Vec<String>,
}

impl Profile {
    pub fn cf(template: bool) -> Profile {
        Profile {
            template,
            signals: false,
            components: false,
            arrays: true,
            ops: OpsLevel::Trivial,
            name_pool: vec!["x", "y", "x_0", "x_1", "i", "y_0", "x0", "x1"],
            shadow: true,
            max_depth: 4,
            max_stmts: 14,
            uninit_decl: false,
            early_return: true,
            helpers: vec![],
            templates: vec![],
            unbraced: true,
            empty_blocks: true,
            log_assert: true,
            prime: None,
            reversed_assign: false,
            data_params: false,
            max_params: 3,
            nested_signal_assign: false,
            compound: true,
            signal_conditions: false,
            calls_control_only: false,
            poly_bias: 0,
            no_intermediate: false,
            nested_signal_decls: false,
            self_update_bias: 0,
            call_bias: 0,
            data_ternary_chance: 0,
            elementwise_first: false,
            all_compound_ops: false,
            port_arrays: false,
            literals_beyond_prime: false,
            reads_any_declared: false,
            dynamic_dims: false,
        }
    }
    pub fn sem(template: bool, prime: BigUint) -> Profile {
        Profile {
            template,
            signals: template,
            components: false,
            arrays: true,
            ops: OpsLevel::All,
            name_pool: vec!["a", "b", "c", "k", "acc", "t", "u"],
            shadow: true,
            max_depth: 3,
            max_stmts: 12,
            uninit_decl: false,
            early_return: !template,
            helpers: vec![],
            templates: vec![],
            unbraced: true,
            empty_blocks: false,
            log_assert: true,
            prime: Some(prime),
            reversed_assign: true,
            data_params: false,
            max_params: 3,
            nested_signal_assign: false,
            compound: true,
            signal_conditions: true,
            calls_control_only: false,
            poly_bias: 50,
            no_intermediate: false,
            nested_signal_decls: false,
            self_update_bias: 0,
            call_bias: 0,
            data_ternary_chance: 0,
            elementwise_first: false,
            all_compound_ops: false,
            port_arrays: false,
            literals_beyond_prime: false,
            reads_any_declared: false,
            dynamic_dims: false,
        }
    }
}

#[derive(Clone, Debug, PartialEq, Eq)]
pub enum Ty {
    Var,
    VarArr(usize),
    Sig(SigKind),
    SigArr(SigKind, usize),
    Comp(usize), // index into profile.templates
}

#[derive(Clone, Debug)]
pub struct VarInfo {
    pub name: String,
    pub ty: Ty,
    /// loop counter the generator must not assign; value < bound inside its loop
    pub protected: Option<u64>,
    /// data parameter (C07): never used in conditions, indices, dimensions
    pub data: bool,
    /// unique key of this declaration (for definite-assignment tracking)
    pub key: usize,
}

pub struct Gen<'a, 'b> {
    pub t: &'a mut Tape<'b>,
    pub p: &'a Profile,
    pub ids: &'a mut Ids,
    scopes: Vec<Vec<VarInfo>>,
    assigned: std::collections::BTreeSet<usize>,
    next_key: usize,
    fresh: usize,
    budget: usize,
    in_loop: usize,
    /// condition context: no data variables
    control_ctx: bool,
    /// variables holding values that depend on indeterminates (signals, ports, data parameters)
    tainted: std::collections::BTreeSet<usize>,
    /// set when the expression generated last read something data-dependent
    saw_data: bool,
}

fn boundary_literals(p: &BigUint) -> Vec<BigUint> {
    let one = BigUint::one();
    let half = p >> 1usize;
    let mut v = vec![
        BigUint::zero(),
        one.clone(),
        BigUint::from(2u32),
        BigUint::from(3u32),
        BigUint::from(5u32),
        BigUint::from(7u32),
        BigUint::from(255u32),
        BigUint::from(256u32),
        &half - &one,
        half.clone(),
        &half + &one,
        p - BigUint::from(2u32),
        p - &one,
    ];
    for k in [31usize, 32, 63, 64, 253, 254, 255] {
        let x = BigUint::one() << k;
        for y in [&x - &one, x.clone(), &x + &one] {
            if &y < p {
                v.push(y);
            }
        }
    }
    v
}

impl<'a, 'b> Gen<'a, 'b> {
    pub fn new(t: &'a mut Tape<'b>, p: &'a Profile, ids: &'a mut Ids) -> Gen<'a, 'b> {
        Gen {
            t,
            p,
            ids,
            scopes: vec![],
            assigned: Default::default(),
            next_key: 0,
            fresh: 0,
            budget: 0,
            in_loop: 0,
            control_ctx: false,
            tainted: Default::default(),
            saw_data: false,
        }
    }

    fn lookup(&self, name: &str) -> Option<&VarInfo> {
        for s in self.scopes.iter().rev() {
            for v in s.iter().rev() {
                if v.name == name {
                    return Some(v);
                }
            }
        }
        None
    }

    /// All visible variables (innermost binding per name).
    fn visible(&self) -> Vec<VarInfo> {
        let mut seen = std::collections::HashSet::new();
        let mut out = Vec::new();
        for s in self.scopes.iter().rev() {
            for v in s.iter().rev() {
                if seen.insert(v.name.clone()) {
                    out.push(v.clone());
                }
            }
        }
        out.reverse();
        out
    }

    fn declare(&mut self, name: &str, ty: Ty, protected: Option<u64>, data: bool) -> usize {
        let key = self.next_key;
        self.next_key += 1;
        self.scopes.last_mut().unwrap().push(VarInfo { name: name.to_string(), ty, protected, data, key });
        key
    }

    fn pick_decl_name(&mut self) -> String {
        if self.p.shadow && self.t.chance(70) {
            // redeclare something visible (guaranteed shadowing)
            let vis: Vec<String> = self
                .visible()
                .into_iter()
                .filter(|v| matches!(v.ty, Ty::Var | Ty::VarArr(_)) && v.protected.is_none())
                .map(|v| v.name)
                .collect();
            if !vis.is_empty() {
                return vis[self.t.below(vis.len())].clone();
            }
        }
        if self.p.shadow && self.t.chance(150) {
            let n = self.p.name_pool[self.t.below(self.p.name_pool.len())];
            // never shadow a protected loop counter or a non-variable with a variable of the same
            // name in a way that changes nothing: all redeclarations are fine for the resolver.
            n.to_string()
        } else {
            // a name not visible here
            for _ in 0..4 {
                let n = self.p.name_pool[self.t.below(self.p.name_pool.len())];
                if self.lookup(n).is_none() {
                    return n.to_string();
                }
            }
            self.fresh += 1;
            format!("v{}", self.fresh)
        }
    }

    fn fresh_name(&mut self, prefix: &str) -> String {
        self.fresh += 1;
        format!("{prefix}{}", self.fresh)
    }

    // -----------------------------------------------------------------
    // Expressions
    // -----------------------------------------------------------------

    pub fn literal(&mut self) -> Expr {
        let id = self.ids.next();
        match &self.p.prime {
            None => {
                let v = self.t.below(6) as u64;
                Expr::Num { id, text: v.to_string(), value: BigUint::from(v) }
            }
            Some(p) => {
                if self.p.literals_beyond_prime && self.t.chance(45) {
                    let primes = crate::field::curve_primes();
                    let q = primes[self.t.below(3)].1.clone();
                    let k = BigUint::from(1 + self.t.below(2) as u64);
                    let value = match self.t.below(4) {
                        0 | 1 => &q * &k,
                        2 => &q * &k + BigUint::one(),
                        _ => &q * &k - BigUint::one(),
                    };
                    let text = if self.t.chance(40) { format!("0x{}", value.to_str_radix(16)) } else { value.to_string() };
                    return Expr::Num { id, text, value };
                }
                let value = match self.t.below(4) {
                    0 => BigUint::from(self.t.below(6) as u64),
                    1 => BigUint::from(self.t.below(300) as u64),
                    2 => {
                        let b = boundary_literals(p);
                        b[self.t.below(b.len())].clone()
                    }
                    _ => {
                        let mut bytes = [0u8; 33];
                        let n = 1 + self.t.below(33);
                        for b in bytes.iter_mut().take(n) {
                            *b = self.t.byte();
                        }
                        BigUint::from_bytes_le(&bytes) % p
                    }
                };
                let text = if self.t.chance(40) { format!("0x{}", value.to_str_radix(16)) } else { value.to_string() };
                Expr::Num { id, text, value }
            }
        }
    }

    fn small_literal(&mut self, v: u64) -> Expr {
        Expr::Num { id: self.ids.next(), text: v.to_string(), value: BigUint::from(v) }
    }

    /// An index expression guaranteed to be in `0..len`.
    fn index_expr(&mut self, len: usize, depth: usize) -> Expr {
        // a protected counter with a suitable bound
        let counters: Vec<VarInfo> = self
            .visible()
            .into_iter()
            .filter(|v| matches!(v.protected, Some(b) if b as usize <= len) && v.ty == Ty::Var)
            .collect();
        if !counters.is_empty() && self.t.chance(150) {
            let c = &counters[self.t.below(counters.len())];
            return Expr::Var { id: self.ids.next(), name: c.name.clone(), access: vec![] };
        }
        if depth > 0 && self.t.chance(50) {
            let saved = self.control_ctx;
            self.control_ctx = true;
            let e = self.expr(depth - 1);
            self.control_ctx = saved;
            let l = self.small_literal(len as u64);
            return Expr::Infix { id: self.ids.next(), op: Op::Mod, l: Box::new(e), r: Box::new(l) };
        }
        let v = self.t.below(len) as u64;
        self.small_literal(v)
    }

    fn readable(&self, v: &VarInfo) -> bool {
        if self.control_ctx && (v.data || (!self.p.signal_conditions && self.tainted.contains(&v.key))) {
            return false;
        }
        match &v.ty {
            Ty::Var | Ty::VarArr(_) => self.assigned.contains(&v.key) || self.p.reads_any_declared,
            Ty::Sig(SigKind::Input) | Ty::SigArr(SigKind::Input, _) => {
                !self.control_ctx || self.p.signal_conditions
            }
            Ty::Sig(_) | Ty::SigArr(_, _) => {
                self.assigned.contains(&v.key) && (!self.control_ctx || self.p.signal_conditions)
            }
            Ty::Comp(_) => false,
        }
    }

    /// A scalar read of something visible, if anything is readable.
    fn read(&mut self, depth: usize) -> Option<Expr> {
        let vis: Vec<VarInfo> = self.visible().into_iter().filter(|v| self.readable(v)).collect();
        if vis.is_empty() {
            return None;
        }
        let v = vis[self.t.below(vis.len())].clone();
        if v.data || self.tainted.contains(&v.key) || matches!(v.ty, Ty::Sig(_) | Ty::SigArr(..)) {
            self.saw_data = true;
        }
        let id = self.ids.next();
        Some(match v.ty {
            Ty::Var | Ty::Sig(_) => Expr::Var { id, name: v.name, access: vec![] },
            Ty::VarArr(n) | Ty::SigArr(_, n) => {
                let ix = self.index_expr(n, depth);
                Expr::Var { id, name: v.name, access: vec![Access::Index(ix)] }
            }
            Ty::Comp(_) => unreachable!(),
        })
    }

    /// Read of an output port of an initialised component (C07).
    fn port_read(&mut self) -> Option<Expr> {
        if !self.p.components || self.control_ctx {
            return None;
        }
        let comps: Vec<VarInfo> = self
            .visible()
            .into_iter()
            .filter(|v| matches!(v.ty, Ty::Comp(_)) && self.assigned.contains(&v.key))
            .collect();
        if comps.is_empty() {
            return None;
        }
        let c = comps[self.t.below(comps.len())].clone();
        let Ty::Comp(ti) = c.ty else { return None };
        if self.p.port_arrays {
            let ix = self.read(0).unwrap_or_else(|| self.literal());
            self.saw_data = true;
            return Some(Expr::Var { id: self.ids.next(), name: c.name, access: vec![Access::Field("pout".into()), Access::Index(ix)] });
        }
        let sig = &self.p.templates[ti];
        if sig.outputs.is_empty() {
            return None;
        }
        let port = sig.outputs[self.t.below(sig.outputs.len())].clone();
        self.saw_data = true;
        Some(Expr::Var { id: self.ids.next(), name: c.name, access: vec![Access::Field(port)] })
    }

    fn infix_op(&mut self) -> Op {
        match self.p.ops {
            OpsLevel::Trivial => *self.t.pick(&[Op::Add, Op::Lt, Op::Eq, Op::Sub]),
            OpsLevel::Arith => *self.t.pick(&[Op::Add, Op::Sub, Op::Mul, Op::Lt, Op::Eq, Op::Ne, Op::Le]),
            OpsLevel::All => {
                if self.p.poly_bias > 0 && self.t.chance(self.p.poly_bias) {
                    *self.t.pick(&[Op::Add, Op::Sub, Op::Mul, Op::Mul])
                } else {
                    crate::field::ALL_OPS[self.t.below(20)]
                }
            }
        }
    }

    /// Generate an expression and report whether it reads anything data-dependent.
    fn expr_tracked(&mut self, depth: usize) -> (Expr, bool) {
        let saved = std::mem::replace(&mut self.saw_data, false);
        let e = self.expr(depth);
        let data = self.saw_data;
        self.saw_data = saved || data;
        (e, data)
    }

    fn taint(&mut self, key: usize, data: bool) {
        if data {
            self.tainted.insert(key);
        }
    }

    pub fn expr(&mut self, depth: usize) -> Expr {
        let mut choice = if depth == 0 { self.t.below(3) } else { self.t.below(10) };
        if depth > 0 && self.p.call_bias > 0 && !self.p.helpers.is_empty() && self.t.chance(self.p.call_bias) {
            choice = 9;
        }
        match choice {
            0 => self.literal(),
            1 | 2 => {
                if self.t.chance(30) {
                    if let Some(e) = self.port_read() {
                        return e;
                    }
                }
                self.read(depth).unwrap_or_else(|| self.literal())
            }
            3..=6 => {
                let op = self.infix_op();
                let l = self.expr(depth - 1);
                let r = if matches!(op, Op::ShiftL | Op::ShiftR | Op::Pow) && self.t.chance(200) {
                    // keep shift counts and exponents mostly small so values stay interesting
                    let v = self.t.below(260) as u64;
                    self.small_literal(v)
                } else {
                    self.expr(depth - 1)
                };
                Expr::Infix { id: self.ids.next(), op, l: Box::new(l), r: Box::new(r) }
            }
            7 => {
                if self.p.ops == OpsLevel::All {
                    let op = crate::field::ALL_UNOPS[self.t.below(3)];
                    let e = self.expr(depth - 1);
                    Expr::Prefix { id: self.ids.next(), op, e: Box::new(e) }
                } else if self.p.ops == OpsLevel::Arith {
                    let e = self.expr(depth - 1);
                    Expr::Prefix { id: self.ids.next(), op: UnOp::Neg, e: Box::new(e) }
                } else {
                    self.read(depth).unwrap_or_else(|| self.literal())
                }
            }
            8 => {
                if self.p.ops != OpsLevel::Trivial {
                    let saved = self.control_ctx;
                    let data_cond = !saved && self.p.data_ternary_chance > 0 && self.t.chance(self.p.data_ternary_chance);
                    if !data_cond {
                        self.control_ctx = true;
                    }
                    let c = self.expr(depth - 1);
                    self.control_ctx = saved;
                    let a = self.expr(depth - 1);
                    let b = self.expr(depth - 1);
                    Expr::Ternary { id: self.ids.next(), c: Box::new(c), a: Box::new(a), b: Box::new(b) }
                } else {
                    self.literal()
                }
            }
            _ => {
                if !self.p.helpers.is_empty() {
                    let (name, arity) = self.p.helpers[self.t.below(self.p.helpers.len())].clone();
                    let saved = self.control_ctx;
                    if self.p.calls_control_only {
                        self.control_ctx = true;
                    }
                    let args = (0..arity).map(|_| self.expr(depth - 1)).collect();
                    self.control_ctx = saved;
                    Expr::Call { id: self.ids.next(), name, args }
                } else {
                    self.read(depth).unwrap_or_else(|| self.literal())
                }
            }
        }
    }

    fn cond(&mut self) -> Expr {
        let saved = self.control_ctx;
        self.control_ctx = true;
        let e = match self.p.ops {
            OpsLevel::Trivial => {
                let l = self.read(0).unwrap_or_else(|| self.literal());
                let r = self.literal();
                let op = *self.t.pick(&[Op::Lt, Op::Eq, Op::Ne, Op::Gt]);
                Expr::Infix { id: self.ids.next(), op, l: Box::new(l), r: Box::new(r) }
            }
            _ => {
                if self.t.chance(200) {
                    let l = self.expr(1);
                    let r = self.expr(1);
                    let op = *self.t.pick(&[Op::Lt, Op::Eq, Op::Ne, Op::Gt, Op::Le, Op::Ge]);
                    Expr::Infix { id: self.ids.next(), op, l: Box::new(l), r: Box::new(r) }
                } else {
                    self.expr(2)
                }
            }
        };
        self.control_ctx = saved;
        e
    }

    // -----------------------------------------------------------------
    // Statements
    // -----------------------------------------------------------------

    fn var_decl(&mut self) -> Stmt {
        let id = self.ids.next();
        let n = 1 + if self.t.chance(if self.p.shadow { 80 } else { 50 }) { self.t.below(2) } else { 0 };
        let mut syms = Vec::new();
        for k in 0..n {
            let arr = self.p.arrays && self.t.chance(50);
            let mut name = self.pick_decl_name();
            if k > 0 && self.p.shadow && self.t.chance(110) {
                // redeclare a name that an earlier initialiser of this statement reads: that read
                // still refers to the outer declaration
                let mut read: Vec<String> = Vec::new();
                for s in &syms {
                    let s: &DeclSym = s;
                    if let Some(init) = &s.init {
                        init.walk(&mut |x| {
                            if let Expr::Var { name, .. } = x {
                                read.push(name.clone());
                            }
                        });
                    }
                }
                read.retain(|r| self.visible().iter().any(|v| v.name == *r && matches!(v.ty, Ty::Var | Ty::VarArr(_)) && v.protected.is_none()));
                if !read.is_empty() {
                    name = read[self.t.below(read.len())].clone();
                }
            }
            if syms.iter().any(|s: &DeclSym| s.name == name) {
                // names within one declaration statement are kept distinct
                name = self.fresh_name("v");
            }
            let sid = self.ids.next();
            let sub_id = self.ids.next();
            // Circom (and circomspect) declare the name first and then run the
            // initialiser, so the initialiser already sees the new variable.
            let (dims, init) = if arr {
                let len = 1 + self.t.below(4);
                let mut dim = self.small_literal(len as u64);
                if self.p.dynamic_dims && self.t.chance(100) {
                    let saved = self.control_ctx;
                    self.control_ctx = true;
                    let scalars: Vec<VarInfo> =
                        self.visible().into_iter().filter(|v| v.ty == Ty::Var && v.name != name && self.readable(v)).collect();
                    self.control_ctx = saved;
                    if !scalars.is_empty() {
                        let x = scalars[self.t.below(scalars.len())].clone();
                        let three = self.small_literal(3);
                        let masked = Expr::Infix {
                            id: self.ids.next(),
                            op: Op::BitAnd,
                            l: Box::new(Expr::Var { id: self.ids.next(), name: x.name, access: vec![] }),
                            r: Box::new(three),
                        };
                        dim = Expr::Infix { id: self.ids.next(), op: Op::Add, l: Box::new(dim), r: Box::new(masked) };
                    }
                }
                let key = self.declare(&name, Ty::VarArr(len), None, false);
                let init = if self.p.uninit_decl && self.t.chance(40) {
                    None
                } else {
                    let mut any = false;
                    let elems = (0..len)
                        .map(|_| {
                            let (e, d) = self.expr_tracked(1);
                            any |= d;
                            e
                        })
                        .collect();
                    self.taint(key, any);
                    self.assigned.insert(key);
                    Some(Expr::ArrayLit { id: self.ids.next(), elems })
                };
                (vec![dim], init)
            } else {
                let key = self.declare(&name, Ty::Var, None, false);
                let init = if self.p.uninit_decl && self.t.chance(60) {
                    None
                } else {
                    let (e, d) = self.expr_tracked(2);
                    self.taint(key, d);
                    self.assigned.insert(key);
                    Some(e)
                };
                (vec![], init)
            };
            syms.push(DeclSym { id: sid, sub_id, name, dims, init });
        }
        Stmt::Decl { id, kind: DeclKind::Var, syms, init_op: AssignOp::Var }
    }

    /// `signal <pool name>;` or `signal <pool name> <== e;` in the current block.
    fn signal_decl(&mut self) -> Stmt {
        let name = self.pick_decl_name();
        let sid = self.ids.next();
        let mut init = None;
        let mut init_op = AssignOp::Constrain;
        if self.t.chance(110) {
            init = Some(self.expr(2));
            init_op = if self.t.chance(128) { AssignOp::Constrain } else { AssignOp::Signal };
        }
        let has_init = init.is_some();
        let key = self.declare(&name, Ty::Sig(SigKind::Intermediate), None, false);
        if has_init {
            self.assigned.insert(key);
        }
        Stmt::Decl {
            id: self.ids.next(),
            kind: DeclKind::Signal(SigKind::Intermediate, vec![]),
            syms: vec![DeclSym { id: sid, sub_id: self.ids.next(), name, dims: vec![], init }],
            init_op,
        }
    }

    /// Assignable local targets (not protected counters).
    fn local_targets(&self) -> Vec<VarInfo> {
        self.visible()
            .into_iter()
            .filter(|v| matches!(v.ty, Ty::Var | Ty::VarArr(_)) && v.protected.is_none())
            .collect()
    }

    fn assign_local(&mut self) -> Option<Stmt> {
        let targets = self.local_targets();
        if targets.is_empty() {
            return None;
        }
        let v = targets[self.t.below(targets.len())].clone();
        let was_assigned = self.assigned.contains(&v.key);
        let id = self.ids.next();
        match v.ty {
            Ty::Var => {
                let form = if self.p.compound && was_assigned { self.t.below(4) } else { 0 };
                let st = match form {
                    1 => {
                        let op = match if self.p.all_compound_ops { OpsLevel::All } else { self.p.ops } {
                            OpsLevel::Trivial => *self.t.pick(&[Op::Add, Op::Sub]),
                            OpsLevel::Arith => *self.t.pick(&[Op::Add, Op::Sub, Op::Mul]),
                            OpsLevel::All => *self.t.pick(&[
                                Op::Add,
                                Op::Sub,
                                Op::Mul,
                                Op::Div,
                                Op::IntDiv,
                                Op::Mod,
                                Op::Pow,
                                Op::ShiftL,
                                Op::ShiftR,
                                Op::BitAnd,
                                Op::BitOr,
                                Op::BitXor,
                            ]),
                        };
                        let rhs = if matches!(op, Op::ShiftL | Op::ShiftR | Op::Pow) {
                            let k = self.t.below(70) as u64;
                            self.small_literal(k)
                        } else {
                            let (e, d) = self.expr_tracked(1);
                            self.taint(v.key, d);
                            e
                        };
                        Stmt::Compound { id, name: v.name.clone(), access: vec![], op, rhs }
                    }
                    2 => Stmt::IncDec { id, name: v.name.clone(), access: vec![], inc: self.t.chance(160) },
                    _ => {
                        let (rhs, d) = if was_assigned && self.p.self_update_bias > 0 && self.t.chance(self.p.self_update_bias) {
                            let op = self.infix_op();
                            let (e, d) = self.expr_tracked(1);
                            let me = Expr::Var { id: self.ids.next(), name: v.name.clone(), access: vec![] };
                            let (l, r) = if self.t.chance(200) { (me, e) } else { (e, me) };
                            (Expr::Infix { id: self.ids.next(), op, l: Box::new(l), r: Box::new(r) }, d)
                        } else {
                            self.expr_tracked(2)
                        };
                        self.taint(v.key, d);
                        let lhs = Expr::Var { id: self.ids.next(), name: v.name.clone(), access: vec![] };
                        Stmt::Assign { id, lhs, op: AssignOp::Var, rhs, reversed: false }
                    }
                };
                self.assigned.insert(v.key);
                Some(st)
            }
            Ty::VarArr(n) => {
                if (!was_assigned && !(self.p.elementwise_first && self.t.chance(150))) || (was_assigned && self.t.chance(60)) {
                    // whole-array assignment
                    let mut any = false;
                    let elems = (0..n)
                        .map(|_| {
                            let (e, d) = self.expr_tracked(1);
                            any |= d;
                            e
                        })
                        .collect();
                    self.taint(v.key, any);
                    let rhs = Expr::ArrayLit { id: self.ids.next(), elems };
                    let lhs = Expr::Var { id: self.ids.next(), name: v.name.clone(), access: vec![] };
                    self.assigned.insert(v.key);
                    Some(Stmt::Assign { id, lhs, op: AssignOp::Var, rhs, reversed: false })
                } else {
                    let ix = self.index_expr(n, 1);
                    let (rhs, d) = if self.p.call_bias > 0 && !self.p.helpers.is_empty() && self.t.chance(self.p.call_bias * 2) {
                        // `a[k] = h(e, ..)` with compound arguments: an element without a degree of its own
                        let (name, arity) = self.p.helpers[self.t.below(self.p.helpers.len())].clone();
                        let saved = std::mem::replace(&mut self.saw_data, false);
                        let args = (0..arity).map(|_| self.expr(1)).collect();
                        let d = self.saw_data;
                        self.saw_data = saved || d;
                        (Expr::Call { id: self.ids.next(), name, args }, d)
                    } else {
                        self.expr_tracked(2)
                    };
                    self.taint(v.key, d);
                    // (an array filled element by element counts as assigned from its first element on;
                    // the right-hand side above could not read it yet)
                    self.assigned.insert(v.key);
                    if was_assigned && self.p.compound && self.t.chance(50) {
                        let op = *self.t.pick(&[Op::Add, Op::Sub, Op::Mul]);
                        return Some(Stmt::Compound {
                            id,
                            name: v.name.clone(),
                            access: vec![Access::Index(ix)],
                            op,
                            rhs,
                        });
                    }
                    let lhs =
                        Expr::Var { id: self.ids.next(), name: v.name.clone(), access: vec![Access::Index(ix)] };
                    Some(Stmt::Assign { id, lhs, op: AssignOp::Var, rhs, reversed: false })
                }
            }
            _ => None,
        }
    }

    /// Assign an unassigned (or any, for arrays: an element) output/intermediate signal.
    fn assign_signal(&mut self) -> Option<Stmt> {
        let cands: Vec<VarInfo> = self
            .visible()
            .into_iter()
            .filter(|v| match &v.ty {
                Ty::Sig(k) => *k != SigKind::Input && !self.assigned.contains(&v.key),
                Ty::SigArr(k, _) => *k != SigKind::Input && !self.assigned.contains(&v.key),
                _ => false,
            })
            .collect();
        if cands.is_empty() {
            return None;
        }
        let v = cands[self.t.below(cands.len())].clone();
        let op = if self.t.chance(128) { AssignOp::Constrain } else { AssignOp::Signal };
        let reversed = self.p.reversed_assign && self.t.chance(50);
        let id = self.ids.next();
        match v.ty {
            Ty::Sig(_) => {
                let rhs = self.expr(3);
                let lhs = Expr::Var { id: self.ids.next(), name: v.name.clone(), access: vec![] };
                self.assigned.insert(v.key);
                Some(Stmt::Assign { id, lhs, op, rhs, reversed })
            }
            Ty::SigArr(_, n) => {
                // assign all elements with a protected for-loop, element-wise
                let i = self.fresh_name("j");
                let for_id = self.ids.next();
                self.scopes.push(vec![]);
                let key = self.declare(&i, Ty::Var, Some(n as u64), false);
                self.assigned.insert(key);
                let init = Stmt::Decl {
                    id: self.ids.next(),
                    kind: DeclKind::Var,
                    syms: vec![DeclSym {
                        id: self.ids.next(),
                        sub_id: self.ids.next(),
                        name: i.clone(),
                        dims: vec![],
                        init: Some(self.small_literal(0)),
                    }],
                    init_op: AssignOp::Var,
                };
                let cond = Expr::Infix {
                    id: self.ids.next(),
                    op: Op::Lt,
                    l: Box::new(Expr::Var { id: self.ids.next(), name: i.clone(), access: vec![] }),
                    r: Box::new(self.small_literal(n as u64)),
                };
                let step = Stmt::IncDec { id: self.ids.next(), name: i.clone(), access: vec![], inc: true };
                self.in_loop += 1;
                let rhs = self.expr(2);
                self.in_loop -= 1;
                let lhs = Expr::Var {
                    id: self.ids.next(),
                    name: v.name.clone(),
                    access: vec![Access::Index(Expr::Var { id: self.ids.next(), name: i.clone(), access: vec![] })],
                };
                let body = Stmt::Block {
                    id: self.ids.next(),
                    stmts: vec![Stmt::Assign { id, lhs, op, rhs, reversed }],
                };
                self.scopes.pop();
                self.assigned.insert(v.key);
                Some(Stmt::For {
                    id: for_id,
                    init: Box::new(init),
                    cond,
                    step: Box::new(step),
                    body: Box::new(body),
                })
            }
            _ => None,
        }
    }

    fn constraint(&mut self) -> Option<Stmt> {
        let saved = self.control_ctx;
        let l = self.expr(2);
        let r = self.expr(2);
        self.control_ctx = saved;
        Some(Stmt::ConstraintEq { id: self.ids.next(), l, r })
    }

    /// A statement allowed as an unbraced body: `class` 2 = no `if`, 1 = closed ifs only.
    fn body(&mut self, depth: usize, class: u8) -> Stmt {
        self.scopes.push(vec![]);
        let s = if self.p.unbraced && self.t.chance(70) {
            // a single non-declaration statement without braces
            let s = self.stmt(depth, false);
            let ok = match class {
                2 => !matches!(s, Stmt::If { .. }),
                1 => closed(&s),
                _ => true,
            };
            if ok && !matches!(s, Stmt::Decl { .. } | Stmt::TupleDecl { .. }) {
                s
            } else {
                Stmt::Block { id: self.ids.next(), stmts: vec![s] }
            }
        } else {
            let n = if self.p.empty_blocks && self.t.chance(30) { 0 } else { 1 + self.t.below(3) };
            let mut stmts = Vec::new();
            for _ in 0..n {
                if self.budget == 0 {
                    break;
                }
                stmts.push(self.stmt(depth, true));
            }
            if stmts.is_empty() && !self.p.empty_blocks {
                stmts.push(self.stmt(0, false));
            }
            Stmt::Block { id: self.ids.next(), stmts }
        };
        self.scopes.pop();
        s
    }

    /// One statement.  `decl_ok`: a declaration may be produced (only inside blocks).
    pub fn stmt(&mut self, depth: usize, decl_ok: bool) -> Stmt {
        self.budget = self.budget.saturating_sub(1);
        let roll = self.t.below(if depth == 0 { 8 } else { 14 });
        if self.p.port_arrays && self.t.chance(40) {
            let comps: Vec<VarInfo> =
                self.visible().into_iter().filter(|v| matches!(v.ty, Ty::Comp(_)) && self.assigned.contains(&v.key)).collect();
            if !comps.is_empty() {
                let c = comps[self.t.below(comps.len())].clone();
                let ix = self.read(0).unwrap_or_else(|| self.literal());
                let lhs = Expr::Var { id: self.ids.next(), name: c.name, access: vec![Access::Field("pin".into()), Access::Index(ix)] };
                let rhs = self.expr(1);
                let op = if self.t.chance(128) { AssignOp::Constrain } else { AssignOp::Signal };
                return Stmt::Assign { id: self.ids.next(), lhs, op, rhs, reversed: false };
            }
        }
        if self.p.call_bias > 0 && self.t.chance(if self.in_loop > 0 { 40 } else { 24 }) {
            if let Some(s) = self.array_chain() {
                return s;
            }
        }
        if self.p.uninit_decl && self.p.elementwise_first && self.p.call_bias > 0 && depth > 0 && self.t.chance(14) {
            if let Some(s) = self.loop_filled_array() {
                return s;
            }
        }
        if self.p.dynamic_dims && self.t.chance(12) {
            if let Some(s) = self.lookup_table() {
                return s;
            }
        }
        if self.p.uninit_decl && self.p.elementwise_first && self.p.call_bias > 0 && depth > 0 && self.t.chance(14) {
            if let Some(s) = self.delayed_array_split() {
                return s;
            }
        }
        if self.p.self_update_bias > 0 && self.p.call_bias > 0 && depth > 0 && self.t.chance(16) {
            if let Some(s) = self.accumulate_while() {
                return s;
            }
        }
        if self.p.self_update_bias > 0 && self.in_loop > 0 && self.t.chance(40) {
            if let Some(s) = self.copy_through() {
                return s;
            }
        }
        if self.p.empty_blocks && decl_ok && self.t.chance(14) {
            // a free-standing block as a statement of its own: `{}` or `{ s; .. }` (a scope like any other)
            self.scopes.push(vec![]);
            let n = if self.t.chance(120) { 0 } else { 1 + self.t.below(2) };
            let mut stmts = Vec::new();
            for _ in 0..n {
                if self.budget == 0 {
                    break;
                }
                stmts.push(self.stmt(depth.saturating_sub(1), true));
            }
            self.scopes.pop();
            return Stmt::Block { id: self.ids.next(), stmts };
        }
        match roll {
            0 | 1 if decl_ok && self.p.template && self.p.signals && self.p.nested_signal_decls && self.t.chance(90) => {
                self.signal_decl()
            }
            0 | 1 if decl_ok => self.var_decl(),
            0..=4 => {
                if self.p.signals && (self.in_loop == 0 || self.p.nested_signal_assign) && self.t.chance(60) {
                    if let Some(s) = self.assign_signal() {
                        return s;
                    }
                }
                if let Some(s) = self.assign_local() {
                    return s;
                }
                if decl_ok {
                    self.var_decl()
                } else {
                    self.fallback_simple()
                }
            }
            5 => {
                if self.p.signals && self.t.chance(128) {
                    if let Some(s) = self.constraint() {
                        return s;
                    }
                }
                self.fallback_simple()
            }
            6 => {
                if self.p.log_assert {
                    if self.t.chance(128) {
                        let saved = self.control_ctx;
                        self.control_ctx = true;
                        let e = self.cond();
                        self.control_ctx = saved;
                        Stmt::Assert { id: self.ids.next(), e }
                    } else {
                        let mut args = Vec::new();
                        for _ in 0..self.t.below(3) {
                            if self.t.chance(80) {
                                args.push(LogArg::Str("msg".into()));
                            } else {
                                args.push(LogArg::Expr(self.expr(1)));
                            }
                        }
                        Stmt::Log { id: self.ids.next(), args }
                    }
                } else {
                    self.fallback_simple()
                }
            }
            7 => {
                if self.p.early_return && !self.p.template && self.t.chance(60) {
                    let e = self.expr(2);
                    Stmt::Return { id: self.ids.next(), e }
                } else {
                    self.fallback_simple()
                }
            }
            8..=10 => {
                // if / if-else
                let id = self.ids.next();
                let cond = self.cond();
                let has_else = self.t.chance(110);
                let before = self.assigned.clone();
                let then = self.body(depth - 1, if has_else { 1 } else { 0 });
                let after_then = std::mem::replace(&mut self.assigned, before.clone());
                let els = if has_else {
                    let e = self.body(depth - 1, 0);
                    Some(Box::new(e))
                } else {
                    None
                };
                let after_else = std::mem::replace(&mut self.assigned, before);
                // definitely assigned after the if = intersection
                for k in after_then.intersection(&after_else) {
                    self.assigned.insert(*k);
                }
                Stmt::If { id, cond, then: Box::new(then), els }
            }
            11 => {
                // while with a fresh protected counter: declared before, stepped at the end of the body
                self.counted_while(depth)
            }
            12 => self.for_loop(depth),
            _ => {
                // free-form while (condition over arbitrary state); may not terminate -> fuel
                let id = self.ids.next();
                let cond = self.cond();
                let before = self.assigned.clone();
                self.in_loop += 1;
                let body = self.body(depth - 1, 2);
                self.in_loop -= 1;
                self.assigned = before;
                Stmt::While { id, cond, body: Box::new(body) }
            }
        }
    }

    /// `{ a[i] = <element without a degree>; a[j] = <simple>; x = a[i] op e; }` on an assigned array
    /// (no declarations inside, so the block does not change scoping).
    fn array_chain(&mut self) -> Option<Stmt> {
        let arrays: Vec<VarInfo> = self
            .visible()
            .into_iter()
            .filter(|v| {
                matches!(v.ty, Ty::VarArr(n) if n >= 2)
                    && v.protected.is_none()
                    && (self.assigned.contains(&v.key) || self.p.elementwise_first)
            })
            .collect();
        if arrays.is_empty() {
            return None;
        }
        let a = arrays[self.t.below(arrays.len())].clone();
        // (an array declared without initialiser gets its first elements here; the right-hand sides
        // below are generated while it is still unreadable)
        let read_between = self.t.chance(110);
        let Ty::VarArr(n) = a.ty else { return None };
        let i = self.t.below(n);
        let j = (i + 1 + self.t.below(n - 1)) % n;
        let mut stmts = Vec::new();
        // first element: a helper call with compound arguments, or any expression
        let saved = std::mem::replace(&mut self.saw_data, false);
        let rhs1 = if !self.p.helpers.is_empty() && self.t.chance(180) {
            let (name, arity) = self.p.helpers[self.t.below(self.p.helpers.len())].clone();
            let args = (0..arity).map(|_| self.expr(1)).collect();
            Expr::Call { id: self.ids.next(), name, args }
        } else {
            self.expr(2)
        };
        let rhs2 = if self.t.chance(150) { self.literal() } else { self.expr(1) };
        let d = self.saw_data;
        self.saw_data = saved || d;
        self.taint(a.key, d);
        let (first, second) = if self.t.chance(200) { ((i, rhs1), (j, rhs2)) } else { ((j, rhs2), (i, rhs1)) };
        let first_index = first.0;
        // the second write may sit in another basic block (inside a branch)
        let split = self.t.chance(140);
        for (n, (k, rhs)) in [first, second].into_iter().enumerate() {
            let ix = self.small_literal(k as u64);
            let lhs = Expr::Var { id: self.ids.next(), name: a.name.clone(), access: vec![Access::Index(ix)] };
            let st = Stmt::Assign { id: self.ids.next(), lhs, op: AssignOp::Var, rhs, reversed: false };
            if n == 1 && split {
                let cond = self.cond();
                let then = Stmt::Block { id: self.ids.next(), stmts: vec![st] };
                stmts.push(Stmt::If { id: self.ids.next(), cond, then: Box::new(then), els: None });
            } else {
                stmts.push(st);
            }
        }
        self.assigned.insert(a.key);
        // a read of one of the two elements into a scalar local, if there is one
        let scalars: Vec<VarInfo> =
            self.local_targets().into_iter().filter(|v| v.ty == Ty::Var && v.key != a.key).collect();
        if !scalars.is_empty() && !(self.control_ctx) {
            let x = scalars[self.t.below(scalars.len())].clone();
            let k = if self.t.chance(128) { i } else { j };
            let ix = self.small_literal(k as u64);
            let read = Expr::Var { id: self.ids.next(), name: a.name.clone(), access: vec![Access::Index(ix)] };
            let rhs = if self.t.chance(128) {
                read
            } else {
                let op = self.infix_op();
                let (e, d2) = self.expr_tracked(1);
                self.taint(x.key, d2);
                Expr::Infix { id: self.ids.next(), op, l: Box::new(read), r: Box::new(e) }
            };
            if self.tainted.contains(&a.key) {
                self.tainted.insert(x.key);
            }
            let lhs = Expr::Var { id: self.ids.next(), name: x.name.clone(), access: vec![] };
            let read = Stmt::Assign { id: self.ids.next(), lhs, op: AssignOp::Var, rhs, reversed: false };
            let _ = first_index;
            let x_was_assigned = self.assigned.contains(&x.key);
            if split && x_was_assigned && self.t.chance(150) {
                // the read sits in the branch, right behind the second write (`if (c) { a[j] = ..; x = a[k]; }`)
                if let Some(Stmt::If { then, .. }) = stmts.last_mut() {
                    if let Stmt::Block { stmts: inner, .. } = then.as_mut() {
                        inner.push(read);
                    }
                }
            } else if read_between {
                // write, read of the element just written, second write
                stmts.insert(1, read);
            } else {
                stmts.push(read);
            }
            self.assigned.insert(x.key);
        }
        Some(Stmt::Block { id: self.ids.next(), stmts })
    }

    /// `{ var za[2]; for (var i = 0; i < B; i++) { za[1] = lit; x = za[0] op e; za[0] = <data>; } }`:
    /// an array that is declared before a loop and only written inside it, read between the writes.
    fn loop_filled_array(&mut self) -> Option<Stmt> {
        let scalars: Vec<VarInfo> = self.local_targets().into_iter().filter(|v| v.ty == Ty::Var).collect();
        if scalars.is_empty() || self.control_ctx {
            return None;
        }
        let x = scalars[self.t.below(scalars.len())].clone();
        let za = self.fresh_name("za");
        let i = self.fresh_name("i");
        let bound = 2 + self.t.below(3) as u64;
        let num = |g: &mut Self, v: u64| g.small_literal(v);
        let decl = Stmt::Decl {
            id: self.ids.next(),
            kind: DeclKind::Var,
            syms: vec![DeclSym { id: self.ids.next(), sub_id: self.ids.next(), name: za.clone(), dims: vec![num(self, 2)], init: None }],
            init_op: AssignOp::Var,
        };
        let init = Stmt::Decl {
            id: self.ids.next(),
            kind: DeclKind::Var,
            syms: vec![DeclSym { id: self.ids.next(), sub_id: self.ids.next(), name: i.clone(), dims: vec![], init: Some(num(self, 0)) }],
            init_op: AssignOp::Var,
        };
        let cond = Expr::Infix {
            id: self.ids.next(),
            op: Op::Lt,
            l: Box::new(Expr::Var { id: self.ids.next(), name: i.clone(), access: vec![] }),
            r: Box::new(num(self, bound)),
        };
        let step = Stmt::IncDec { id: self.ids.next(), name: i.clone(), access: vec![], inc: true };
        // the two element writes: a literal first, a data expression later (or the other way round)
        let (lo, hi) = if self.t.chance(200) { (1u64, 0u64) } else { (0, 1) };
        let lit = self.literal();
        self.in_loop += 1;
        let (data, d) = self.expr_tracked(2);
        let (e, d2) = self.expr_tracked(1);
        self.in_loop -= 1;
        let elem = |g: &mut Self, k: u64| Expr::Var { id: g.ids.next(), name: za.clone(), access: vec![Access::Index(g.small_literal(k))] };
        let w1 = Stmt::Assign { id: self.ids.next(), lhs: elem(self, lo), op: AssignOp::Var, rhs: lit, reversed: false };
        let read_elem = elem(self, hi);
        let rhs = if self.t.chance(128) {
            read_elem
        } else {
            let op = self.infix_op();
            Expr::Infix { id: self.ids.next(), op, l: Box::new(read_elem), r: Box::new(e) }
        };
        let lhs = Expr::Var { id: self.ids.next(), name: x.name.clone(), access: vec![] };
        let rd = Stmt::Assign { id: self.ids.next(), lhs, op: AssignOp::Var, rhs, reversed: false };
        let w2 = Stmt::Assign { id: self.ids.next(), lhs: elem(self, hi), op: AssignOp::Var, rhs: data, reversed: false };
        if d || d2 {
            self.tainted.insert(x.key);
        }
        self.assigned.insert(x.key);
        let body = Stmt::Block { id: self.ids.next(), stmts: vec![w1, rd, w2] };
        let for_stmt = Stmt::For { id: self.ids.next(), init: Box::new(init), cond, step: Box::new(step), body: Box::new(body) };
        Some(Stmt::Block { id: self.ids.next(), stmts: vec![decl, for_stmt] })
    }

    /// `{ var zl[2]; zl[0] = 3; zl[1] = 5; var zk = e; out <== zl[zk % 2]; }` (or `x = zl[zk % 2]`): a local
    /// whose only use is the position at which a local table is read.
    fn lookup_table(&mut self) -> Option<Stmt> {
        if self.control_ctx {
            return None;
        }
        let sigs: Vec<VarInfo> = if self.p.template && self.p.signals && self.in_loop == 0 {
            self.visible()
                .into_iter()
                .filter(|v| matches!(&v.ty, Ty::Sig(k) if *k != SigKind::Input) && !self.assigned.contains(&v.key))
                .collect()
        } else {
            vec![]
        };
        let scalars: Vec<VarInfo> =
            self.local_targets().into_iter().filter(|v| v.ty == Ty::Var && self.assigned.contains(&v.key)).collect();
        if sigs.is_empty() && scalars.is_empty() {
            return None;
        }
        let zl = self.fresh_name("zl");
        let zk = self.fresh_name("zk");
        let two = self.small_literal(2);
        let decl = Stmt::Decl {
            id: self.ids.next(),
            kind: DeclKind::Var,
            syms: vec![DeclSym { id: self.ids.next(), sub_id: self.ids.next(), name: zl.clone(), dims: vec![two], init: None }],
            init_op: AssignOp::Var,
        };
        let a = 1 + self.t.below(7) as u64;
        let b = a + 1 + self.t.below(7) as u64;
        let mut stmts = vec![decl];
        for (k, v) in [(0u64, a), (1, b)] {
            let ix = self.small_literal(k);
            let lhs = Expr::Var { id: self.ids.next(), name: zl.clone(), access: vec![Access::Index(ix)] };
            let rhs = self.small_literal(v);
            stmts.push(Stmt::Assign { id: self.ids.next(), lhs, op: AssignOp::Var, rhs, reversed: false });
        }
        // the position: an expression over locals and parameters that may steer control flow
        let saved = self.control_ctx;
        self.control_ctx = true;
        let e = self.expr(1);
        self.control_ctx = saved;
        stmts.push(Stmt::Decl {
            id: self.ids.next(),
            kind: DeclKind::Var,
            syms: vec![DeclSym { id: self.ids.next(), sub_id: self.ids.next(), name: zk.clone(), dims: vec![], init: Some(e) }],
            init_op: AssignOp::Var,
        });
        let two = self.small_literal(2);
        let pos = Expr::Infix {
            id: self.ids.next(),
            op: Op::Mod,
            l: Box::new(Expr::Var { id: self.ids.next(), name: zk.clone(), access: vec![] }),
            r: Box::new(two),
        };
        let read = Expr::Var { id: self.ids.next(), name: zl.clone(), access: vec![Access::Index(pos)] };
        if !sigs.is_empty() && self.t.chance(170) {
            let v = sigs[self.t.below(sigs.len())].clone();
            let op = if self.t.chance(128) { AssignOp::Constrain } else { AssignOp::Signal };
            let lhs = Expr::Var { id: self.ids.next(), name: v.name.clone(), access: vec![] };
            self.assigned.insert(v.key);
            stmts.push(Stmt::Assign { id: self.ids.next(), lhs, op, rhs: read, reversed: false });
        } else if !scalars.is_empty() {
            let x = scalars[self.t.below(scalars.len())].clone();
            let lhs = Expr::Var { id: self.ids.next(), name: x.name.clone(), access: vec![] };
            stmts.push(Stmt::Assign { id: self.ids.next(), lhs, op: AssignOp::Var, rhs: read, reversed: false });
        } else {
            return None;
        }
        Some(Stmt::Block { id: self.ids.next(), stmts })
    }

    /// `{ var zb[2]; var zt = <data>; zb[0] = zt op e; if (c) { zb[1] = lit; x = zb[0]; } }`: the first
    /// element write of an array waits behind a statement of its own block that needs passes of its own,
    /// the second write and the read sit in a later basic block (a branch, or the body of a loop).
    fn delayed_array_split(&mut self) -> Option<Stmt> {
        let scalars: Vec<VarInfo> =
            self.local_targets().into_iter().filter(|v| v.ty == Ty::Var && self.assigned.contains(&v.key)).collect();
        if scalars.is_empty() || self.control_ctx {
            return None;
        }
        let x = scalars[self.t.below(scalars.len())].clone();
        let zb = self.fresh_name("zb");
        let zt = self.fresh_name("zt");
        let (hi, lo) = if self.t.chance(200) { (0u64, 1u64) } else { (1, 0) };
        let two = self.small_literal(2);
        let decl = Stmt::Decl {
            id: self.ids.next(),
            kind: DeclKind::Var,
            syms: vec![DeclSym { id: self.ids.next(), sub_id: self.ids.next(), name: zb.clone(), dims: vec![two], init: None }],
            init_op: AssignOp::Var,
        };
        let (e0, d0) = self.expr_tracked(2);
        let tdecl = Stmt::Decl {
            id: self.ids.next(),
            kind: DeclKind::Var,
            syms: vec![DeclSym { id: self.ids.next(), sub_id: self.ids.next(), name: zt.clone(), dims: vec![], init: Some(e0) }],
            init_op: AssignOp::Var,
        };
        let (e1, d1) = self.expr_tracked(1);
        let op = if self.t.chance(170) { Op::Mul } else { self.infix_op() };
        let tread = Expr::Var { id: self.ids.next(), name: zt.clone(), access: vec![] };
        let rhs1 = Expr::Infix { id: self.ids.next(), op, l: Box::new(tread), r: Box::new(e1) };
        let elem = |g: &mut Self, k: u64| Expr::Var { id: g.ids.next(), name: zb.clone(), access: vec![Access::Index(g.small_literal(k))] };
        let w1 = Stmt::Assign { id: self.ids.next(), lhs: elem(self, hi), op: AssignOp::Var, rhs: rhs1, reversed: false };
        let in_loop = self.t.chance(90);
        let cond = if in_loop { None } else { Some(self.cond()) };
        if in_loop {
            self.in_loop += 1;
        }
        let rhs2 = if self.t.chance(190) { self.literal() } else { self.expr(0) };
        let d2 = false;
        let w2 = Stmt::Assign { id: self.ids.next(), lhs: elem(self, lo), op: AssignOp::Var, rhs: rhs2, reversed: false };
        let read_elem = elem(self, hi);
        let (rhs, d3) = if self.t.chance(150) {
            (read_elem, false)
        } else {
            let op = self.infix_op();
            let (e, d) = self.expr_tracked(1);
            (Expr::Infix { id: self.ids.next(), op, l: Box::new(read_elem), r: Box::new(e) }, d)
        };
        if in_loop {
            self.in_loop -= 1;
        }
        let lhs = Expr::Var { id: self.ids.next(), name: x.name.clone(), access: vec![] };
        let rd = Stmt::Assign { id: self.ids.next(), lhs, op: AssignOp::Var, rhs, reversed: false };
        // whatever the expressions read, the array and the scalar are treated as depending on data
        let _ = (d0, d1, d2, d3);
        self.tainted.insert(x.key);
        let read_after = self.t.chance(70);
        let mut inner = vec![w2];
        let mut tail = vec![];
        if read_after {
            tail.push(rd);
        } else {
            inner.push(rd);
        }
        let body = Stmt::Block { id: self.ids.next(), stmts: inner };
        let second = match cond {
            Some(cond) => Stmt::If { id: self.ids.next(), cond, then: Box::new(body), els: None },
            None => {
                let i = self.fresh_name("i");
                let bound = 1 + self.t.below(2) as u64;
                let zero = self.small_literal(0);
                let init = Stmt::Decl {
                    id: self.ids.next(),
                    kind: DeclKind::Var,
                    syms: vec![DeclSym { id: self.ids.next(), sub_id: self.ids.next(), name: i.clone(), dims: vec![], init: Some(zero) }],
                    init_op: AssignOp::Var,
                };
                let b = self.small_literal(bound);
                let c = Expr::Infix {
                    id: self.ids.next(),
                    op: Op::Lt,
                    l: Box::new(Expr::Var { id: self.ids.next(), name: i.clone(), access: vec![] }),
                    r: Box::new(b),
                };
                let step = Stmt::IncDec { id: self.ids.next(), name: i.clone(), access: vec![], inc: true };
                Stmt::For { id: self.ids.next(), init: Box::new(init), cond: c, step: Box::new(step), body: Box::new(body) }
            }
        };
        let mut stmts = vec![decl, tdecl, w1, second];
        stmts.extend(tail);
        Some(Stmt::Block { id: self.ids.next(), stmts })
    }

    /// `{ var w = 0; while (w < B) { w++; var nx = acc op <data>; acc = nx; } }`: the counter is stepped
    /// first and the loop-carried value comes back through a plain copy as the last statement of the body.
    fn accumulate_while(&mut self) -> Option<Stmt> {
        let scalars: Vec<VarInfo> =
            self.local_targets().into_iter().filter(|v| v.ty == Ty::Var && self.assigned.contains(&v.key)).collect();
        if scalars.is_empty() || self.control_ctx {
            return None;
        }
        let acc = scalars[self.t.below(scalars.len())].clone();
        let w = self.fresh_name("w");
        let nx = self.fresh_name("nx");
        let bound = 2 + self.t.below(3) as u64;
        let decl = Stmt::Decl {
            id: self.ids.next(),
            kind: DeclKind::Var,
            syms: vec![DeclSym { id: self.ids.next(), sub_id: self.ids.next(), name: w.clone(), dims: vec![], init: Some(self.small_literal(0)) }],
            init_op: AssignOp::Var,
        };
        let cond = Expr::Infix {
            id: self.ids.next(),
            op: Op::Lt,
            l: Box::new(Expr::Var { id: self.ids.next(), name: w.clone(), access: vec![] }),
            r: Box::new(self.small_literal(bound)),
        };
        let step = Stmt::IncDec { id: self.ids.next(), name: w.clone(), access: vec![], inc: true };
        self.in_loop += 1;
        let (e, d) = self.expr_tracked(1);
        self.in_loop -= 1;
        let op = if self.t.chance(200) { Op::Mul } else { self.infix_op() };
        let me = Expr::Var { id: self.ids.next(), name: acc.name.clone(), access: vec![] };
        let rhs = Expr::Infix { id: self.ids.next(), op, l: Box::new(me), r: Box::new(e) };
        let nx_decl = Stmt::Decl {
            id: self.ids.next(),
            kind: DeclKind::Var,
            syms: vec![DeclSym { id: self.ids.next(), sub_id: self.ids.next(), name: nx.clone(), dims: vec![], init: Some(rhs) }],
            init_op: AssignOp::Var,
        };
        let lhs = Expr::Var { id: self.ids.next(), name: acc.name.clone(), access: vec![] };
        let copy = Stmt::Assign {
            id: self.ids.next(),
            lhs,
            op: AssignOp::Var,
            rhs: Expr::Var { id: self.ids.next(), name: nx, access: vec![] },
            reversed: false,
        };
        self.taint(acc.key, d);
        let body = Stmt::Block { id: self.ids.next(), stmts: vec![step, nx_decl, copy] };
        let wh = Stmt::While { id: self.ids.next(), cond, body: Box::new(body) };
        Some(Stmt::Block { id: self.ids.next(), stmts: vec![decl, wh] })
    }

    /// `{ var nx = x op e; x = nx; }`: a loop-carried value that goes through a plain copy.
    fn copy_through(&mut self) -> Option<Stmt> {
        let scalars: Vec<VarInfo> =
            self.local_targets().into_iter().filter(|v| v.ty == Ty::Var && self.assigned.contains(&v.key)).collect();
        if scalars.is_empty() {
            return None;
        }
        let x = scalars[self.t.below(scalars.len())].clone();
        let nx = self.fresh_name("nx");
        let op = self.infix_op();
        let (e, d) = self.expr_tracked(1);
        let me = Expr::Var { id: self.ids.next(), name: x.name.clone(), access: vec![] };
        let rhs = Expr::Infix { id: self.ids.next(), op, l: Box::new(me), r: Box::new(e) };
        let decl = Stmt::Decl {
            id: self.ids.next(),
            kind: DeclKind::Var,
            syms: vec![DeclSym { id: self.ids.next(), sub_id: self.ids.next(), name: nx.clone(), dims: vec![], init: Some(rhs) }],
            init_op: AssignOp::Var,
        };
        self.taint(x.key, d);
        let lhs = Expr::Var { id: self.ids.next(), name: x.name.clone(), access: vec![] };
        let copy = Stmt::Assign {
            id: self.ids.next(),
            lhs,
            op: AssignOp::Var,
            rhs: Expr::Var { id: self.ids.next(), name: nx, access: vec![] },
            reversed: false,
        };
        Some(Stmt::Block { id: self.ids.next(), stmts: vec![decl, copy] })
    }

    fn fallback_simple(&mut self) -> Stmt {
        if let Some(s) = self.assign_local() {
            return s;
        }
        if self.p.log_assert {
            let e = self.expr(1);
            return Stmt::Log { id: self.ids.next(), args: vec![LogArg::Expr(e)] };
        }
        Stmt::Block { id: self.ids.next(), stmts: vec![] }
    }

    fn for_loop(&mut self, depth: usize) -> Stmt {
        let id = self.ids.next();
        let bound = 1 + self.t.below(4) as u64;
        let name = if self.p.shadow && self.t.chance(100) { "i".to_string() } else { self.fresh_name("i") };
        self.scopes.push(vec![]);
        let key = self.declare(&name, Ty::Var, Some(bound), false);
        self.assigned.insert(key);
        let zero = self.small_literal(0);
        let init = Stmt::Decl {
            id: self.ids.next(),
            kind: DeclKind::Var,
            syms: vec![DeclSym {
                id: self.ids.next(),
                sub_id: self.ids.next(),
                name: name.clone(),
                dims: vec![],
                init: Some(zero),
            }],
            init_op: AssignOp::Var,
        };
        let cond = Expr::Infix {
            id: self.ids.next(),
            op: Op::Lt,
            l: Box::new(Expr::Var { id: self.ids.next(), name: name.clone(), access: vec![] }),
            r: Box::new(self.small_literal(bound)),
        };
        let step = match self.t.below(3) {
            0 => Stmt::IncDec { id: self.ids.next(), name: name.clone(), access: vec![], inc: true },
            1 => {
                let one = self.small_literal(1);
                Stmt::Compound { id: self.ids.next(), name: name.clone(), access: vec![], op: Op::Add, rhs: one }
            }
            _ => {
                let one = self.small_literal(1);
                let rhs = Expr::Infix {
                    id: self.ids.next(),
                    op: Op::Add,
                    l: Box::new(Expr::Var { id: self.ids.next(), name: name.clone(), access: vec![] }),
                    r: Box::new(one),
                };
                let lhs = Expr::Var { id: self.ids.next(), name: name.clone(), access: vec![] };
                Stmt::Assign { id: self.ids.next(), lhs, op: AssignOp::Var, rhs, reversed: false }
            }
        };
        let before = self.assigned.clone();
        self.in_loop += 1;
        let body = self.body(depth - 1, 2);
        self.in_loop -= 1;
        self.assigned = before;
        self.scopes.pop();
        if self.t.chance(45) {
            // the other `for` form of the grammar: `var i; for (i = 0; ..; ..)` (kept in a block of its own)
            let Stmt::Decl { id: decl_id, kind, mut syms, init_op } = init else { unreachable!() };
            let zero = syms[0].init.take().expect("counter initialiser");
            let assign = Stmt::Assign {
                id: self.ids.next(),
                lhs: Expr::Var { id: self.ids.next(), name: name.clone(), access: vec![] },
                op: AssignOp::Var,
                rhs: zero,
                reversed: false,
            };
            if !self.p.uninit_decl {
                // profiles without uninitialised declarations still initialise the counter at its declaration
                syms[0].init = Some(self.small_literal(0));
            }
            let decl = Stmt::Decl { id: decl_id, kind, syms, init_op };
            let for_stmt = Stmt::For { id, init: Box::new(assign), cond, step: Box::new(step), body: Box::new(body) };
            return Stmt::Block { id: self.ids.next(), stmts: vec![decl, for_stmt] };
        }
        Stmt::For { id, init: Box::new(init), cond, step: Box::new(step), body: Box::new(body) }
    }

    fn counted_while(&mut self, depth: usize) -> Stmt {
        // { var c = 0; while (c < K) { ...; c++; } }  — emitted as a block so the counter is scoped
        let block_id = self.ids.next();
        let bound = 1 + self.t.below(3) as u64;
        let name = self.fresh_name("w");
        // where the counter is incremented: at the end of the body, at its start or in the middle
        // (then the body also sees the value `bound`, so the counter is protected with bound + 1)
        let inc_pos = if self.p.self_update_bias > 0 { self.t.below(3) } else { 0 };
        self.scopes.push(vec![]);
        let key = self.declare(&name, Ty::Var, Some(if inc_pos == 0 { bound } else { bound + 1 }), false);
        self.assigned.insert(key);
        let zero = self.small_literal(0);
        let decl = Stmt::Decl {
            id: self.ids.next(),
            kind: DeclKind::Var,
            syms: vec![DeclSym {
                id: self.ids.next(),
                sub_id: self.ids.next(),
                name: name.clone(),
                dims: vec![],
                init: Some(zero),
            }],
            init_op: AssignOp::Var,
        };
        let while_id = self.ids.next();
        let cond = Expr::Infix {
            id: self.ids.next(),
            op: Op::Lt,
            l: Box::new(Expr::Var { id: self.ids.next(), name: name.clone(), access: vec![] }),
            r: Box::new(self.small_literal(bound)),
        };
        let before = self.assigned.clone();
        self.in_loop += 1;
        self.scopes.push(vec![]);
        let mut stmts = Vec::new();
        let nbody = self.t.below(3) + usize::from(inc_pos != 0);
        let inc_at = match inc_pos {
            0 => nbody,
            1 => 0,
            _ => nbody / 2,
        };
        for k in 0..=nbody {
            if k == inc_at {
                stmts.push(Stmt::IncDec { id: self.ids.next(), name: name.clone(), access: vec![], inc: true });
            }
            if k == nbody || self.budget == 0 {
                continue;
            }
            stmts.push(self.stmt(depth - 1, true));
        }
        self.scopes.pop();
        self.in_loop -= 1;
        self.assigned = before;
        let body = Stmt::Block { id: self.ids.next(), stmts };
        self.scopes.pop();
        Stmt::Block {
            id: block_id,
            stmts: vec![decl, Stmt::While { id: while_id, cond, body: Box::new(body) }],
        }
    }

    // -----------------------------------------------------------------
    // Definitions
    // -----------------------------------------------------------------

    pub fn def(&mut self, name: &str) -> Def {
        let id = self.ids.next();
        let params_id = self.ids.next();
        self.scopes = vec![vec![]];
        self.assigned.clear();
        self.budget = 2 + self.t.below(self.p.max_stmts);
        let nparams = self.t.below(self.p.max_params + 1);
        let mut params = Vec::new();
        let control = if self.p.data_params { self.t.below(nparams + 1) } else { nparams };
        for i in 0..nparams {
            let pname = ["n", "m", "q", "r"][i % 4].to_string();
            let key = self.declare(&pname, Ty::Var, None, i >= control);
            self.assigned.insert(key);
            params.push(pname);
        }
        // body scope
        self.scopes.push(vec![]);
        let mut stmts = Vec::new();
        if self.p.template && self.p.signals {
            // signal declarations first (top level)
            let nsig = 1 + self.t.below(4);
            for s in 0..nsig {
                let kind = match self.t.below(if self.p.no_intermediate { 2 } else { 3 }) {
                    0 => SigKind::Input,
                    1 => SigKind::Output,
                    _ => SigKind::Intermediate,
                };
                let base = match kind {
                    SigKind::Input => "in",
                    SigKind::Output => "out",
                    SigKind::Intermediate => "mid",
                };
                let sname = format!("{base}{s}");
                let arr = self.p.arrays && self.t.chance(60);
                let sid = self.ids.next();
                let (dims, ty) = if arr {
                    let len = 1 + self.t.below(3);
                    (vec![self.small_literal(len as u64)], Ty::SigArr(kind.clone(), len))
                } else {
                    (vec![], Ty::Sig(kind.clone()))
                };
                // declaration with initialiser (`signal output o <== e;`) for scalars sometimes
                let mut init = None;
                let mut init_op = AssignOp::Constrain;
                if !arr && kind != SigKind::Input && self.t.chance(50) {
                    init = Some(self.expr(2));
                    init_op = if self.t.chance(128) { AssignOp::Constrain } else { AssignOp::Signal };
                }
                let has_init = init.is_some();
                let key = self.declare(&sname, ty, None, false);
                if has_init {
                    self.assigned.insert(key);
                }
                stmts.push(Stmt::Decl {
                    id: self.ids.next(),
                    kind: DeclKind::Signal(kind, vec![]),
                    syms: vec![DeclSym { id: sid, sub_id: self.ids.next(), name: sname, dims, init }],
                    init_op,
                });
            }
        }
        if self.p.template && self.p.components && !self.p.templates.is_empty() {
            let ncomp = self.t.below(3);
            for c in 0..ncomp {
                let ti = self.t.below(self.p.templates.len());
                let sig = self.p.templates[ti].clone();
                let cname = format!("comp{c}");
                let args = (0..sig.params).map(|_| self.literal()).collect();
                let init = Expr::Call { id: self.ids.next(), name: sig.name.clone(), args };
                let key = self.declare(&cname, Ty::Comp(ti), None, false);
                self.assigned.insert(key);
                stmts.push(Stmt::Decl {
                    id: self.ids.next(),
                    kind: DeclKind::Component,
                    syms: vec![DeclSym {
                        id: self.ids.next(),
                        sub_id: self.ids.next(),
                        name: cname.clone(),
                        dims: vec![],
                        init: Some(init),
                    }],
                    init_op: AssignOp::Var,
                });
                // assign the inputs
                for inp in &sig.inputs {
                    let rhs = self.expr(2);
                    let lhs = Expr::Var {
                        id: self.ids.next(),
                        name: cname.clone(),
                        access: vec![Access::Field(inp.clone())],
                    };
                    let op = if self.t.chance(200) { AssignOp::Constrain } else { AssignOp::Signal };
                    stmts.push(Stmt::Assign { id: self.ids.next(), lhs, op, rhs, reversed: false });
                }
            }
        }
        while self.budget > 0 {
            let depth = self.p.max_depth;
            stmts.push(self.stmt(depth, true));
        }
        if self.p.template && self.p.signals {
            // make sure every output is assigned somewhere at top level
            while let Some(s) = self.assign_signal() {
                stmts.push(s);
                if self.t.chance(100) {
                    break;
                }
            }
        }
        if !self.p.template {
            let e = self.expr(2);
            stmts.push(Stmt::Return { id: self.ids.next(), e });
        }
        self.scopes.pop();
        let body = Stmt::Block { id: self.ids.next(), stmts };
        Def {
            id,
            params_id,
            kind: if self.p.template {
                DefKind::Template { custom: false, parallel: false }
            } else {
                DefKind::Function
            },
            name: name.to_string(),
            params,
            body,
        }
    }
}

/// `if` statements whose every `else`-less `if` is wrapped: usable before an `else`.
pub fn closed(s: &Stmt) -> bool {
    match s {
        Stmt::If { then, els, .. } => match els {
            None => false,
            Some(e) => closed(then) && closed(e),
        },
        // loop bodies are class 2 by construction (never a bare `if`)
        _ => true,
    }
}

pub fn gen_def(t: &mut Tape, p: &Profile, ids: &mut Ids, name: &str) -> Def {
    let mut g = Gen::new(t, p, ids);
    g.def(name)
}
