//! The generator's own AST (never circomspect's).  Every node carries an id;
//! the printer records the token range of each id and the renderer turns that
//! into byte spans.

use crate::field::{Op, UnOp};
use num_bigint_dig::BigUint;

pub type Id = usize;

#[derive(Clone, Debug)]
pub enum Access {
    Index(Expr),
    Field(String),
}

#[derive(Clone, Debug, PartialEq, Eq, Copy)]
pub enum AssignOp {
    /// `=`
    Var,
    /// `<--`
    Signal,
    /// `<==`
    Constrain,
}

impl AssignOp {
    pub fn symbol(self) -> &'static str {
        match self {
            AssignOp::Var => "=",
            AssignOp::Signal => "<--",
            AssignOp::Constrain => "<==",
        }
    }
    pub fn reverse_symbol(self) -> &'static str {
        match self {
            AssignOp::Var => "=",
            AssignOp::Signal => "-->",
            AssignOp::Constrain => "==>",
        }
    }
}

#[derive(Clone, Debug)]
pub enum Expr {
    /// `text` is what is printed (decimal or 0x hex); `value` its value.
    Num { id: Id, text: String, value: BigUint },
    Var { id: Id, name: String, access: Vec<Access> },
    Infix { id: Id, op: Op, l: Box<Expr>, r: Box<Expr> },
    Prefix { id: Id, op: UnOp, e: Box<Expr> },
    Ternary { id: Id, c: Box<Expr>, a: Box<Expr>, b: Box<Expr> },
    Call { id: Id, name: String, args: Vec<Expr> },
    ArrayLit { id: Id, elems: Vec<Expr> },
    Tuple { id: Id, elems: Vec<Expr> },
    /// `T(params)(inputs)`; `names` = Some(vec of (op, input name)) for the named form.
    Anon { id: Id, name: String, params: Vec<Expr>, inputs: Vec<Expr>, names: Option<Vec<(AssignOp, String)>> },
    Parallel { id: Id, e: Box<Expr> },
    Underscore { id: Id },
}

impl Expr {
    pub fn id(&self) -> Id {
        match self {
            Expr::Num { id, .. }
            | Expr::Var { id, .. }
            | Expr::Infix { id, .. }
            | Expr::Prefix { id, .. }
            | Expr::Ternary { id, .. }
            | Expr::Call { id, .. }
            | Expr::ArrayLit { id, .. }
            | Expr::Tuple { id, .. }
            | Expr::Anon { id, .. }
            | Expr::Parallel { id, .. }
            | Expr::Underscore { id } => *id,
        }
    }

    /// Visit this expression and all sub-expressions (pre-order).
    pub fn walk<'a>(&'a self, f: &mut dyn FnMut(&'a Expr)) {
        f(self);
        match self {
            Expr::Num { .. } | Expr::Underscore { .. } => {}
            Expr::Var { access, .. } => {
                for a in access {
                    if let Access::Index(e) = a {
                        e.walk(f)
                    }
                }
            }
            Expr::Infix { l, r, .. } => {
                l.walk(f);
                r.walk(f)
            }
            Expr::Prefix { e, .. } | Expr::Parallel { e, .. } => e.walk(f),
            Expr::Ternary { c, a, b, .. } => {
                c.walk(f);
                a.walk(f);
                b.walk(f)
            }
            Expr::Call { args, .. } => args.iter().for_each(|e| e.walk(f)),
            Expr::ArrayLit { elems, .. } | Expr::Tuple { elems, .. } => elems.iter().for_each(|e| e.walk(f)),
            Expr::Anon { params, inputs, .. } => {
                params.iter().for_each(|e| e.walk(f));
                inputs.iter().for_each(|e| e.walk(f))
            }
        }
    }
}

#[derive(Clone, Debug, PartialEq, Eq)]
pub enum SigKind {
    Input,
    Output,
    Intermediate,
}

#[derive(Clone, Debug, PartialEq, Eq)]
pub enum DeclKind {
    Var,
    Signal(SigKind, Vec<String>),
    Component,
}

#[derive(Clone, Debug)]
pub struct DeclSym {
    /// Id of this symbol (stands for its `Declaration`; the initialiser, if
    /// any, is the substitution `sub_id`).
    pub id: Id,
    pub sub_id: Id,
    pub name: String,
    pub dims: Vec<Expr>,
    pub init: Option<Expr>,
}

#[derive(Clone, Debug)]
pub enum LogArg {
    Str(String),
    Expr(Expr),
}

#[derive(Clone, Debug)]
pub enum Stmt {
    /// `var a = 1, b[2];` / `signal input x;` / `signal output o <== e;` / `component c = T();`
    /// `init_op` is the operator shared by all initialisers of this declaration.
    Decl { id: Id, kind: DeclKind, syms: Vec<DeclSym>, init_op: AssignOp },
    /// `var (a, b) = e;` (tuple declaration form)
    TupleDecl { id: Id, kind: DeclKind, syms: Vec<DeclSym>, init: Option<(AssignOp, Expr)> },
    /// `lhs op rhs;` or, when `reversed`, `rhs --> lhs;` / `rhs ==> lhs;`
    Assign { id: Id, lhs: Expr, op: AssignOp, rhs: Expr, reversed: bool },
    /// `x += e;` etc.  `op` is the arithmetic operator.
    Compound { id: Id, name: String, access: Vec<Access>, op: Op, rhs: Expr },
    /// `x++;` / `x--;`
    IncDec { id: Id, name: String, access: Vec<Access>, inc: bool },
    If { id: Id, cond: Expr, then: Box<Stmt>, els: Option<Box<Stmt>> },
    While { id: Id, cond: Expr, body: Box<Stmt> },
    For { id: Id, init: Box<Stmt>, cond: Expr, step: Box<Stmt>, body: Box<Stmt> },
    Return { id: Id, e: Expr },
    ConstraintEq { id: Id, l: Expr, r: Expr },
    Assert { id: Id, e: Expr },
    Log { id: Id, args: Vec<LogArg> },
    Block { id: Id, stmts: Vec<Stmt> },
    /// A bare expression statement (only valid for anonymous components).
    ExprStmt { id: Id, e: Expr },
}

impl Stmt {
    pub fn id(&self) -> Id {
        match self {
            Stmt::Decl { id, .. }
            | Stmt::TupleDecl { id, .. }
            | Stmt::Assign { id, .. }
            | Stmt::Compound { id, .. }
            | Stmt::IncDec { id, .. }
            | Stmt::If { id, .. }
            | Stmt::While { id, .. }
            | Stmt::For { id, .. }
            | Stmt::Return { id, .. }
            | Stmt::ConstraintEq { id, .. }
            | Stmt::Assert { id, .. }
            | Stmt::Log { id, .. }
            | Stmt::Block { id, .. }
            | Stmt::ExprStmt { id, .. } => *id,
        }
    }

    /// Visit all statements (pre-order).
    pub fn walk<'a>(&'a self, f: &mut dyn FnMut(&'a Stmt)) {
        f(self);
        match self {
            Stmt::If { then, els, .. } => {
                then.walk(f);
                if let Some(e) = els {
                    e.walk(f)
                }
            }
            Stmt::While { body, .. } => body.walk(f),
            Stmt::For { init, step, body, .. } => {
                init.walk(f);
                body.walk(f);
                step.walk(f)
            }
            Stmt::Block { stmts, .. } => stmts.iter().for_each(|s| s.walk(f)),
            _ => {}
        }
    }

    /// Expressions directly owned by this statement (not by nested statements).
    pub fn exprs(&self) -> Vec<&Expr> {
        let mut v = Vec::new();
        match self {
            Stmt::Decl { syms, .. } => {
                for s in syms {
                    v.extend(s.dims.iter());
                    v.extend(s.init.iter());
                }
            }
            Stmt::TupleDecl { syms, init, .. } => {
                for s in syms {
                    v.extend(s.dims.iter());
                }
                if let Some((_, e)) = init {
                    v.push(e)
                }
            }
            Stmt::Assign { lhs, rhs, .. } => {
                v.push(lhs);
                v.push(rhs)
            }
            Stmt::Compound { access, rhs, .. } => {
                for a in access {
                    if let Access::Index(e) = a {
                        v.push(e)
                    }
                }
                v.push(rhs)
            }
            Stmt::IncDec { access, .. } => {
                for a in access {
                    if let Access::Index(e) = a {
                        v.push(e)
                    }
                }
            }
            Stmt::If { cond, .. } | Stmt::While { cond, .. } | Stmt::For { cond, .. } => v.push(cond),
            Stmt::Return { e, .. } | Stmt::Assert { e, .. } | Stmt::ExprStmt { e, .. } => v.push(e),
            Stmt::ConstraintEq { l, r, .. } => {
                v.push(l);
                v.push(r)
            }
            Stmt::Log { args, .. } => {
                for a in args {
                    if let LogArg::Expr(e) = a {
                        v.push(e)
                    }
                }
            }
            Stmt::Block { .. } => {}
        }
        v
    }
}

#[derive(Clone, Debug, PartialEq, Eq)]
pub enum DefKind {
    Function,
    Template { custom: bool, parallel: bool },
}

#[derive(Clone, Debug)]
pub struct Def {
    pub id: Id,
    /// Id standing for the parameter list `( … )` contents.
    pub params_id: Id,
    pub kind: DefKind,
    pub name: String,
    pub params: Vec<String>,
    /// Always a `Stmt::Block`.
    pub body: Stmt,
}

#[derive(Clone, Debug)]
pub struct Include {
    pub id: Id,
    pub path: String,
}

#[derive(Clone, Debug)]
pub struct MainComp {
    pub id: Id,
    pub public: Option<Vec<String>>,
    pub init: Expr,
}

#[derive(Clone, Debug, Default)]
pub struct File {
    /// `pragma circom a.b.c;`
    pub version: Option<(u64, u64, u64)>,
    pub custom_templates: bool,
    pub includes: Vec<Include>,
    pub defs: Vec<Def>,
    pub main: Option<MainComp>,
}

/// Id allocator.
#[derive(Default, Clone)]
pub struct Ids(pub usize);

impl Ids {
    pub fn next(&mut self) -> Id {
        self.0 += 1;
        self.0
    }
}

pub fn num(ids: &mut Ids, v: u64) -> Expr {
    Expr::Num { id: ids.next(), text: v.to_string(), value: BigUint::from(v) }
}

pub fn var(ids: &mut Ids, name: &str) -> Expr {
    Expr::Var { id: ids.next(), name: name.to_string(), access: vec![] }
}

pub fn infix(ids: &mut Ids, op: Op, l: Expr, r: Expr) -> Expr {
    Expr::Infix { id: ids.next(), op, l: Box::new(l), r: Box::new(r) }
}
