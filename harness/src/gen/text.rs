//! Layout: whitespace and comments between tokens.

use super::print::{plain_trivia, render, Printed, Rendered};
use crate::engine::Tape;

pub const BLOCK_COMMENTS: [&str; 20] = [
    "/**/",
    "/***/",
    "/* x **/",
    "/*/ */",
    "/** doc **/",
    "/* \" quote */",
    "/* é 日本 ∀ */",
    "/* /* nested opener */",
    "/* // not a line comment */",
    "/*\n multi\n line\n*/",
    "/* * / */",
    "/*****/",
    "/* template T() { signal input a; } */",
    "/*//*/",
    "/*\r\n crlf */",
    "/* ' ` @ # */",
    "/* a \\ b */",
    "/* \\*/",
    "/* \\\n */",
    "/*\\\\*/",
];

pub const LINE_COMMENTS: [&str; 15] = [
    "//\n",
    "//*\n",
    "// /* opener in a line comment\n",
    "// \" quote\n",
    "// é 日本\n",
    "///\n",
    "//*/\n",
    "// template X() {}\n",
    "//\r\n",
    "// */ /* \n",
    "// integer division is \\\n",
    "//\\\n",
    "// a \\ b \\n c\n",
    "// \\\\\n",
    "// C:\\dir\\\r\n",
];

pub const SPACES: [&str; 6] = [" ", "\n", "\t", "  ", "\r\n", "\n\n"];

/// Characters comments are built from: everything that opens, closes, quotes or escapes something
/// somewhere, but never a line break in a line comment and never `*/` inside a block comment.
const COMMENT_CHARS: [char; 16] = [' ', 'a', '/', '*', '\\', '"', '\'', '\t', 'é', '0', '{', ';', '#', '=', '<', '-'];

/// A comment with generated content (0-11 characters of COMMENT_CHARS): `//…\n` or `/*…*/`.
pub fn generated_comment(t: &mut Tape) -> String {
    let line = t.chance(128);
    let n = t.below(12);
    let mut s = String::from(if line { "//" } else { "/*" });
    for _ in 0..n {
        let c = COMMENT_CHARS[t.below(COMMENT_CHARS.len())];
        if !line && c == '/' && s.ends_with('*') && s.len() > 2 {
            s.push(' ');
        }
        s.push(c);
    }
    if line {
        s.push('\n');
    } else {
        // `/*/` does not close the comment it opens; content ending in `*` gives `**/`
        s.push_str("*/");
    }
    s
}

#[derive(Clone, Copy, Debug)]
pub struct LayoutOpts {
    /// chance (out of 256) that a gap gets a comment
    pub comment_chance: u32,
    pub crlf: bool,
}

/// Random trivia; every gap has at least one separator so tokens never merge.
/// Returns (trivia, number of comments).
pub fn random_trivia(p: &Printed, t: &mut Tape, opts: LayoutOpts) -> (Vec<String>, usize) {
    let n = p.tokens.len();
    let mut out = Vec::with_capacity(n + 1);
    let mut comments = 0;
    for i in 0..=n {
        let mut s = String::new();
        let prev_slash = i > 0 && p.tokens[i - 1].ends_with('/');
        if i == 0 && !t.chance(64) {
            out.push(s);
            continue;
        }
        let pieces = if t.chance(opts.comment_chance) { 1 + t.below(3) } else { 0 };
        if pieces == 0 {
            let sp = SPACES[t.below(SPACES.len())];
            s.push_str(if !opts.crlf && sp.contains('\r') { " " } else { sp });
        } else {
            if prev_slash || t.chance(128) {
                s.push(' ');
            }
            for _ in 0..pieces {
                if t.chance(40) {
                    s.push_str(&generated_comment(t));
                } else if t.chance(90) {
                    s.push_str(LINE_COMMENTS[t.below(LINE_COMMENTS.len())]);
                } else {
                    s.push_str(BLOCK_COMMENTS[t.below(BLOCK_COMMENTS.len())]);
                }
                comments += 1;
                if t.chance(128) {
                    s.push_str(SPACES[t.below(SPACES.len())]);
                }
            }
            if i == n && t.chance(128) {
                // comment at end of file without newline
                s.push_str(if t.chance(128) { "// eof" } else { "/* eof */" });
                comments += 1;
            }
        }
        out.push(s);
    }
    (out, comments)
}

/// A program as a token stream with two layouts: with and without comments.
pub struct Commented {
    pub printed: Printed,
    pub with: Vec<String>,
    pub comments: usize,
}

impl Commented {
    pub fn with_comments(&self) -> String {
        render(&self.printed, &self.with).src
    }
    pub fn rendered_with(&self) -> Rendered {
        render(&self.printed, &self.with)
    }
    pub fn without_comments(&self) -> String {
        render(&self.printed, &plain_trivia(&self.printed)).src
    }
    pub fn comment_count(&self) -> usize {
        self.comments
    }
    /// Number of token boundaries of the plain rendering.
    pub fn boundaries(&self) -> usize {
        self.printed.tokens.len() + 1
    }
    /// Byte offset (in the plain rendering) of the i-th token boundary.
    pub fn boundary(&self, i: usize) -> usize {
        let r = render(&self.printed, &plain_trivia(&self.printed));
        if i < r.toks.len() {
            r.toks[i].0
        } else {
            r.src.len()
        }
    }
}

/// A generated program (full profile, small) with comments of every shape between tokens.
pub fn commented_program(t: &mut Tape) -> Commented {
    let file = super::full::small_file(t);
    let printed = super::print::print_file(&file, false);
    let (with, comments) = random_trivia(&printed, t, LayoutOpts { comment_chance: 60, crlf: true });
    Commented { printed, with, comments }
}
