#!/bin/bash
# usage: tools/seeded_confirm.sh <worktree> <dir of the change relative to the worktree, e.g. out2/1>
# Confirms a seeded change in its scratch worktree only: the patch applies, the workspace builds, the
# repository's tests pass with it, the demonstration fails with and passes without the change.
wt=$1; sub=$2
export CARGO_TARGET_DIR=$wt/target
cd "$wt" && git checkout -q -- . && git apply "$sub/patch.diff" || { echo "CONFIRM: patch does not apply"; exit 3; }
cargo build --offline -q -p circomspect 2>/dev/null || { echo "CONFIRM: does not build"; git checkout -q -- .; exit 3; }
tests=$(cargo test --workspace --offline 2>&1 | grep -E "^test result" | awk '{p+=$4; f+=$6} END {print p" passed "f" failed"}')
echo "CONFIRM tests with change: $tests"
(cd "$wt" && timeout 900 bash "$sub/demo.sh" "$CARGO_TARGET_DIR/debug/circomspect" >/dev/null 2>&1); with=$?
git checkout -q -- . && cargo build --offline -q -p circomspect 2>/dev/null
(cd "$wt" && timeout 900 bash "$sub/demo.sh" "$CARGO_TARGET_DIR/debug/circomspect" >/dev/null 2>&1); without=$?
git checkout -q -- . ; git clean -fdq -e "out*" -e target >/dev/null 2>&1
echo "CONFIRM demo exit with change: $with, without: $without"
