#!/bin/bash
# usage: tools/seeded_run.sh <NAME (dir under /verif/seeded)> <checks...>
# Applies /verif/seeded/NAME/patch.diff to /repo, runs the given quick checks against it, reverts
# the patch, and appends one JSON line per check to /verif/seeded/results.jsonl.
# (Run tools/seeded_run.sh --rebuild afterwards to rebuild the binaries from the clean tree.)
# The patch only ever lives in /repo's working tree: the script refuses to start on a tree that
# already has uncommitted changes, and reverts on every exit path (a seeded change that was still
# applied when a session ended was once swept into a snapshot commit of /repo, DESIGN.md §7).
cd /verif
if [ "$1" = "--rebuild" ]; then git -C /repo checkout -- . ; exec ./check --build-only; fi
name=$1; shift
if [ -n "$(git -C /repo status --porcelain --untracked-files=no)" ]; then
  echo "REFUSED: /repo has uncommitted changes (git -C /repo status); not applying $name"; exit 3
fi
revert() { git -C /repo checkout -- . ; }
trap revert EXIT
trap 'revert; exit 130' INT TERM HUP
git -C /repo apply "/verif/seeded/$name/patch.diff" || { echo "PATCH DOES NOT APPLY: $name"; exit 3; }
for c in "$@"; do
  t0=$(date +%s)
  out=$(timeout 1500 ./check "$c" 2>&1); code=$?
  t1=$(date +%s)
  viol=$(echo "$out" | grep -c "^VIOLATION property=")
  first=$(echo "$out" | grep -m1 "^VIOLATION property=" | cut -c1-200)
  echo "$name $c exit=$code violations=$viol $first"
  printf '{"change":"%s","check":"%s","exit":%d,"violation_lines":%d,"seconds":%d,"first":"%s"}\n' \
    "$name" "$c" "$code" "$viol" "$((t1-t0))" "$first" >> seeded/results.jsonl
done
