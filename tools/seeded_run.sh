#!/bin/bash
# usage: tools/seeded_run.sh <NAME (dir under /verif/seeded)> <checks...>
# Applies /verif/seeded/NAME/patch.diff to /repo, runs the given quick checks against it, reverts
# the patch, and appends one JSON line per check to /verif/seeded/results.jsonl.
# (Run tools/seeded_run.sh --rebuild afterwards to rebuild the binaries from the clean tree.)
cd /verif
if [ "$1" = "--rebuild" ]; then git -C /repo checkout -- . ; exec ./check --build-only; fi
name=$1; shift
git -C /repo checkout -- .
git -C /repo apply "/verif/seeded/$name/patch.diff" || { echo "PATCH DOES NOT APPLY: $name"; exit 3; }
for c in "$@"; do
  t0=$(date +%s)
  out=$(timeout 3000 ./check "$c" 2>&1); code=$?
  t1=$(date +%s)
  viol=$(echo "$out" | grep -c "^VIOLATION property=")
  first=$(echo "$out" | grep -m1 "^VIOLATION property=" | cut -c1-200)
  echo "$name $c exit=$code violations=$viol $first"
  printf '{"change":"%s","check":"%s","exit":%d,"violation_lines":%d,"seconds":%d,"first":"%s"}\n' \
    "$name" "$c" "$code" "$viol" "$((t1-t0))" "$first" >> seeded/results.jsonl
done
git -C /repo checkout -- .
