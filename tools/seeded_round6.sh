#!/bin/bash
# tools/seeded_round6.sh — the round-6 changes against their own property's quick check and related ones
cd /verif
run() { [ -f seeded/$1/patch.diff ] && tools/seeded_run.sh "$@"; }
run C06-11 C06 C11; run C06-12 C06 C07
run C08-11 C08 C18; run C08-12 C08 C13
run C10-11 C10; run C10-12 C10 C01
run C11-11 C11; run C11-12 C11
run C12-11 C12 C13; run C12-12 C12 C13
run C13-11 C13 C12; run C13-12 C13 C10
run C16-11 C16 C01; run C16-12 C16
run C18-11 C18; run C18-12 C18 C01
run C19-11 C19 C18; run C19-12 C19
run C20-11 C20; run C20-12 C20
tools/seeded_run.sh --rebuild
echo ALLDONE
