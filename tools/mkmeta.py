#!/usr/bin/env python3
"""Write /verif/seeded/<name>/meta.json for every seeded change from its notes.md (written by the
sub-agent that produced the change), the confirmation log lines and seeded/results.jsonl (the last
result per (change, check) wins), and print the DESIGN.md table."""
import json, os, re, sys, glob
root = '/verif/seeded'
res = {}
p = os.path.join(root, 'results.jsonl')
if os.path.exists(p):
    for line in open(p):
        line = line.strip()
        if line:
            r = json.loads(line)
            res.setdefault(r['change'], {})[r['check']] = r
confirm = {}
p = os.path.join(root, 'confirm.json')
if os.path.exists(p):
    confirm = json.load(open(p))
rows = []
for d in sorted(glob.glob(root + '/C*-*')):
    name = os.path.basename(d)
    notes = open(os.path.join(d, 'notes.md')).read() if os.path.exists(os.path.join(d, 'notes.md')) else ''
    title = notes.splitlines()[0].lstrip('# ').strip() if notes else ''
    m = re.search(r'^##[^\n]*(?:needed|manifest)[^\n]*\n(.*?)(?=^## )', notes, re.S | re.M)
    needs = re.sub(r'\s+', ' ', m.group(1)).strip() if m else ''
    files = sorted(set(re.findall(r'^\+\+\+ b/(\S+)', open(os.path.join(d, 'patch.diff')).read(), re.M)))
    checks = res.get(name, {})
    caught = sorted(c for c, r in checks.items() if r['exit'] == 1 and r['violation_lines'] > 0)
    silent = sorted(c for c, r in checks.items() if r['exit'] == 0)
    other = sorted(c for c, r in checks.items() if r['exit'] not in (0, 1))
    meta = {
        'id': name,
        'property': name.split('-')[0],
        'summary': title,
        'files_changed': files,
        'needs_to_manifest': needs,
        'produced_by': 'fresh sub-agent given only the property text and a scratch worktree of /repo (nothing from /verif)',
        'confirmed': confirm.get(name, {}),
        'checks_run': {c: {'exit': r['exit'], 'violation_lines': r['violation_lines'], 'seconds': r['seconds'],
                           'first_violation': r['first']} for c, r in sorted(checks.items())},
        'caught_by': caught,
        'not_caught_by': silent,
        'inconclusive': other,
        'how_run': 'git -C /repo apply seeded/%s/patch.diff; ./check <ID> (quick tier, VERIF_SEED unset); git -C /repo checkout -- .' % name,
    }
    json.dump(meta, open(os.path.join(d, 'meta.json'), 'w'), indent=1)
    rows.append((name, title, caught, silent, other))
lines = ['| change | what it does | caught by (quick tier, default seed) | silent | ',
         '|---|---|---|---|']
for name, title, caught, silent, other in rows:
    t = re.sub(r'^(C\d\d\s*)?(/\s*)?(seeded\s*)?(change|seed)\s*\d*\s*[:—–-]+\s*', '', title, flags=re.I)
    lines.append('| %s | %s | %s | %s |' % (name, t[:140].replace('|', '\\|'), ', '.join(caught) or '—',
                                        ', '.join(silent + [o + ' (exit 2)' for o in other]) or '—'))
ncaught = sum(1 for r in rows if r[2])
own = sum(1 for r in rows if r[0].split('-')[0] in r[2])
summary = '%d changes; %d caught by at least one check run against them, %d by the check of their own property.' % (len(rows), ncaught, own)
block = '<!-- seeded-table-begin -->\n' + summary + '\n\n' + '\n'.join(lines) + '\n<!-- seeded-table-end -->'
d = open('/verif/DESIGN.md').read()
if '<!-- seeded-table-begin -->' in d:
    d = re.sub(r'<!-- seeded-table-begin -->.*?<!-- seeded-table-end -->', lambda m: block, d, flags=re.S)
    open('/verif/DESIGN.md', 'w').write(d)
print(summary)
for r in rows:
    if not r[2]:
        print('NOT CAUGHT:', r[0], r[1][:100], 'silent:', r[3], 'other:', r[4])
