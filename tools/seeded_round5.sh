#!/bin/bash
# tools/seeded_round5.sh — the round-5 changes against their own property's quick check and related ones
cd /verif
run() { [ -f seeded/$1/patch.diff ] && tools/seeded_run.sh "$@"; }
run C01-9 C01; run C01-10 C01 C16
run C02-9 C02; run C02-10 C02 C03
run C03-9 C03; run C03-10 C03 C02
run C04-9 C04; run C04-10 C04
run C06-9 C06 C16; run C06-10 C06
run C07-9 C07; run C07-10 C07
run C09-9 C09 C10; run C09-10 C09
run C10-9 C10 C03; run C10-10 C10 C14
run C17-9 C17; run C17-10 C17
run C20-9 C20; run C20-10 C20
tools/seeded_run.sh --rebuild
echo ALLDONE
