#!/bin/bash
# tools/seeded_reeval8.sh — final harness: the checks changed in rounds 6/7 against all changes of their property
cd /verif
for id in C19 C18 C14 C09 C05 C17 C01 C02; do
  for n in 1 2 3 4 5 6 7 8 9 10 11 12; do
    [ -f seeded/$id-$n/patch.diff ] && tools/seeded_run.sh $id-$n $id
  done
done
tools/seeded_run.sh --rebuild
echo ALLDONE
