#!/bin/bash
# tools/seeded_round4.sh — the round-4 changes against their own property's quick check and related ones
cd /verif
run() { tools/seeded_run.sh "$@"; }
run C01-7 C01; run C01-8 C01
run C02-7 C02 C03; run C02-8 C02
run C03-7 C03; run C03-8 C03
run C04-7 C04 C05; run C04-8 C04
run C05-7 C05; run C05-8 C05 C02
run C06-7 C06 C18; run C06-8 C06 C14
run C07-7 C07; run C07-8 C07
run C08-7 C08 C18; run C08-8 C08 C04
run C09-7 C09 C18; run C09-8 C09 C14
run C10-7 C10 C14; run C10-8 C10 C03
run C11-7 C11; run C11-8 C11 C08
run C12-7 C12; run C12-8 C12 C13
run C13-7 C13; run C13-8 C13 C06
run C14-7 C14; run C14-8 C14
run C15-7 C15; run C15-8 C15
run C16-7 C16; run C16-8 C16 C06
run C17-7 C17; run C17-8 C17 C03
run C18-7 C18; run C18-8 C18
run C19-7 C19; run C19-8 C19 C03
run C20-7 C20; run C20-8 C20 C07
tools/seeded_run.sh --rebuild
echo ALLDONE
