#!/bin/bash
# tools/seeded_round8.sh — the round-8 changes against their own property's quick check and related ones
cd /verif
run() { [ -f seeded/$1/patch.diff ] && tools/seeded_run.sh "$@"; }
run C06-13 C06 C16; run C06-14 C06
run C08-13 C08; run C08-14 C08
run C10-13 C10; run C10-14 C10
run C11-13 C11 C06; run C11-14 C11
run C12-13 C12; run C12-14 C12
run C13-13 C13; run C13-14 C13
run C16-13 C16; run C16-14 C16
run C18-13 C18; run C18-14 C18
run C19-13 C19; run C19-14 C19
run C20-13 C20; run C20-14 C20 C07
tools/seeded_run.sh --rebuild
echo ALLDONE
