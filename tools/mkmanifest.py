#!/usr/bin/env python3
"""Regenerates /verif/MANIFEST.json from the table below (single source of truth)."""
import json, sys

CHECKS = {
 "C16": dict(
   level="exploration",
   technique="differential testing against a documentation-derived reference field arithmetic: exhaustive over small prime fields, generated boundary/random operand pairs (proptest) for the three real primes, resource-limited subprocess probes for huge shift counts and huge exponents",
   text="Every public operation of circom_algebra::modular_arithmetic is compared with an independent reference (u128 for small primes, BigUint for the real primes) written from the Circom operator documentation. Small prime fields are enumerated completely (all operand pairs, all 23 operations), the three real primes are sampled at boundary values and at random, and shift counts too large to evaluate in-process as well as `**` with exponents from 10^7 up to p-1 run in a subprocess under RLIMIT_CPU/RLIMIT_AS (20 s, 2 GiB), where the result is compared with the reference and an unbounded computation is observed as a violation (the exponent probes run first; if one does not return, the in-process stage skips exponents above 2^16 instead of blocking in them). Exhaustive on small fields, sampling on the real ones: 'held on everything explored', not a proof.",
   note="Trusts the reference semantics in harness/src/field.rs (cross-checked u128 vs BigUint at start-up) and num-bigint-dig for the big reference; operands are canonical field elements; an error result is accepted only for zero divisors and for shift counts above the bit size.",
   design="DESIGN.md §3 C16"),
 "C06": dict(
   level="exploration",
   technique="model-based testing against a reference interpreter: value metadata on every SSA IR node of generated executable programs compared with concrete values at every dynamic evaluation over generated valuations and all three primes (proptest tapes, shrinking); CS0009/CS0010 consumers checked on their own terms",
   text="Generated functions/templates (all operators, boundary literals, loops, branches, shadowing, arrays, helper calls, signals, Num2Bits/Bits2Num instantiations) are lifted to SSA; a reference interpreter runs the generator's own AST under documentation-derived field semantics for 12 valuations. Every claimed constant on a node that maps back to a generator node must equal every recorded value of that node; every `always true/false` finding must agree with the recorded truth values; a Num2Bits/Bits2Num size judged safe under BN254 must be < 254 in every run. A second sub-check writes the definition (with helper functions, template stubs and mostly a main component) to a file and runs the real binary under --curve: the constant-condition findings displayed must equal those of the in-process analysis under that curve's prime.",
   note="One-sided randomized oracle: no false alarms by construction, detection depends on a distinguishing valuation. Reference semantics in harness/src/field.rs + interp.rs. Locals are read only where definitely assigned (known finding F13 excluded by construction and replayed separately).",
   design="DESIGN.md §3 C06"),
 "C07": dict(
   level="exploration",
   technique="randomized polynomial identity testing (finite differences along random lines over all indeterminates, Schwartz-Zippel) of every degree bound on SSA IR nodes, using the reference interpreter on generated programs (proptest tapes, shrinking)",
   text="For generated templates and functions whose statement-level control flow is independent of signals, ports and data parameters (enforced by the generator and re-validated by a static taint analysis; conditional expressions may depend on signals, only the nodes inside their arms are then skipped), the interpreter is run at s0 + t*delta, t = 0..3, on 3 random lines; for each node bounded by constant/linear/quadratic the (d+1)-th finite difference of its four values must vanish mod p at every dynamic occurrence. CS0013 advice is checked with d = 2 on the right-hand side.",
   note="A polynomial of degree <= d always passes; a higher-degree or non-polynomial expression escapes one line with probability <= D/p (p >= 2^64). Signals keep their witness value when assigned, as the property treats every signal as an independent indeterminate.",
   design="DESIGN.md §3 C07"),
 "C08": dict(
   level="exploration",
   technique="by-construction oracle on generated templates: the generator knows every element-wise `<--`/`-->` assignment and its extent; CS0005/CS0013 findings collected in-process must be in bijection with them, with bounded secondary-label sets (proptest tapes, shrinking)",
   text="A dedicated generator emits `<--` and `-->` on scalars, array elements (loop-variable and literal indices), component inputs, declaration initialisers, tuple assignments with `_` in both arrow directions, tuple declarations, declarations with several `<--` initialisers and named inputs of (parallel) anonymous components, in plain and `parallel` templates with or without a main component, at top level and nested up to three levels in loops and branches, mixed with `===`/`<==` statements mentioning the signals; custom templates as negatives. Findings must match the generated assignments one to one by primary-label extent, name the assigned signal, and list exactly constraint statements that mention it (lower bound: identical access; upper bound: mentions the name).",
   note="CS0005 vs CS0013 is not decided here (that is C07). Files go through parse_files so the desugarer is part of what is checked.",
   design="DESIGN.md §3 C08"),
 "C09": dict(
   level="exploration",
   technique="metamorphic testing with the reference interpreter: perturb the value stored by each flagged assignment (or parameter) and compare effect traces, on generated programs x valuations x replacement values (proptest tapes, shrinking)",
   text="For every CS0006/CS0007/CS0008 finding about a local or parameter of a generated program (locals, parameters, input/output signals, loops, branches, asserts, returns) the interpreter is re-run with the flagged value replaced, for 8 valuations x 3 replacement values; signal assignments, constraints mentioning signals, asserts, return value, array dimensions and branch decisions must be identical. The generator includes locals whose only use is the position at which a local array is read.",
   note="Pairs with a runtime error on either side are discarded and counted. One-sided: true claims never fail.",
   design="DESIGN.md §3 C09"),
 "C10": dict(
   level="exploration",
   technique="model-based testing: a reference lexical scope resolver run on the generator's own AST is compared with the (name, suffix[, version]) identities in the pre-SSA and SSA CFG of generated definitions (proptest tapes, shrinking); CS0001/CS0002 reports compared with the generated shadowing declarations, in-process and through the real binary",
   text="Definitions with tiny colliding name pools (x, x_0, x_1, …), redeclarations in nested and sibling scopes and in `for` headers, parameters redeclared as locals. The relation 'same IR variable' over all occurrences (located by source span) must equal 'same declaration according to lexical scoping' in both directions, before and after SSA; every SSA read must have a defining statement with the same (name, suffix, version); shadowing warnings must be in bijection with the generated shadowing declarations with exact primary/secondary ranges, and the real CLI must display them at the right line:col; repeated parameters must be reported (in-process and displayed). Sampling with measured class coverage.",
   note="Reference scoping rule: block scoping, parameters outermost, a declaration takes effect before its own initialiser (Circom's rule), `for` = block{init; while(cond){body; step}}. Trusts the span bookkeeping of the generator's printer.",
   design="DESIGN.md §3 C10"),
 "C11": dict(
   level="exploration",
   technique="table-driven enumeration through the real binary: every (curve, template name) pair of the documented table plus near-miss names, every constant size 0..300 in several syntactic forms and four ways of writing the instantiation (initialiser, later assignment, component-array element, element in a loop), every Num2Bits(k) guard of LessThan, all case variants of curve names; plus generated random mixes (proptest tapes, shrinking)",
   text="Instantiations are placed one per line and findings matched by line. CS0016 must appear exactly for the marked (template, curve) pairs of the documented table (Circomlib spelling), never under BN254 and never for near-miss names; CS0010 under BN254 exactly for sizes that are not literal-arithmetic constants < 254 and never under other curves; CS0014 exactly when no Num2Bits(k) with constant k and 2^k - 1 <= p/2 guards the LessThan input (threshold computed from the reference primes); curve names accepted case-insensitively and nothing else.",
   note="Exhaustive over the table, the literal sizes 0..300 and k = 0..300 for all three curves; other size forms and surrounding shapes are sampled in the quick tier.",
   design="DESIGN.md §3 C11"),
 "C12": dict(
   level="exploration",
   technique="property-based testing of a validity predicate: generated definitions (control-flow grammar, proptest tapes with shrinking) are lifted with into_cfg/into_ssa and the well-formedness invariants are evaluated through the public accessors, with reference dominators and generator-side loop nesting as oracles",
   text="Every generated definition is lifted and the property's predicate is evaluated on the resulting graph, before and after SSA conversion: entry block, reachability, mirrored successor/predecessor sets, branch statement position and targets, successor counts, i dom j => i <= j (dominators from the C15 reference), and recorded loop depth = number of generated loop bodies containing the block's statements (empty blocks located by their own meta). Sampling; shapes measured in the evidence histogram.",
   note="Generator covers the constructs named in the quantifier; loop-depth reference treats a `for` step as inside and a loop condition as outside the loop.",
   design="DESIGN.md §3 C12"),
 "C13": dict(
   level="translation_validation",
   technique="translation validation by trace comparison on generated programs: structured walk of the generator AST vs walk of the lifted CFG under shared generated decision sequences (proptest tapes, shrinking), statements compared by span, kind, target and full expression structure",
   text="For each generated definition and 16 generated decision sequences, the sequence of statements executed by the structured source (up to the first return) must be a prefix of the sequence met when walking the lifted graph from block 0 along true_index/false_index. Statements are compared structurally (not via printed strings): source span, statement kind, assigned variable, operator, and the whole expression tree; `for` and compound assignments are compared with their documented expansions.",
   note="Loop decisions are forced to false after 6 iterations (bounded unrolling). The pre-SSA graph is compared; C14 repeats the walk on the SSA graph.",
   design="DESIGN.md §3 C13"),
 "C14": dict(
   level="translation_validation",
   technique="static audit plus dynamic path walks of the SSA CFG of generated definitions (proptest tapes, shrinking) against reference dominators and a last-assigned-version model maintained along each generated path",
   text="After into_ssa: single definition per versioned local, phi placement, dominance of uses by definitions and of phi arguments over an incoming edge (reference dominators), declarations cover every version, signals/components unversioned. Along 16 generated paths per definition the harness tracks the version last assigned to each variable and requires every traversed phi to list it and every read to name it, while the statement sequence is kept in lock step with the structured source walk (so the read sees the same source assignment). The static audit alone also runs on definitions whose locals are read wherever they are declared (converted or refused) and on the desugared templates of C18's sugared programs (anonymous components in loop bodies).",
   note="Definitions whose conversion fails are skipped (counted). Reads are generated only where the variable is definitely assigned (known class F13 excluded by construction).",
   design="DESIGN.md §3 C14"),
 "C15": dict(
   level="exploration",
   technique="differential testing of DominatorTree::new against a path-definition reference: exhaustive enumeration of all rooted digraphs with <= 5 nodes plus tape-generated random graphs up to 40 nodes (proptest, shrinking)",
   text="The public generic DominatorTree::new is instantiated on a harness node type and all four relations (dominator sets, immediate dominators, dominator-tree children, dominance frontiers) are compared with a reference computed from the definition (reachability with one node removed). Every rooted digraph with at most 5 nodes is enumerated (747 939 graphs, self loops and irreducible shapes included); larger graphs (6-40 nodes, five shape families) are generated. Exhaustive in the small scope, sampled beyond.",
   note="Assumes the property's precondition (entry = node 0 without predecessors, all nodes reachable). Trusts the reference in harness/src/props/c15.rs.",
   design="DESIGN.md §3 C15"),
 "C01": dict(
   level="exploration",
   technique="fuzzing of the real release binary with generated inputs: raw bytes / token soup, grammar-derived programs (every production, semantically undisciplined and semantically valid), token-level mutations of valid programs, small inputs with one deeply nested construct (16 shapes), x random option sets; oracle = clean-termination predicate under CPU and memory limits (proptest tapes with shrinking; libFuzzer in-process targets in the thorough tier)",
   text="The real CLI is executed as a subprocess (RLIMIT_CPU, RLIMIT_AS, cleared environment) on generated projects of 1-3 files with random supported options. A run is clean iff it exits by itself with status 0 or 1, its last stdout line is the summary, the status matches the summary and stderr shows no panic, stack overflow or allocation failure. Evidence reports how many inputs were rejected by the lexer/parser, by the desugarer, or reached the analysis stage, and the histogram of report ids produced. All committed reproducers are replayed under all three curves. The include projects of C19 (cycles over relative paths and through -L directories, directory arguments, symlinks) are run with only termination and exit status judged. A nesting-depth domain feeds small inputs with one construct nested 10-400 deep (it found the exponential blow-up on nested array indices, repaired). One recorded known finding (stack overflow on a statement with several thousand chained operators) is reported as KNOWN-FINDING; it is identified by the input shape (a statement with >= 1000 operators), so any other stack overflow is a violation.",
   note="Modest size = files <= 16 KiB, nesting depth <= 8 in the grammar domains and <= 400 in the nesting-depth domain. Hang = more than 30 CPU-seconds and, on the re-run every limit hit gets, more than 120 (nesting-depth inputs 10/40; thorough tier 120/480 and 30/120); the slowest run on the unchanged tree takes under a second (coverage.budgets.slowest_binary_run_wall_ms) and the documented time box is 2 x 10 s. The quick tier stops starting new cases after a soft deadline of 600 s (never reached on the unchanged tree, recorded in coverage.budgets when it is), so that a tree that hangs on many inputs yields its violation within a quarter of an hour. Absence of crashes cannot be established by sampling.",
   design="DESIGN.md §3 C01"),
 "C02": dict(
   level="fault_enumeration",
   technique="fault injection on generated clean projects run through the real binary: enumeration of fault classes x injection positions (every token boundary of small files, every `;`, every definition) x levels, with an expected-diagnostic oracle (proptest tapes choose project and sampled positions; shrinking)",
   text="Each generated project is first shown to be clean (exit 0, `No issues found.` at --level error, every definition analysed). One fault is then injected at a time: missing path (also under names that do not end in .circom), dangling symlink, invalid UTF-8, eleven unsupported versions, lexical error and unmatched closer before every token (exhaustive for files up to 40 tokens), every dropped `;`, 26 invalid tuple / anonymous-component statement forms in template and function bodies, repeated parameter, duplicated definition (also: a second definition inside a file that is only included, where either an error or the analysis of every definition of the named files is required), several main components. At each of the three levels the run must exit non-zero and display an error-level diagnostic with an id from the fault's expected set, located in the faulted file where there is a file to point into.",
   note="Unreadable files are simulated by invalid UTF-8 because the sandbox runs as root. Wording of messages is not inspected. Runs that crash are left to C01.",
   design="DESIGN.md §3 C02"),
 "C03": dict(
   level="exploration",
   technique="differential testing of the real binary against an in-process reference that bypasses caches/writers/filters, plus algebraic filter laws over the level x allow-subset lattice and a SARIF round-trip, on generated multi-file projects (proptest tapes, shrinking)",
   text="Generated projects whose templates instantiate each other and contain shadowing declarations are run through the real CLI and compared with a reference multiset of findings built from parse_files, direct into_cfg/into_ssa on every definition of a named file and all analysis passes. The exit status / summary contract is checked on every run, the SARIF file is compared with the findings at each level (ids, levels, messages, regions of all labels, one rule descriptor per id, `Result written` note), and the filter clause is checked as an identity displayed(L, A) = {f in U | level >= L, id not in A} for every level and every allow-subset of the occurring ids (16 sampled subsets above 4 ids), plus monotonicity under naming an extra file. Projects contain definitions that fail SSA conversion after a CFG-stage warning, templates that instantiate failing templates or themselves, and valid tuple / anonymous-component statements.",
   note="The reference shares the individual passes with the tool by design; a report without a location must be displayed. Crashing runs are left to C01.",
   design="DESIGN.md §3 C03"),
 "C04": dict(
   level="exploration",
   technique="property-based testing of label validity and construct identity: generator-recorded source spans vs the labels of all reports collected in-process, and line:col / SARIF regions of the real binary vs positions recomputed from the original bytes (proptest tapes, shrinking)",
   text="For every label of every report of generated projects (with multi-byte text, comments of every shape, CRLF, tabs): file id known, range ordered, inside the file and on char boundaries; the trimmed extent equals the extent of a generator node of a kind admissible for that report id and mentions the subject named in the message; the binary's file:line:col and every SARIF region equal the position recomputed from the original bytes. Error inputs (lexical/syntax faults, unterminated comments after non-ASCII text) are checked the same way, as are the labels of the duplicate-definition error for a definition copied into a second named file. Projects include a byte order mark, desugared statements (tuple elements, anonymous components) and nested signal declarations.",
   note="The id -> construct table is transcribed from the report constructors (validated on the unchanged tree); ids outside the table only need to coincide with some generator node. Trailing blanks/comments are trimmed because the grammar ends variables, numbers and includes at the next token.",
   design="DESIGN.md §3 C04"),
 "C17": dict(
   level="exploration",
   technique="metamorphic testing of the real binary on generated projects: repeat (fresh random hasher per process), reorder files and definitions, insert unreferenced definitions, repeat curve-dependent programs of the C11 generator; findings compared as multisets from SARIF (proptest tapes, shrinking)",
   text="For generated multi-file projects: repeated runs must give identical findings including positions; reversing the order of the named files must give identical findings; permuting the definitions of every file must give the same findings modulo positions (rule id, level, normalised message, normalised text under every label); inserting an unreferenced template and function (valid, or one the desugarer must reject) must leave all other findings unchanged while the inserted definitions get their own. Projects in which two named files define the same name and three hand-written files exercising the special constructs of every analysis pass must display identical findings in 8-60 repeated runs. Programs of the C11 generator (range checks, comparisons with and without range-checked inputs, marked template names in one template) must display identical findings in 8 (20) runs under their --curve argument.",
   note="Hash-map iteration orders are sampled by repeated processes (5 quick / 20 thorough per project), not enumerated.",
   design="DESIGN.md §3 C17"),
 "C18": dict(
   level="translation_validation",
   technique="(a) own AST walker over parse_files output of generated `wild` programs (sugar in every position) checking completeness/rejection and panic-freedom downstream; (b) differential testing of generated sugared templates against generator-written expansions, comparing finding multisets (proptest tapes, shrinking)",
   text="Completeness: no tuple, anonymous component or multi-substitution may remain in any template handed to the analysis; functions containing sugar must be absent with a TAC01/TAC02 error; dropped templates must come with such an error; lifting, SSA and all passes on the rest must not panic. Faithfulness: for 14 sugar forms (tuple assignments in both arrow directions and declarations, nested tuples, a template with comma-separated non-alphabetical ports, positional/named/parallel/multi-output/statement anonymous components, anonymous components inside tuples) the findings of the sugared template equal those of the hand-written expansion defined in the property, as multisets of (id, message and label messages with component names normalised); weaker containment relation inside loops, plus the relation that removing the `parallel` prefix of anonymous components leaves the findings unchanged (also in loop bodies); helper templates may live in an included file and be written with sugar themselves; the completeness runs have no, one or two main components.",
   note="Pairs whose expansion is rejected are discarded. Loop positions use the weaker relation because the explicit Circom form of per-iteration components differs across 2.0.0-2.1.4.",
   design="DESIGN.md §3 C18"),
 "C19": dict(
   level="exploration",
   technique="model-based testing: generated include graphs on a materialised directory tree, real binary run with the parser's debug log, compared with a reference include resolver (proptest tapes, shrinking)",
   text="Projects of 2-6 files over seven directories with chains, diamonds, cycles, self includes, `./`/`../`/`dir/../` spellings, bare and `deep/../` names found only through libraries, symlinks, -L directories and files in both orders, unresolvable includes, relative or absolute arguments. Checked against the reference resolver: termination, each reachable file read exactly once (canonical paths), exactly the definitions of named files analysed once, findings only in named files, one deterministic finding per template of a named file, P1000 at the include statement for unresolvable includes of named files.",
   note="Read counts come from the parser's own `reading file` debug line (RUST_LOG), also present in release builds.",
   design="DESIGN.md §3 C19"),
 "C05": dict(
   level="exploration",
   technique="differential testing of the comment stripper against a reference lexer (exhaustive over all strings <= 8 symbols of a 7-symbol alphabet and <= 7 symbols with a bare carriage return added, plus generated fragment strings) and metamorphic testing of the whole binary (blank comments / remove comments / inject unterminated opener) on generated programs",
   text="(1) parser::preprocess (re-exported by the verif feature) must agree with a three-state reference lexer on Ok/Err, byte length, untouched code bytes and blanked comment bytes, for every string up to length 8 (quick) / 10 (thorough) over {/,*,newline,a,quote,space,é} and for generated long strings. (2) Generated programs with comments between tokens (a vocabulary of shapes including backslashes at the end of a line comment, and generated content over 16 characters) are run through the real binary: findings are identical after blanking each comment in place (line:col included), identical modulo positions after removing them, and the same definitions are analysed. (3) An unterminated opener injected at a random token boundary must yield an error diagnostic and a non-zero exit.",
   note="String literals are not special to the comment lexer (as in Circom's own preprocessor). Blanking replaces each comment character by one blank so displayed columns (counted in characters) are comparable. Crashing runs are skipped here and judged by C01.",
   design="DESIGN.md §3 C05"),
 "C20": dict(
   level="fault_enumeration",
   technique="enumeration of every cut point of value and degree propagation through the verif pass-budget hook, re-checking the C06/C07 oracles at each cut on generated programs biased to late-arriving facts, plus runs of the real binary on definitions that exceed the real 10 s time box (proptest tapes, shrinking)",
   text="The hook caps the number of propagation passes (stand-in for the 10 s time box). For each generated definition the passes-to-fixpoint F is measured and into_ssa is repeated for every budget k = 0..min(F,16) (plus sampled k above), for value and degree propagation independently; at each cut conversion and all passes must complete and all constants / degree bounds present must satisfy the C06 / C07 oracles, including CS0009, CS0010-size and CS0013 consumers. Separately the real release binary is run on definitions with 1800-2700 chained assignments whose value propagation provably hits the real time box (debug log) and must end normally.",
   note="The elapsed-time check sits at the end of a pass, so stopping between passes is exactly what a slow machine can cause.",
   design="DESIGN.md §3 C20"),
}

NOT_YET = {
}

def main():
    props = [json.loads(l) for l in open('/verif/properties.jsonl')]
    checks = []
    na = []
    for p in props:
        pid = p['id']
        if pid in CHECKS:
            c = CHECKS[pid]
            checks.append({
              "property_id": pid,
              "quick_cmd": f"./check {pid} --tier quick",
              "thorough_cmd": f"./check {pid} --tier thorough",
              "evidence_file": f"/verif/evidence/{pid}.json",
              "replay_cmd_template": f"./check {pid} --replay {{path}}",
              "engine": "vcheck",
              "level_claimed": {"category": c['level'], "text": c['text'], "design_ref": c['design']},
              "level_note": c['note'],
              "technique": c['technique'],
            })
        else:
            na.append({"property_id": pid, "reason": NOT_YET.get(pid, "check not built yet (work in progress; see DESIGN.md §3 for the planned generated-input check)")})
    m = {
      "version": 1,
      "setup_cmd": "./check --build-only",
      "hooks": {
        "guard": "cargo feature `verif` (crates circomspect-parser and circomspect-program-structure; default off)",
        "enable": "the harness crate /verif/harness depends on /repo/parser and /repo/program_structure with features = [\"verif\"]; the circomspect CLI itself is always built without it",
        "baseline_off_cmd": "cd /repo && cargo test --workspace --no-fail-fast --offline",
        "source_commits": ["8f94292"],
        "add_only": True,
      },
      "engines": [
        {"name": "vcheck", "path": "/verif/harness", "serves_properties": [c['property_id'] for c in checks],
         "kind_free_text": "Rust harness: seeded, sharded proptest runners over choice tapes (shrinking = tape shrinking), exhaustive small-scope enumerators, independent reference oracles, real release binary as subprocess under rlimits"},
        {"name": "libfuzzer", "path": "/verif/fuzz", "serves_properties": ["C01", "C05", "C15", "C16"],
         "kind_free_text": "cargo-fuzz package (nightly, libFuzzer, debug assertions on) whose targets call the same oracles as vcheck (in-process pipeline totality, comment stripper vs reference lexer, dominator definitions, field operations vs reference arithmetic); run by the thorough tier of those checks from a fresh corpus with -seed derived from VERIF_SEED, every artifact is re-judged by the deterministic oracle before it counts"},
      ],
      "checks": checks,
      "not_applicable": na,
      "notes": "All checks: ./check <ID> --tier quick|thorough rebuilds the CLI and the harness from /repo's working tree, honours VERIF_SEED, writes /verif/evidence/<ID>.json. Exit 2 = infrastructure failure (build error, watchdog on a run or a single case that does not return: 150 s for a case that only calls library code, 900 s for one that runs the binary), never a verdict. Quick runs stop starting new generated cases after a soft deadline of 600 s (VERIF_SOFT_DEADLINE_S; runs take 2-110 s per check on the unchanged tree) and then judge what they explored; evidence coverage.budgets records whether that happened. known_findings.json lists repaired (fixed:) and recorded (known) defects. /repo commit 6c94ab1 (`uncommitted hook changes`, made by the end-of-round snapshot) is not a hook: it is a seeded test change of /verif/seeded/C01-13 that was still applied to /repo's working tree when a session ended; it is unguarded, made `**` hang, and is reverted by the fix: commit 124d397 (finding F31, DESIGN.md §7). The only hook commit is 8f94292.",
    }
    json.dump(m, open('/verif/MANIFEST.json','w'), indent=1)
    print("checks:", [c['property_id'] for c in checks], "na:", len(na))

main()
