#!/usr/bin/env python3
"""Regenerates /verif/MANIFEST.json from the table below (single source of truth)."""
import json, sys

CHECKS = {
 "C16": dict(
   level="exploration",
   technique="differential testing against a documentation-derived reference field arithmetic: exhaustive over small prime fields, generated boundary/random operand pairs (proptest) for the three real primes, resource-limited subprocess probes for huge shift counts",
   text="Every public operation of circom_algebra::modular_arithmetic is compared with an independent reference (u128 for small primes, BigUint for the real primes) written from the Circom operator documentation. Small prime fields are enumerated completely (all operand pairs, all 23 operations), the three real primes are sampled at boundary values and at random, and shift counts too large to evaluate in-process run in a subprocess under RLIMIT_CPU/RLIMIT_AS so that an unbounded computation is observed as a violation. Exhaustive on small fields, sampling on the real ones: 'held on everything explored', not a proof.",
   note="Trusts the reference semantics in harness/src/field.rs (cross-checked u128 vs BigUint at start-up) and num-bigint-dig for the big reference; operands are canonical field elements; an error result is accepted only for zero divisors and for shift counts above the bit size.",
   design="DESIGN.md §3 C16"),
 "C15": dict(
   level="exploration",
   technique="differential testing of DominatorTree::new against a path-definition reference: exhaustive enumeration of all rooted digraphs with <= 5 nodes plus tape-generated random graphs up to 40 nodes (proptest, shrinking)",
   text="The public generic DominatorTree::new is instantiated on a harness node type and all four relations (dominator sets, immediate dominators, dominator-tree children, dominance frontiers) are compared with a reference computed from the definition (reachability with one node removed). Every rooted digraph with at most 5 nodes is enumerated (747 939 graphs, self loops and irreducible shapes included); larger graphs (6-40 nodes, five shape families) are generated. Exhaustive in the small scope, sampled beyond.",
   note="Assumes the property's precondition (entry = node 0 without predecessors, all nodes reachable). Trusts the reference in harness/src/props/c15.rs.",
   design="DESIGN.md §3 C15"),
 "C05": dict(
   level="exploration",
   technique="differential testing of the comment stripper against a reference lexer (exhaustive over all strings <= 8 symbols of a 7-symbol alphabet, plus generated fragment strings) and metamorphic testing of the whole binary (blank comments / remove comments / inject unterminated opener) on generated programs",
   text="(1) parser::preprocess (re-exported by the verif feature) must agree with a three-state reference lexer on Ok/Err, byte length, untouched code bytes and blanked comment bytes, for every string up to length 8 (quick) / 10 (thorough) over {/,*,newline,a,quote,space,é} and for generated long strings. (2) Generated programs with comments of every listed shape between tokens are run through the real binary: findings are identical after blanking each comment in place (line:col included), identical modulo positions after removing them, and the same definitions are analysed. (3) An unterminated opener injected at a random token boundary must yield an error diagnostic and a non-zero exit.",
   note="String literals are not special to the comment lexer (as in Circom's own preprocessor). Blanking replaces each comment character by one blank so displayed columns (counted in characters) are comparable. Crashing runs are skipped here and judged by C01.",
   design="DESIGN.md §3 C05"),
}

NOT_YET = {
}

def main():
    props = [json.loads(l) for l in open('/verif/properties.jsonl')]
    checks = []
    na = []
    for p in props:
        pid = p['id']
        if pid in CHECKS:
            c = CHECKS[pid]
            checks.append({
              "property_id": pid,
              "quick_cmd": f"./check {pid} --tier quick",
              "thorough_cmd": f"./check {pid} --tier thorough",
              "evidence_file": f"/verif/evidence/{pid}.json",
              "replay_cmd_template": f"./check {pid} --replay {{path}}",
              "engine": "vcheck",
              "level_claimed": {"category": c['level'], "text": c['text'], "design_ref": c['design']},
              "level_note": c['note'],
              "technique": c['technique'],
            })
        else:
            na.append({"property_id": pid, "reason": NOT_YET.get(pid, "check not built yet (work in progress; see DESIGN.md §3 for the planned generated-input check)")})
    m = {
      "version": 1,
      "setup_cmd": "./check --build-only",
      "hooks": {
        "guard": "cargo feature `verif` (crates circomspect-parser and circomspect-program-structure; default off)",
        "enable": "the harness crate /verif/harness depends on /repo/parser and /repo/program_structure with features = [\"verif\"]; the circomspect CLI itself is always built without it",
        "baseline_off_cmd": "cd /repo && cargo test --workspace --no-fail-fast --offline",
        "source_commits": ["8f94292"],
        "add_only": True,
      },
      "engines": [
        {"name": "vcheck", "path": "/verif/harness", "serves_properties": [c['property_id'] for c in checks],
         "kind_free_text": "Rust harness: seeded, sharded proptest runners over choice tapes (shrinking = tape shrinking), exhaustive small-scope enumerators, independent reference oracles, real release binary as subprocess under rlimits"},
      ],
      "checks": checks,
      "not_applicable": na,
      "notes": "All checks: ./check <ID> --tier quick|thorough rebuilds the CLI and the harness from /repo's working tree, honours VERIF_SEED, writes /verif/evidence/<ID>.json. Exit 2 = infrastructure failure (build error), never a verdict. known_findings.json lists repaired (fixed:) and recorded (known) defects.",
    }
    json.dump(m, open('/verif/MANIFEST.json','w'), indent=1)
    print("checks:", [c['property_id'] for c in checks], "na:", len(na))

main()
