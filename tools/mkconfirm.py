#!/usr/bin/env python3
"""Merge the CONFIRM lines of target/seeded_batch*.log into seeded/confirm.json (committed)."""
import json, glob, os, re
path = '/verif/seeded/confirm.json'
conf = json.load(open(path)) if os.path.exists(path) else {}
for log in sorted(glob.glob('/verif/target/seeded_batch*.log')):
    cur = None
    for line in open(log):
        m = re.match(r'=== (C\d\d-\d+)', line)
        if m:
            cur = m.group(1); continue
        if cur is None: continue
        m = re.match(r'CONFIRM tests with change: (\d+) passed (\d+) failed', line)
        if m:
            conf.setdefault(cur, {})['repository_tests_with_change'] = {'passed': int(m.group(1)), 'failed': int(m.group(2))}
        m = re.match(r'CONFIRM demo exit with change: (\d+), without: (\d+)', line)
        if m:
            conf.setdefault(cur, {})['demonstration_exit'] = {'with_change': int(m.group(1)), 'without_change': int(m.group(2))}
        if line.startswith('CONFIRM:'):
            conf.setdefault(cur, {})['problem'] = line.strip()
for k in conf:
    conf[k]['where'] = 'scratch worktree /tmp/wt/%s (removed afterwards): git apply, cargo build, cargo test --workspace --offline, demo.sh with and without the change' % k.split('-')[0]
json.dump(conf, open(path, 'w'), indent=1, sort_keys=True)
print(len(conf), 'entries;', [k for k, v in conf.items() if v.get('problem') or v.get('repository_tests_with_change', {}).get('failed', 1) != 0 or v.get('demonstration_exit', {}).get('with_change', 0) == 0 or v.get('demonstration_exit', {}).get('without_change', 1) != 0], 'need attention')
