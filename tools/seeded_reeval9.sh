#!/bin/bash
# tools/seeded_reeval9.sh — rest of the final-harness re-evaluation (C01-8.., C02)
cd /verif
for n in 8 9 10 11 12; do tools/seeded_run.sh C01-$n C01; done
for n in 1 2 3 4 5 6 7 8 9 10 11 12; do tools/seeded_run.sh C02-$n C02; done
tools/seeded_run.sh --rebuild
echo ALLDONE
