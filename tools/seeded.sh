#!/bin/bash
# usage: tools/seeded.sh <worktree> <out-subdir> <dest /verif/seeded/NAME> <checks...>
# 1. confirm in the scratch worktree: patch applies, builds, the 54 tests pass, the demonstration fails with and passes without the change
# 2. apply to /repo, run the given checks, revert, rebuild
wt=$1; sub=$2; dest=$3; shift 3
mkdir -p "$dest"
cp -r "$wt/out/$sub/." "$dest/"
export CARGO_TARGET_DIR=$wt/target
cd "$wt" && git checkout -q -- . && git apply "$dest/patch.diff" || { echo "CONFIRM: patch does not apply"; exit 3; }
cargo build --offline -q -p circomspect 2>/dev/null || { echo "CONFIRM: does not build"; git checkout -q -- .; exit 3; }
tests=$(cargo test --workspace --offline 2>&1 | grep -E "^test result" | awk '{p+=$4; f+=$6} END {print p" passed "f" failed"}')
echo "CONFIRM tests with change: $tests"
if [ -f "$dest/demo.sh" ]; then
  # demonstrations are run from the worktree root through their original location
  (cd "$wt" && timeout 900 bash "out/$sub/demo.sh" "$CARGO_TARGET_DIR/debug/circomspect" >/dev/null 2>&1); with=$?
  git checkout -q -- . && cargo build --offline -q -p circomspect 2>/dev/null
  (cd "$wt" && timeout 900 bash "out/$sub/demo.sh" "$CARGO_TARGET_DIR/debug/circomspect" >/dev/null 2>&1); without=$?
  git checkout -q -- . ; git clean -fdq -e out -e target >/dev/null 2>&1
  echo "CONFIRM demo exit with change: $with, without: $without"
else
  git checkout -q -- .
  echo "CONFIRM: no demo.sh (see notes)"
fi
git checkout -q -- .
unset CARGO_TARGET_DIR
cd /verif
git -C /repo apply "$dest/patch.diff" || { echo "PATCH DOES NOT APPLY TO /repo"; exit 3; }
for c in "$@"; do
  out=$(timeout 2400 ./check $c 2>&1 | grep -E "VIOLATION|INFRA|violations=" | cut -c1-300 | head -3)
  echo "CHECK $c: $out"
done
git -C /repo checkout -- .
./check --build-only
