#!/bin/bash
# tools/seeded_reeval6.sh — re-run the checks whose generators changed after round 5 against the earlier changes of their property
cd /verif
for id in C08 C11 C12 C13 C18 C19; do
  for n in 1 2 3 4 5 6 7 8; do
    [ -f seeded/$id-$n/patch.diff ] && tools/seeded_run.sh $id-$n $id
  done
done
tools/seeded_run.sh --rebuild
echo ALLDONE
