#!/bin/bash
# tools/runall.sh [seed] — every quick check once on the current tree; prints one line per check
cd /verif
export VERIF_SEED=${1:-0}
./check --build-only || exit 2
rc=0
for i in $(seq -w 1 20); do
  t0=$(date +%s)
  out=$(./check C$i 2>&1); code=$?
  t1=$(date +%s)
  echo "C$i exit=$code $((t1-t0))s $(echo "$out" | grep -E "^(VIOLATION|KNOWN-FINDING|INFRA)" | cut -c1-220 | head -4 | tr '\n' ' ')"
  [ $code -ne 0 ] && rc=1
done
exit $rc
