#!/bin/bash
# tools/seeded_round5b.sh — second half of round 5 against their own property's quick check and related ones
cd /verif
run() { [ -f seeded/$1/patch.diff ] && tools/seeded_run.sh "$@"; }
run C05-9 C05; run C05-10 C05 C01
run C08-9 C08 C18; run C08-10 C08
run C11-9 C11; run C11-10 C11
run C12-9 C12 C13; run C12-10 C12 C13
run C13-9 C13 C12; run C13-10 C13 C10
run C14-9 C14; run C14-10 C14 C09
run C15-9 C15; run C15-10 C15
run C16-9 C16; run C16-10 C16
run C18-9 C18; run C18-10 C18 C08
run C19-9 C19 C02; run C19-10 C19 C02
tools/seeded_run.sh --rebuild
echo ALLDONE
