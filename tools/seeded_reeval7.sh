#!/bin/bash
# tools/seeded_reeval7.sh — re-run the checks whose generators changed in round 6 against all changes of their property
cd /verif
for id in C06 C08 C11 C18 C19; do
  for n in 1 2 3 4 5 6 7 8 9 10 11 12; do
    [ -f seeded/$id-$n/patch.diff ] && tools/seeded_run.sh $id-$n $id
  done
done
tools/seeded_run.sh --rebuild
echo ALLDONE
