#!/bin/bash
# tools/seeded_round7.sh — the round-7 changes against their own property's quick check and related ones
cd /verif
run() { [ -f seeded/$1/patch.diff ] && tools/seeded_run.sh "$@"; }
run C01-11 C01 C19; run C01-12 C01 C18
run C02-11 C02; run C02-12 C02 C03
run C03-11 C03; run C03-12 C03 C19
run C04-11 C04; run C04-12 C04
run C05-11 C05 C04; run C05-12 C05
run C07-11 C07; run C07-12 C07 C20
run C09-11 C09; run C09-12 C09
run C14-11 C14 C18; run C14-12 C14 C10
run C15-11 C15; run C15-12 C15
run C17-11 C17 C08; run C17-12 C17
tools/seeded_run.sh --rebuild
echo ALLDONE
