#!/bin/bash
# tools/seeded_all.sh — every seeded change against its own property's quick check and the related ones
cd /verif
rm -f seeded/results.jsonl
run() { tools/seeded_run.sh "$@"; }
run C01-1 C01 C16; run C01-2 C01; run C01-3 C01; run C01-4 C01 C18
run C02-1 C02; run C02-2 C02; run C02-3 C02 C03; run C02-4 C02
run C03-1 C03; run C03-2 C03; run C03-3 C03 C04; run C03-4 C03 C17
run C04-1 C04 C05; run C04-2 C04; run C04-3 C04 C08; run C04-4 C04
run C05-1 C05; run C05-2 C05 C04; run C05-3 C05; run C05-4 C05
run C06-1 C06 C16; run C06-2 C06; run C06-3 C06 C14 C09; run C06-4 C06 C11
run C07-1 C07; run C07-2 C07; run C07-3 C07 C20; run C07-4 C07
run C08-1 C08; run C08-2 C08; run C08-3 C08; run C08-4 C08
run C09-1 C09 C14; run C09-2 C09; run C09-3 C09; run C09-4 C09
run C10-1 C10; run C10-2 C10; run C10-3 C10; run C10-4 C10 C13
run C11-1 C11; run C11-2 C11; run C11-3 C11; run C11-4 C11
run C12-1 C12; run C12-2 C12; run C12-3 C12 C01; run C12-4 C12
run C13-1 C13; run C13-2 C13; run C13-3 C13 C06; run C13-4 C13 C12
run C14-1 C14; run C14-2 C14; run C14-3 C14; run C14-4 C14 C10
run C15-1 C15; run C15-2 C15; run C15-3 C15; run C15-4 C15
run C16-1 C16; run C16-2 C16; run C16-3 C16 C06; run C16-4 C16
run C17-1 C17 C03; run C17-2 C17 C19; run C17-3 C17 C02; run C17-4 C17
run C18-1 C18; run C18-2 C18; run C18-3 C18; run C18-4 C18
run C19-1 C19; run C19-2 C19; run C19-3 C19 C02; run C19-4 C19 C17 C03
run C20-1 C20; run C20-2 C20; run C20-3 C20; run C20-4 C20 C01
tools/seeded_run.sh --rebuild
echo ALLDONE
