#!/bin/bash
# tools/seeded_round3.sh — the round-3 changes against their own property's quick check and related ones
cd /verif
run() { tools/seeded_run.sh "$@"; }
run C01-5 C01 C02; run C01-6 C01 C18
run C02-5 C02 C05; run C02-6 C02 C18
run C03-5 C03 C19; run C03-6 C03
run C04-5 C04; run C04-6 C04 C03
run C05-5 C05; run C05-6 C05
run C06-5 C06 C16; run C06-6 C06 C10 C13
run C07-5 C07; run C07-6 C07
run C08-5 C08; run C08-6 C08 C18
run C09-5 C09 C13 C12; run C09-6 C09
run C10-5 C10 C14; run C10-6 C10 C13
run C11-5 C11; run C11-6 C11
run C12-5 C12 C01; run C12-6 C12 C13
run C13-5 C13 C12; run C13-6 C13 C12
run C14-5 C14; run C14-6 C14 C09
run C15-5 C15; run C15-6 C15
run C16-5 C16 C06; run C16-6 C16
run C17-5 C17 C19; run C17-6 C17
run C18-5 C18 C08; run C18-6 C18 C02
run C19-5 C19 C17; run C19-6 C19 C02
run C20-5 C20; run C20-6 C20
tools/seeded_run.sh --rebuild
echo ALLDONE
