#!/bin/bash
# tools/runall_thorough.sh [seed] [ids...] — thorough tier of every check, one line per check
cd /verif
export VERIF_SEED=${1:-0}; shift
ids=${@:-$(seq -f "C%02g" 1 20)}
./check --build-only || exit 2
for c in $ids; do
  t0=$(date +%s)
  out=$(./check $c --tier thorough 2>&1); code=$?
  t1=$(date +%s)
  echo "$c exit=$code $((t1-t0))s $(echo "$out" | grep -E "^(VIOLATION|KNOWN-FINDING|INFRA)" | cut -c1-200 | head -4 | tr '\n' ' ') $(echo "$out" | tail -1 | cut -c1-160)"
done
