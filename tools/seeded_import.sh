#!/bin/bash
# usage: tools/seeded_import.sh <ID> [<dir=out2> [<offset=2>]] — import the changes /tmp/wt/<ID>/<dir>/{1,2} of a later
# round as seeded/<ID>-<offset+1>, <ID>-<offset+2> and confirm them in their scratch worktree
id=$1; dir=${2:-out2}; off=${3:-2}
for n in 1 2; do
  src=/tmp/wt/$id/$dir/$n; dest=/verif/seeded/$id-$((n+off))
  [ -f "$src/patch.diff" ] || { echo "=== $id-$((n+off)): missing $src/patch.diff"; continue; }
  mkdir -p "$dest"; cp -r "$src/." "$dest/"
  echo "=== $id-$((n+off))"
  /verif/tools/seeded_confirm.sh /tmp/wt/$id $dir/$n
done
