#!/bin/bash
# usage: tools/seeded_import.sh <ID> — import round-2 changes /tmp/wt/<ID>/out2/{1,2} as seeded/<ID>-3, <ID>-4 and confirm them
id=$1
for n in 1 2; do
  src=/tmp/wt/$id/out2/$n; dest=/verif/seeded/$id-$((n+2))
  [ -f "$src/patch.diff" ] || { echo "=== $id-$((n+2)): missing $src/patch.diff"; continue; }
  mkdir -p "$dest"; cp -r "$src/." "$dest/"
  echo "=== $id-$((n+2))"
  /verif/tools/seeded_confirm.sh /tmp/wt/$id out2/$n
done
