#!/bin/bash
# tools/seeded_round9.sh — the round-9 changes (one per property) against their own property's quick check
cd /verif
run() { [ -f seeded/$1/patch.diff ] && tools/seeded_run.sh "$@"; }
run C03-13 C03; run C04-13 C04; run C05-13 C05; run C07-13 C07
run C09-13 C09; run C14-13 C14; run C15-13 C15; run C17-13 C17
tools/seeded_run.sh --rebuild
echo ALLDONE
