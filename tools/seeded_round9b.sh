#!/bin/bash
# tools/seeded_round9b.sh — second batch of round 9 against their own property's quick check
cd /verif
run() { [ -f seeded/$1/patch.diff ] && tools/seeded_run.sh "$@"; }
run C02-13 C02 C01; run C08-15 C08; run C12-15 C12; run C13-15 C13; run C18-15 C18 C01; run C01-13 C01
tools/seeded_run.sh --rebuild
echo ALLDONE
