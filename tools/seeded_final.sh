#!/bin/bash
# tools/seeded_final.sh — every seeded change against the check of its own property (and, where that check
# is not the one that catches it, the checks that do), with the final harness
cd /verif
run() { tools/seeded_run.sh "$@"; }
run C01-1 C01
run C01-2 C01
run C01-3 C01
run C01-4 C01
run C01-5 C01
run C01-6 C01 C18
run C01-7 C01
run C01-8 C01
run C02-1 C02
run C02-2 C02
run C02-3 C02
run C02-4 C02
run C02-5 C02
run C02-6 C02
run C02-7 C02
run C02-8 C02
run C03-1 C03
run C03-2 C03
run C03-3 C03
run C03-4 C03
run C03-5 C03
run C03-6 C03
run C03-7 C03
run C03-8 C03
run C04-1 C04
run C04-2 C04
run C04-3 C04
run C04-4 C04
run C04-5 C04
run C04-6 C04
run C04-7 C04
run C04-8 C04
run C05-1 C05
run C05-2 C05
run C05-3 C05
run C05-4 C05
run C05-5 C05
run C05-6 C05
run C05-7 C05
run C05-8 C05
run C06-1 C06
run C06-2 C06
run C06-3 C06
run C06-4 C06
run C06-5 C06
run C06-6 C06
run C06-7 C06 C18
run C06-8 C06
run C07-1 C07
run C07-2 C07
run C07-3 C07 C20
run C07-4 C07
run C07-5 C07
run C07-6 C07
run C07-7 C07
run C07-8 C07
run C08-1 C08
run C08-2 C08
run C08-3 C08
run C08-4 C08
run C08-5 C08
run C08-6 C08
run C08-7 C08
run C08-8 C08
run C09-1 C09
run C09-2 C09
run C09-3 C09
run C09-4 C09
run C09-5 C09
run C09-6 C09
run C09-7 C09 C18
run C09-8 C09 C14
run C10-1 C10
run C10-2 C10
run C10-3 C10
run C10-4 C10
run C10-5 C10 C14
run C10-6 C10
run C10-7 C10
run C10-8 C10 C03
run C11-1 C11
run C11-2 C11
run C11-3 C11
run C11-4 C11
run C11-5 C11
run C11-6 C11
run C11-7 C11
run C11-8 C11
run C12-1 C12
run C12-2 C12
run C12-3 C12
run C12-4 C12
run C12-5 C12
run C12-6 C12
run C12-7 C12
run C12-8 C12
run C13-1 C13
run C13-2 C13
run C13-3 C13
run C13-4 C13
run C13-5 C13
run C13-6 C13
run C13-7 C13
run C13-8 C13
run C14-1 C14
run C14-2 C14
run C14-3 C14
run C14-4 C14
run C14-5 C14
run C14-6 C14
run C14-7 C14
run C14-8 C14
run C15-1 C15
run C15-2 C15
run C15-3 C15
run C15-4 C15
run C15-5 C15
run C15-6 C15
run C15-7 C15
run C15-8 C15
run C16-1 C16
run C16-2 C16
run C16-3 C16
run C16-4 C16
run C16-5 C16
run C16-6 C16
run C16-7 C16
run C16-8 C16
run C17-1 C17
run C17-2 C17
run C17-3 C17
run C17-4 C17
run C17-5 C17 C19
run C17-6 C17
run C17-7 C17
run C17-8 C17
run C18-1 C18
run C18-2 C18
run C18-3 C18
run C18-4 C18
run C18-5 C18
run C18-6 C18 C02
run C18-7 C18
run C18-8 C18
run C19-1 C19
run C19-2 C19
run C19-3 C19
run C19-4 C19
run C19-5 C19
run C19-6 C19
run C19-7 C19
run C19-8 C19
run C20-1 C20
run C20-2 C20
run C20-3 C20
run C20-4 C20
run C20-5 C20
run C20-6 C20
run C20-7 C20
run C20-8 C20
tools/seeded_run.sh --rebuild
echo ALLDONE
