#!/bin/bash
# usage: tools/mutpatch.sh <patch-file> <checks...> — apply a patch to /repo, run checks, revert.
p=$1; shift
git -C /repo apply "$p" || { echo "PATCH DID NOT APPLY"; exit 3; }
git -C /repo diff --stat | tail -1
cd /verif
for c in "$@"; do timeout 1500 ./check $c 2>&1 | grep -E "VIOLATION|INFRA|violations=" | cut -c1-400 | head -4; done
git -C /repo checkout -- .
./check --build-only
