#!/bin/bash
# usage: tools/mutpatch.sh <patch-file> <checks...> — apply a patch to /repo, run checks, revert.
# Refuses to start on a /repo with uncommitted changes and reverts on every exit path.
p=$1; shift
if [ -n "$(git -C /repo status --porcelain --untracked-files=no)" ]; then echo "REFUSED: /repo has uncommitted changes"; exit 3; fi
revert() { git -C /repo checkout -- . ; }
trap revert EXIT
trap 'revert; exit 130' INT TERM HUP
git -C /repo apply "$p" || { echo "PATCH DID NOT APPLY"; exit 3; }
git -C /repo diff --stat | tail -1
cd /verif
for c in "$@"; do timeout 1500 ./check $c 2>&1 | grep -E "VIOLATION|INFRA|NOTE|violations=" | cut -c1-400 | head -6; done
revert
./check --build-only
