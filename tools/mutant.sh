#!/bin/bash
# usage: tools/mutant.sh <file-in-repo> <sed-expr> <checks...>   — apply a one-line mutation to /repo, run checks, revert.
f=$1; e=$2; shift 2
cd /repo && sed -i "$e" "$f" && git diff --stat | tail -1
if git diff --quiet; then echo "MUTATION DID NOT APPLY"; exit 3; fi
cd /verif
for c in "$@"; do ./check $c 2>&1 | grep -E "VIOLATION|INFRA|violations=" | cut -c1-300 | head -4; done
git -C /repo checkout -- .
cd /verif && ./check --build-only
