#!/bin/bash
# build the dev harness against the clean repo snapshot /tmp/wt/clean (harness/Cargo.toml is edited locally and marked assume-unchanged)
cd /tmp/vdev/harness && CARGO_TARGET_DIR=/tmp/vdev/target cargo build --offline --release 2>&1 | grep -E "^error" -A12 | head -40
