#!/bin/bash
# run the dev vcheck against the clean binary
VERIF_REPO_BIN=/tmp/wt/clean/target/release/circomspect /tmp/vdev/target/release/vcheck "$@" 2>&1 | grep -v "^proptest" | grep -E "VIOLATION|KNOWN|reason|violations=|INFRA" | cut -c1-900
