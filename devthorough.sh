#!/bin/bash
# thorough tier of the checks without a libFuzzer stage, dev harness against the clean snapshot
for c in "$@"; do
  t0=$(date +%s)
  out=$(VERIF_REPO_BIN=/tmp/wt/clean/target/release/circomspect /tmp/vdev/target/release/vcheck $c --tier thorough 2>&1); code=$?
  t1=$(date +%s)
  echo "$c exit=$code $((t1-t0))s $(echo "$out" | grep -E "^(VIOLATION|KNOWN-FINDING|INFRA)" | cut -c1-200 | head -4 | tr '\n' ' ') $(echo "$out" | grep -v '^proptest' | tail -1 | cut -c1-160)"
done
