pragma circom 2.0.0;
template T(n) {
 signal input in
}
