pragma circom 2.0.0;
/* ééé */ template T() { signal input in; signal output out; out <-- in; }
