pragma circom 2.0.0;
template T() { signal input in; signal output out[2]; out[(0, 1)] <== in; }
