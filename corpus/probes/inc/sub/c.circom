pragma circom 2.0.0;
include "../a.circom";
include "l.circom";
template C() { signal input in; signal output out; out <-- in; }
