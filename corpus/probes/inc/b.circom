pragma circom 2.0.0;
include "a.circom";
include "sub/../sub/c.circom";
template B() { signal input in; signal output out; out <-- in; }
