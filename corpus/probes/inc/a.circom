pragma circom 2.0.0;
include "b.circom";
include "./sub/c.circom";
include "missing.circom";
template A() { signal input in; signal output out; component b = B(); b.in <== in; out <-- b.out; }
