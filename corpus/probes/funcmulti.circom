pragma circom 2.0.0;
function f(a) { a + 1; return a; }
