pragma circom 2.0.0;
function f(a) { var b; (b) = a; return b; }
