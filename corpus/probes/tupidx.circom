pragma circom 2.0.0;
template T() { signal input in[2]; signal output out; out <== in[(0, 1)]; }
