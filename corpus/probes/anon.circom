pragma circom 2.1.0;
template Sub(k) { signal input a; signal input b; signal output s; signal output t; s <== a + b; t <== a * k; }
template One() { signal input a; signal output o; o <== a; }
template Top(n) {
    signal input x; signal input y; signal output u; signal output v; signal output w[2];
    (u, v) <== Sub(n)(x, y);
    for (var i = 0; i < 2; i++) { w[i] <== One()(x); }
    signal z <== One()(a <-- y);
    log((u, v));
}
function bad(a) { var (p, q) = (a, a); return p; }
