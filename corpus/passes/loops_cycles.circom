pragma circom 2.0.0;

// values carried round a loop through three variables, the result reaching the output one assignment after the loop
template Fib(n) {
    signal input in;
    signal output out;
    var a = in;
    var b = 1;
    var next = 0;
    for (var i = 0; i < n; i++) {
        next = a + b;
        a = b;
        b = next;
    }
    var result = a;
    out <== result;
}

template Rotate(n) {
    signal input in[3];
    signal output out;
    var p = in[0];
    var q = in[1];
    var r = in[2];
    var t = 0;
    var w = 0;
    while (w < n) {
        t = p;
        p = q;
        q = r;
        r = t;
        w++;
    }
    var last = p;
    out <== last * 2;
}

// declared without initialiser, first assigned in both branches, neither value read
template Mode(c) {
    signal input in;
    signal output out;
    out <== in;
    var mode;
    if (c > 1) {
        mode = 64;
    } else {
        mode = 32;
    }
}

function pick(c, b) {
    var t = b * 2;
    var mode;
    var other;
    if (c > 1) {
        mode = t;
        other = 1;
    } else {
        mode = t + 1;
        other = 2;
    }
    return b;
}
