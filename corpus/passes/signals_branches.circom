pragma circom 2.0.0;

template Pair() {
    signal input a;
    signal input b;
    signal output sum;
    signal output prod;
    signal output unused1;
    signal output unused2;
    sum <== a + b;
    prod <== a * b;
    unused1 <== a - b;
    unused2 <== a + 2 * b;
}

// the same helper names in both branches; several outputs of several components left unused
template MaybeSquare(n) {
    signal input in;
    signal output out;
    signal output dangling1;
    signal output dangling2;
    component p1 = Pair();
    component p2 = Pair();
    component p3 = Pair();
    p1.a <== in;
    p1.b <== in;
    p2.a <== in;
    p2.b <== 1;
    p3.a <== 2;
    p3.b <== in;
    if (n > 2) {
        signal tmp;
        signal aux;
        tmp <== in * in;
        out <== tmp + p1.sum;
        aux <-- tmp;
    } else {
        signal tmp;
        signal aux;
        out <== in + p2.prod;
    }
    var a = n;
    var b = n * 2;
    var c = a + b;
    var d = c;
    if (n > 3) {
        var a = 1;
        var b = 2;
        d = a + b;
    }
    dangling1 <-- ~in;
    dangling2 <-- in > 3 ? in : -in;
}

function many(x, y, z, unused) {
    var r = 0;
    var s = 0;
    var t = 0;
    for (var i = 0; i < 3; i++) {
        r += x;
        s += y;
        t = z;
    }
    if (x == 0 && 1 == 1) {
        return s;
    }
    return r + (x > y ? 1 : 0);
}
