pragma circom 2.0.0;

template IsZero() {
    signal input in;
    signal output out;
    signal inv;
    inv <-- in != 0 ? 1 / in : 0;
    out <== -in * inv + 1;
    in * out === 0;
}

template Num2Bits(n) {
    signal input in;
    signal output out[n];
    var lc1 = 0;
    var e2 = 1;
    for (var i = 0; i < n; i++) {
        out[i] <-- (in >> i) & 1;
        out[i] * (out[i] - 1) === 0;
        lc1 += out[i] * e2;
        e2 = e2 + e2;
    }
    lc1 === in;
}

template LessThan(n) {
    assert(n <= 252);
    signal input in[2];
    signal output out;
    component n2b = Num2Bits(n + 1);
    n2b.in <== in[0] + (1 << n) - in[1];
    out <== 1 - n2b.out[n];
}

// the divisor feeds two IsZero components, only one of which is constrained to be non-zero
template Divide() {
    signal input a;
    signal input b;
    signal output c;
    component z1 = IsZero();
    component z2 = IsZero();
    component z3 = IsZero();
    z1.in <== b;
    z2.in <== b;
    z3.in <== a;
    z2.out === 0;
    c <-- a / b;
    c * b === a;
    signal d;
    d <-- b / a;
}

// several range checks of different sizes on the inputs of several comparisons
template Compare(n) {
    signal input x;
    signal input y;
    signal input z;
    signal output lt1;
    signal output lt2;
    component bx8 = Num2Bits(8);
    component bx300 = Num2Bits(300);
    component by = Num2Bits(n);
    component bz = Num2Bits(64);
    bx8.in <== x;
    bx300.in <== x;
    by.in <== y;
    bz.in <== z;
    component c1 = LessThan(8);
    c1.in[0] <== x;
    c1.in[1] <== y;
    component c2 = LessThan(64);
    c2.in[0] <== z;
    c2.in[1] <== x;
    lt1 <== c1.out;
    lt2 <== c2.out;
}
