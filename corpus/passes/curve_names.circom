pragma circom 2.0.0;

// instantiations the curve-dependent passes look for (the definitions are not needed by the tool)
template Curves(n) {
    signal input in;
    signal input in2;
    signal output out;
    component a1 = Sign();
    component a2 = AliasCheck();
    component a3 = CompConstant(5);
    component a4 = Num2Bits_strict();
    component a5 = Bits2Num_strict();
    component a6 = Pedersen(8);
    component a7 = Poseidon(2);
    component a8 = MiMC7(91);
    component a9 = EdDSAVerifier(10);
    component b1 = Num2Bits(253);
    component b2 = Num2Bits(254);
    component b3 = Bits2Num(255);
    component b4 = Num2Bits(n);
    component b5[2];
    b5[0] = Num2Bits(300);
    b5[1] = Bits2Num(8);
    var x = in < in2;
    var y = in + in2 * 3 - 1;
    var z = ~y;
    out <-- x ? y : z;
}
