#![no_main]
//! C01: whole pipeline in-process (parse_files, every definition lifted, all passes,
//! report conversion) on raw bytes. A panic anywhere is reported unless its location is allow-listed.
use libfuzzer_sys::fuzz_target;
use std::sync::Once;

static INIT: Once = Once::new();

fuzz_target!(|data: &[u8]| {
    INIT.call_once(cv::engine::install_panic_hook);
    if let Err(p) = cv::props::c01::in_process(data) {
        eprintln!("ORACLE-FAILURE C01 {p}");
        std::process::abort();
    }
});
