#![no_main]
//! C01: as pipeline_bytes, but the input is a choice tape decoded by the grammar generators
//! (wild / valid files, random layout, optional token mutations).
use libfuzzer_sys::fuzz_target;
use std::sync::Once;

static INIT: Once = Once::new();

fuzz_target!(|data: &[u8]| {
    INIT.call_once(cv::engine::install_panic_hook);
    let bytes = cv::props::c01::tape_to_source(data);
    if let Err(p) = cv::props::c01::in_process(&bytes) {
        eprintln!("ORACLE-FAILURE C01 {p}");
        std::process::abort();
    }
});
