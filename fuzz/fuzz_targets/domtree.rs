#![no_main]
//! C15: DominatorTree::new vs the path-definition reference on coverage-guided graphs.
use libfuzzer_sys::fuzz_target;
use std::sync::Once;

static INIT: Once = Once::new();

fuzz_target!(|data: &[u8]| {
    INIT.call_once(cv::engine::install_panic_hook);
    let mut t = cv::engine::Tape::new(data);
    let (g, _) = cv::props::c15::decode_graph(&mut t);
    if let Err(bad) = cv::props::c15::check_graph(&g) {
        eprintln!("ORACLE-FAILURE C15 {} {}", bad.reason, bad.rendered);
        std::process::abort();
    }
});
