#![no_main]
//! C05: comment stripper vs reference lexer on coverage-guided inputs.
use libfuzzer_sys::fuzz_target;
use std::sync::Once;

static INIT: Once = Once::new();

fuzz_target!(|data: &[u8]| {
    INIT.call_once(cv::engine::install_panic_hook);
    if let Ok(s) = std::str::from_utf8(data) {
        if let Err(bad) = cv::props::c05::check_stripper(s) {
            eprintln!("ORACLE-FAILURE C05 {}", bad.reason);
            std::process::abort();
        }
    }
});
