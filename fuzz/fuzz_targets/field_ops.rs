#![no_main]
//! C16: modular arithmetic vs reference on coverage-guided operand pairs (real primes).
use libfuzzer_sys::fuzz_target;
use std::sync::Once;

static INIT: Once = Once::new();

fuzz_target!(|data: &[u8]| {
    INIT.call_once(cv::engine::install_panic_hook);
    let stats = cv::engine::Stats::new();
    let rec = cv::engine::Rec::new(&stats, false);
    if let Err(bad) = cv::props::c16::real_prime_case(data, &rec) {
        eprintln!("ORACLE-FAILURE C16 {}", bad.reason);
        std::process::abort();
    }
});
